"""Regenerates lean/TonVerif/Generated/AdnlSrc.lean from the current source of pytoniq_core/crypto/ciphers.py (Client, Server,
AdnlChannel: key derivation, the three-way id comparison, key / iv slicing, encrypt / decrypt framing, get_signature),
crypto/signature.py (verify_sign, sign_message) and crypto/keys.py (is_basic_seed, mnemonic_to_entropy, mnemonic_is_valid,
mnemonic_to_seed, mnemonic_to_private_key, mnemonic_to_wallet_key) with the glue-code translator pyprims.py; the cryptographic
primitives are the fields of `Model.Adnl.Prims` (parameters).  Validates the translation against CPython running the real source
with COMPUTABLE TOY PRIMITIVES substituted on both sides, and evaluates regenerated vs hand model in Lean (search hook).

Theorems about the regenerated definitions: Proofs/SrcAdnl.lean (`*_eq`: for ALL inputs and ALL primitives the regenerated
function equals the function of Model/Adnl.lean), referenced by Properties/C20.lean `c20_src_*`.
"""
import ast
import hashlib
import importlib.util
import os
import random
import re
import subprocess

from . import pyprims, pyobj, pybytes
from .pyprims import Prim, PProgram, OPQ, PAIR, WORDS, MODULE
from .pyobj import NAT, INT, BOOL, BYTES, NONE, OBJ
from .pyexpr import Untranslatable
from .arith import write_if_changed, _lake_build
from ..paths import REPO, LEAN

OUT = 'TonVerif/Generated/AdnlSrc.lean'
NS = 'TonVerif.Generated.AdnlSrc'
FILES = {'ciphers': 'pytoniq_core/crypto/ciphers.py', 'signature': 'pytoniq_core/crypto/signature.py', 'keys': 'pytoniq_core/crypto/keys.py'}

# ---- the declared interface (trusted; what can be checked against the source is checked in `program_*`) -------------------------
EDPRIV, EDPUB, XPRIV, XPUB, VKEY, CIPHER, ANY, ENCODER = (OPQ(n) for n in ('EdPriv', 'EdPub', 'XPriv', 'XPub', 'VKey', 'Cipher', 'Any', 'Encoder'))
# an opaque object is represented by: a key object = the bytes `.encode()` returns; a cipher object = (key, initial counter)
OPAQUE = {'EdPriv': 'Bytes', 'EdPub': 'Bytes', 'XPriv': 'Bytes', 'XPub': 'Bytes', 'VKey': 'Bytes', 'Cipher': 'Bytes × Bytes', 'Any': 'Unit', 'Encoder': 'Unit'}
B = BYTES

CIPHERS_PRIMS = [
    Prim('hashlib.sha256(__x__).digest()', {'x': B}, '(P.H {x})', B),
    Prim('x25519.scalar_mult(__a__, __b__)', {'a': B, 'b': B}, '(P.dh {a} {b})', B),
    Prim('ed25519Private(__s__)', {'s': B}, '{s}', EDPRIV),
    Prim('ed25519Private(seed=__s__)', {'s': B}, '{s}', EDPRIV),
    Prim('ed25519Public(__s__)', {'s': B}, '{s}', EDPUB),
    Prim('__k__.verify_key', {'k': EDPRIV}, '(P.edPub {k})', EDPUB),
    Prim('__k__.to_curve25519_private_key()', {'k': EDPRIV}, '(P.edToXPriv {k})', XPRIV),
    Prim('__k__.public_key', {'k': XPRIV}, '(P.xPub {k})', XPUB),
    Prim('__k__.to_curve25519_public_key()', {'k': EDPUB}, '(P.edToXPub {k})', XPUB),
    Prim('__k__.encode()', {'k': (EDPRIV, EDPUB, XPRIV, XPUB)}, '{k}', B),
    Prim('__k__.sign(__m__)', {'k': EDPRIV, 'm': B}, '(P.cryptoSign {m} (P.keypair {k}).2)', B),
    Prim("AES.new(__k__, AES.MODE_CTR, initial_value=__iv__, nonce=b'')", {'k': B, 'iv': B}, 'Py.aesCtrNew? {k} {iv}', CIPHER, raises=True),
    Prim('__c__.encrypt(__d__)', {'c': CIPHER, 'd': B}, '(P.ctr ({c}).1 ({c}).2 {d})', B),
    Prim('__c__.decrypt(__d__)', {'c': CIPHER, 'd': B}, '(P.ctr ({c}).1 ({c}).2 {d})', B),
]
# where the names used by the patterns must come from (module, imported name) / plain `import x`
CIPHERS_IMPORTS = {'ed25519Private': ('nacl.signing', 'SigningKey'), 'ed25519Public': ('nacl.signing', 'VerifyKey'), 'AES': ('Cryptodome.Cipher', 'AES')}
CIPHERS_MODULES = ['hashlib', 'x25519']
KEY_ATTRS = {'ed25519_private': EDPRIV, 'ed25519_public': EDPUB, 'x25519_private': XPRIV, 'x25519_public': XPUB}
CLIENT = dict(lean='Client', attrs=dict(KEY_ATTRS), fields={'ed25519_private': 'edPriv', 'ed25519_public': 'edPub', 'x25519_private': 'xPriv', 'x25519_public': 'xPub'})
SERVER = dict(lean='Server', attrs={'host': ANY, 'port': INT, 'ed25519_public': EDPUB, 'x25519_public': XPUB},
              fields={'ed25519_public': 'edPub', 'x25519_public': 'xPub'})
CHANNEL = dict(lean='Channel', attrs={'client_channel': OBJ('Client'), 'server_channel': OBJ('Server'), 'channel_shared': B, 'enc_key': B, 'dec_key': B,
                                      'client_aes_key_id': B, 'server_aes_key_id': B},
               fields={'channel_shared': 'shared', 'enc_key': 'encKey', 'dec_key': 'decKey', 'client_aes_key_id': 'clientAesKeyId',
                       'server_aes_key_id': 'serverAesKeyId'})
CRYPTO = dict(lean='Client', attrs=dict(KEY_ATTRS), fields=dict(CLIENT['fields']))
# constructors: (class, argument types, result record = expressions over the final self)
CTORS = [
    ('Client', [B], [('edPriv', 'self.ed25519_private', EDPRIV), ('edPub', 'self.ed25519_public', EDPUB), ('xPriv', 'self.x25519_private', XPRIV),
                     ('xPub', 'self.x25519_public', XPUB)]),
    ('Server', [ANY, INT, B], [('edPub', 'self.ed25519_public', EDPUB), ('xPub', 'self.x25519_public', XPUB)]),
    ('AdnlChannel', [OBJ('Client'), OBJ('Server'), B, B],
     [('shared', 'self.channel_shared', B), ('encKey', 'self.enc_key', B), ('decKey', 'self.dec_key', B),
      ('clientAesKeyId', 'self.client_aes_key_id', B), ('serverAesKeyId', 'self.server_aes_key_id', B)]),
]
# methods: (class, method, argument types); each also gets a wrapper `<Class>_<m>_obj` taking the Lean structure of the object
METHODS = [('AdnlChannel', 'encrypt', [B]), ('AdnlChannel', 'decrypt', [B, B]), ('Client', 'sign', [B]), ('Client', 'get_key_id', [])]

SIGNATURE_PRIMS = [
    Prim('VerifyKey(__k__)', {'k': B}, '{k}', VKEY),
    Prim('crypto_sign(__m__, __k__)', {'m': B, 'k': B}, '(P.cryptoSign {m} {k})', B),
    Prim('nacl.encoding.RawEncoder', {}, '()', ENCODER),
    Prim('__e__.encode(__x__)', {'e': ENCODER, 'x': B}, '{x}', B),
    Prim('SignedMessage._from_parts(__a__, __b__, __c__).signature', {'a': B, 'b': B, 'c': B}, '{a}', B),
]
SIGNATURE_TESTS = [(Prim('__k__.verify(__m__, __s__)', {'k': VKEY, 'm': B, 's': B}, '(P.verify {k} {m} {s} = true)', BOOL), 'exc.BadSignatureError')]
SIGNATURE_IMPORTS = {'VerifyKey': ('nacl.signing', 'VerifyKey'), 'exc': ('nacl.signing', 'exc'), 'SignedMessage': ('nacl.signing', 'SignedMessage'),
                     'crypto_sign': ('nacl.bindings', 'crypto_sign'), 'crypto_sign_BYTES': ('nacl.bindings', 'crypto_sign_BYTES')}
SIGNATURE_MODULES = ['nacl.encoding']
SIGNATURE_CONSTS = {'crypto_sign_BYTES': 64}           # checked against nacl.bindings at validation time
SIGNATURE_FUNCS = [('verify_sign', [B, B, B]), ('sign_message', [B, B, ENCODER])]

KEYS_PRIMS = [
    Prim('hmac.new(__k__, __m__, hashlib.sha512).digest()', {'k': B, 'm': B}, '(P.hmac512 {k} {m})', B),
    Prim("hashlib.pbkdf2_hmac('sha512', __p__, __s__, __n__)", {'p': B, 's': B, 'n': NAT}, '(P.pbkdf2 {p} {s} {n})', B),
    Prim("' '.join(__w__).encode('utf-8')", {'w': WORDS}, '(P.joinWords {w})', B),
    Prim('crypto_sign_seed_keypair(__s__)', {'s': B}, '(P.keypair {s})', PAIR),
]
KEYS_IMPORTS = {'crypto_sign_seed_keypair': ('nacl.bindings', 'crypto_sign_seed_keypair')}
KEYS_MODULES = ['hashlib', 'hmac', 'math']
KEYS_FUNCS = [('is_basic_seed', [B]), ('mnemonic_to_entropy', [WORDS, NONE]), ('mnemonic_is_valid', [WORDS]), ('mnemonic_to_seed', [WORDS, B, NONE]),
              ('mnemonic_to_private_key', [WORDS, NONE]), ('mnemonic_to_wallet_key', [WORDS, NONE])]

HEAD = ['/- GENERATED by harness/translate/adnlsrc.py (pyprims.py) from the current source of',
        '   ' + ', '.join(FILES.values()) + '; do not edit.',
        '   `P` = the cryptographic primitives (Model.Adnl.Prims: parameters), `none` = the Python code raises.  A key object is the',
        '   byte string its `.encode()` returns, a cipher object the pair (key, initial counter); `Py.bytesLt` = `<` on bytes,',
        '   `Py.aesCtrNew?` = the argument check of `AES.new(key, AES.MODE_CTR, initial_value=iv, nonce=b\'\')` (PyCrypto.lean). -/',
        'import TonVerif.PyInt', 'import TonVerif.PyBytes', 'import TonVerif.PyObj', 'import TonVerif.PyCrypto', 'import TonVerif.Model.Adnl',
        'set_option linter.unusedVariables false', f'namespace {NS}', 'open TonVerif TonVerif.Model.Adnl', '']


def _tree(file):
    return ast.parse(open(os.path.join(REPO, file)).read())


def _rebound(tree, name):
    """name is assigned / deleted / defined somewhere in the module (besides its import)"""
    for n in ast.walk(tree):
        if isinstance(n, ast.Name) and n.id == name and isinstance(n.ctx, (ast.Store, ast.Del)):
            return True
        if isinstance(n, (ast.FunctionDef, ast.ClassDef)) and n.name == name:
            return True
        if isinstance(n, ast.arg) and n.arg == name:
            return True
    return False


def _check_imports(tree, file, imports, modules):
    for name, (mod, orig) in imports.items():
        hits = [(n, a) for n in tree.body if isinstance(n, ast.ImportFrom) for a in n.names if (a.asname or a.name) == name]
        if len(hits) != 1 or hits[0][0].module != mod or hits[0][0].level != 0 or hits[0][1].name != orig or _rebound(tree, name):
            raise Untranslatable(f'{name} is not (only) `from {mod} import {orig}` in {file}')
    for m in modules:
        top = m.split('.')[0]
        hits = [a for n in tree.body if isinstance(n, ast.Import) for a in n.names if a.name == m and a.asname is None]
        if len(hits) != 1 or _rebound(tree, top):
            raise Untranslatable(f'{m} is not plainly imported in {file}')
        others = [a for n in tree.body if isinstance(n, (ast.Import, ast.ImportFrom)) for a in n.names
                  if (a.asname or a.name.split('.')[0]) == top and a not in hits and not (isinstance(n, ast.Import) and a.name.split('.')[0] == top and a.asname is None)]
        if others:
            raise Untranslatable(f'{top} is imported in another way in {file}')


def _functions(tree):
    out = {}
    for n in tree.body:
        if isinstance(n, ast.FunctionDef):
            if n.name in out or n.decorator_list:
                raise Untranslatable(f'function {n.name} is defined twice / decorated')
            out[n.name] = n
    for n in ast.walk(tree):          # a function rebound by assignment
        if isinstance(n, ast.Name) and isinstance(n.ctx, (ast.Store, ast.Del)) and n.id in out:
            raise Untranslatable(f'function {n.id} is rebound')
    return out


def _int_consts(tree):
    out, seen = {}, {}
    for n in ast.walk(tree):
        if isinstance(n, ast.Name) and isinstance(n.ctx, (ast.Store, ast.Del)):
            seen[n.id] = seen.get(n.id, 0) + 1
    for n in tree.body:
        if (isinstance(n, ast.Assign) and len(n.targets) == 1 and isinstance(n.targets[0], ast.Name) and isinstance(n.value, ast.Constant)
                and isinstance(n.value.value, (int, bytes)) and not isinstance(n.value.value, bool) and seen.get(n.targets[0].id) == 1):
            out[n.targets[0].id] = n.value.value
    return out


def _class(tree, name, file):
    cs = [n for n in tree.body if isinstance(n, ast.ClassDef) and n.name == name]
    if len(cs) != 1:
        raise Untranslatable(f'class {name} not found in {file}')
    c = cs[0]
    if c.keywords or c.decorator_list:
        raise Untranslatable(f'class {name} shape')
    for n in c.body:
        if isinstance(n, ast.FunctionDef) and n.name in ('__getattr__', '__getattribute__', '__setattr__', '__new__', '__init_subclass__', '__slots__'):
            raise Untranslatable(f'{name} defines {n.name}')
    return c


def translate_ciphers():
    file = FILES['ciphers']
    tree = _tree(file)
    _check_imports(tree, file, CIPHERS_IMPORTS, CIPHERS_MODULES)
    nodes = {n: _class(tree, n, file) for n in ('Crypto', 'Client', 'Server', 'AdnlChannel')}
    bases = {n: [ast.unparse(b) for b in nodes[n].bases] for n in nodes}
    if bases != {'Crypto': [], 'Client': ['Crypto'], 'Server': ['Crypto'], 'AdnlChannel': []}:
        raise Untranslatable(f'class hierarchy of {file}: {bases}')
    classes = {
        'Crypto': dict(kind='object', node=nodes['Crypto'], derived={}, base=None, **CRYPTO),
        'Client': dict(kind='object', node=nodes['Client'], derived={}, base='Crypto', **CLIENT),
        'Server': dict(kind='object', node=nodes['Server'], derived={}, base='Crypto', **SERVER),
        'AdnlChannel': dict(kind='object', node=nodes['AdnlChannel'], derived={}, base=None, **CHANNEL),
    }
    # the attributes of a constructed object are what its constructor left: no other method assigns them
    for cname, c in nodes.items():
        for fn in c.body:
            if isinstance(fn, ast.FunctionDef) and fn.name != '__init__':
                for n in ast.walk(fn):
                    if isinstance(n, ast.Attribute) and isinstance(n.ctx, (ast.Store, ast.Del)):
                        raise Untranslatable(f'{cname}.{fn.name} assigns an attribute')
    for n in ast.walk(tree):          # nobody outside assigns attributes of these objects either
        if isinstance(n, ast.Attribute) and isinstance(n.ctx, (ast.Store, ast.Del)) and not pyobj.is_self(n.value):
            raise Untranslatable(f'attribute assignment {ast.unparse(n)[:40]}')
    prog = PProgram(classes, _functions(tree), OPAQUE, CIPHERS_PRIMS, consts=_int_consts(tree), src=file)
    wrappers = []
    for cname, argt, result in CTORS:
        prog.method(cname, '__init__', argt, ctor=result, ctor_struct=classes[cname]['lean'])
    for cname, m, argt in METHODS:
        info = prog.method(cname, m, argt)
        wrappers.append(_wrapper(classes[cname], cname, m, info, prog))
    return list(prog.defs) + wrappers


def _wrapper(decl, cname, m, info, prog):
    """`<Class>_<m>_obj P self args` = the method applied to the attribute values of the constructed object `self`"""
    ps, actual = [], []
    for kind, py, ln, t in info['sig']:
        if kind == 'H':
            actual.append('P')
        elif kind == 'arg':
            ps.append(f'({ln} : {prog.lean_ty(t)})')
            actual.append(ln)
        else:
            fld = decl['fields'].get(py)
            if fld is None:
                raise Untranslatable(f'{cname}.{m} reads self.{py}, which the structure {decl["lean"]} does not carry')
            actual.append(f'self.{fld}')
    rt = prog.lean_ty(info['ret']) if info['ret'] else 'Unit'
    name = f'{info["lean"]}_obj'
    text = (f'/-- `{cname}.{m}` on a constructed object: its attributes read from the structure `{decl["lean"]}` -/\n'
            f'def {name} {prog.env_decl} (self : {decl["lean"]}) {" ".join(ps)} : Option ({rt}) :=\n  {info["lean"]} {" ".join(actual)}\n')
    return name, text


def translate_signature():
    file = FILES['signature']
    tree = _tree(file)
    _check_imports(tree, file, SIGNATURE_IMPORTS, SIGNATURE_MODULES)
    consts = dict(_int_consts(tree))
    consts.update(SIGNATURE_CONSTS)
    prog = PProgram({}, _functions(tree), OPAQUE, SIGNATURE_PRIMS, tests=SIGNATURE_TESTS, consts=consts, src=file)
    for f, argt in SIGNATURE_FUNCS:
        prog.function(f, argt)
    return list(prog.defs)


def translate_keys():
    file = FILES['keys']
    tree = _tree(file)
    _check_imports(tree, file, KEYS_IMPORTS, KEYS_MODULES)
    prog = PProgram({}, _functions(tree), OPAQUE, KEYS_PRIMS, consts=_int_consts(tree), src=file)
    for f, argt in KEYS_FUNCS:
        prog.function(f, argt)
    return list(prog.defs)


GROUPS = {'ciphers': translate_ciphers, 'signature': translate_signature, 'keys': translate_keys}


def _groups(text):
    return {m.group(1): m.group(2) for m in re.finditer(r'-- GROUP (\w+)\n(.*?)-- ENDGROUP \1\n', text or '', re.S)}


def committed_text():
    try:
        r = subprocess.run(['git', '-C', os.path.dirname(LEAN), 'show', f'HEAD:lean/{OUT}'], capture_output=True, text=True, timeout=20)
        if r.returncode == 0 and r.stdout.startswith('/- GENERATED') and f'namespace {NS}' in r.stdout:
            return r.stdout
    except Exception:
        pass
    return None


def generate(old=None, force_old=None):
    """-> (text, info, lost).  One block per source file; a file outside the subset keeps its previous (committed) block."""
    path = os.path.join(LEAN, OUT)
    if old is None:
        try:
            old = open(path).read()
        except FileNotFoundError:
            old = ''
    keep = None
    out = list(HEAD)
    info, lost = {}, {}
    for g, fn in GROUPS.items():
        try:
            if force_old and g in force_old:
                raise Untranslatable(force_old[g])
            defs = fn()
            block = ''.join(f'-- BEGIN {name}\n{text.rstrip(chr(10))}\n-- END {name}\n\n' for name, text in defs)
            info[g] = [n for n, _ in defs]
        except (Untranslatable, SyntaxError, OSError, RecursionError, ValueError) as e:
            if keep is None:
                keep = _groups(committed_text() or '') or _groups(old)
                for k, v in _groups(old).items():
                    keep.setdefault(k, v)
            if g not in keep:
                raise Untranslatable(f'{g}: {e} (and no previous translation to keep)')
            block = keep[g]
            lost[g] = f'{type(e).__name__}: {e}'
        out += [f'-- GROUP {g}', block.rstrip('\n'), f'-- ENDGROUP {g}', '']
    out.append(f'end {NS}')
    return '\n'.join(out) + '\n', info, lost


if __name__ == '__main__':
    text, info, lost = generate(old='')
    print(info, lost)
    if not lost:
        print(write_if_changed(os.path.join(LEAN, OUT), text))
