"""Regenerates lean/TonVerif/Generated/Crc.lean from /repo/pytoniq_core/crypto/crc.py."""
import ast
import os

from .pyexpr import translate_function, Untranslatable
from ..paths import REPO, LEAN


def fmt_table(name, vals):
    rows = []
    for i in range(0, len(vals), 8):
        rows.append('  ' + ', '.join(str(v) for v in vals[i:i + 8]))
    return f'def {name} : Array Nat := #[\n' + ',\n'.join(rows) + '\n]\n'


def generate():
    """Returns (lean_text, info). Raises Untranslatable if the source left the subset."""
    src = open(os.path.join(REPO, 'pytoniq_core/crypto/crc.py')).read()
    tree = ast.parse(src)
    fns = {n.name: n for n in tree.body if isinstance(n, ast.FunctionDef)}
    out = ['/- GENERATED from pytoniq_core/crypto/crc.py by harness/translate/crc.py; do not edit. -/',
           'namespace TonVerif.Generated', '']
    info = {}
    for py, lean in (('crc16', 'crc16'), ('crc32c', 'crc32c')):
        if py not in fns:
            raise Untranslatable(f'function {py} missing')
        r = translate_function(fns[py], lean)
        for tn, vals in r['tables'].items():
            out.append(fmt_table(tn, vals))
        out.append(r['lean'])
        out.append(f'def {lean}_width : Nat := {r["ret_width"]}')
        order = {'big': 'some true', 'little': 'some false', None: 'none'}[r['ret_order']]
        out.append(f'/-- `some true` = big-endian, `some false` = little-endian, `none` = taken from the byteorder argument -/')
        out.append(f'def {lean}_bigEndian : Option Bool := {order}')
        out.append('')
        info[py] = {k: (len(v) if k == 'tables' else v) for k, v in r.items() if k != 'lean'}
        info[py]['tables'] = {k: len(v) for k, v in r['tables'].items()}
    out.append('end TonVerif.Generated')
    return '\n'.join(out) + '\n', info


def write_if_changed(path, text):
    try:
        if open(path).read() == text:
            return False
    except FileNotFoundError:
        pass
    os.makedirs(os.path.dirname(path), exist_ok=True)
    with open(path, 'w') as f:
        f.write(text)
    return True


def regenerate():
    text, info = generate()
    changed = write_if_changed(os.path.join(LEAN, 'TonVerif/Generated/Crc.lean'), text)
    return changed, info
