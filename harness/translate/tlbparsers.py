"""Regenerates lean/TonVerif/Generated/TlbParsers.lean from the `deserialize` classmethods of
pytoniq_core/tlb/{utils,account,transaction,block,config}.py (property C16).

One Lean function per class, `Src.<Class> (sp : Bool) (cell_slice : Frag) [extra : Val …] : Rd.R`, in the `Option` monad
(`none` = the parser raises), written with the primitives of lean/TonVerif/Model/TlbRd.lean.  `sp` = `is_special()` of the
slice.  The translation is a symbolic execution of the method body, one Lean `let … ← …` per slice read in Python's
evaluation order (arguments left to right, the test of `a if c else b` before its branches); slice variables are rebound
(shadowed) by every read, so a read of the wrong slice or in another order is another Lean term.

Python subset (anything else raises Untranslatable -> that class is reported `lost`, its previous section is kept):
  statements  NAME = e | NAME += e | kwargs['k'] = e | a, b, … = [e for _ in range(N)] | self.x = e (in an inlined __init__)
              | if / elif / else (the continuation is copied into both branches; an `if` whose branches only assign values to
                the same names is ONE conditional `let` and the continuation is translated once) | return e | raise … | assert e
              | e (for its reads) | docstring | import | pass
  reads       S.load_uint(N) load_int load_bit load_bool load_bits load_bytes load_coins load_var_uint load_ref
              load_maybe_ref skip_bits preload_bit preload_bits preload_bytes (N a constant int expression or a constant local),
              S.is_special(), S.to_cell(), S.copy().to_cell(), S.copy(), S.load_ref().begin_parse(), C.begin_parse()
              T.deserialize(S | <ref>.begin_parse() [, extra …]) for an already translated class T,
              cls(…) / cls(S) (the latter inlines __init__), cls.deserialize
  pure        int / bool / None / str / bytes constants, names, self.x, e.to01(), e.hex(), str(e), e[:K], e + e on bit strings,
              ==  !=  in (…)  not in (…)  <=  <  >=  >  is None  is not None  not  and  or, bin(e)[-1] == '1',
              a if c else b, {} (kwargs),
              D = {const: const, …} (a constant table; only `x in D`, `x not in D`, `D.get(x)`, `D[x]` after a membership test)
"""
import ast
import os
import re

from .pyexpr import Untranslatable
from .crc import write_if_changed
from ..paths import REPO, LEAN

GEN = os.path.join(LEAN, 'TonVerif/Generated/TlbParsers.lean')

# (python file, class) in dependency order; a class may only call classes listed before it
CLASSES = [
    ('utils', 'HashUpdate'),
    ('account', 'TickTock'), ('account', 'StorageUsed'), ('account', 'StorageUsedShort'), ('account', 'StorageInfo'),
    ('account', 'AccountStatus'), ('account', 'StateInit'), ('account', 'AccountState'),
    ('block', 'ExtBlkRef'), ('block', 'BlkMasterInfo'), ('block', 'BlkPrevInfo'), ('block', 'ShardIdent'),
    ('block', 'GlobalVersion'), ('block', 'BlockInfo'),
    ('block', 'KeyExtBlkRef'), ('block', 'KeyMaxLt'), ('block', 'Counters'), ('block', 'CreatorStats'),
    ('block', 'ValidatorInfo'), ('block', 'FutureSplitMerge'),
    ('transaction', 'AccStatusChange'), ('transaction', 'ComputeSkipReason'), ('transaction', 'TrStoragePhase'),
    ('transaction', 'TrComputePhase'), ('transaction', 'TrBouncePhase'),
    ('transaction', 'SplitMergeInfo'), ('transaction', 'IntermediateAddress'),
    # TrActionPhase and the Transaction* kinds are regenerated AND proved by the second part (tlbparsers_tx.py); no copies here
    ('config', 'SigPubKey'), ('config', 'ValidatorDescr'), ('config', 'CatchainConfig'), ('config', 'ConsensusConfig'),
]

READS = {  # method -> (Lean primitive, number of constant int arguments, returns a value)
    'load_uint': ('Rd.loadUint', 1), 'load_int': ('Rd.loadInt', 1), 'load_bit': ('Rd.loadBit', 0),
    'load_bool': ('Rd.loadBool', 0), 'load_bits': ('Rd.loadBits', 1), 'load_bytes': ('Rd.loadBytes', 1),
    'load_coins': ('Rd.loadCoins', 0), 'load_var_uint': ('Rd.loadVarUint', 1), 'load_ref': ('Rd.loadRefV', 0),
    'load_maybe_ref': ('Rd.loadMaybeRef', 0),
}
PRELOADS = {'preload_bit': ('Rd.preloadBit', 0), 'preload_bits': ('Rd.preloadBits', 1), 'preload_bytes': ('Rd.preloadBytes', 1)}
KIND = {'load_bits': 'bits', 'preload_bits': 'bits', 'load_bytes': 'bytes', 'preload_bytes': 'bytes', 'load_bit': 'bit',
        'preload_bit': 'bit'}


def lstr(s):
    if not re.fullmatch(r'[A-Za-z0-9_ ]*', s):
        raise Untranslatable(f'string constant {s!r}')
    return '"' + s + '"'


class V:
    """a Python value held in a Lean term"""
    def __init__(self, lean, kind='val', const=None):
        self.lean, self.kind, self.const = lean, kind, const


class S:
    """a slice variable: Lean variable of the Frag, Lean term of its is_special()"""
    def __init__(self, var, sp):
        self.var, self.sp = var, sp


class C:
    """a cell held in a Lean variable"""
    def __init__(self, var):
        self.var = var


class Ctx:
    def __init__(self, tr, cls, src_mod):
        self.tr, self.cls, self.mod = tr, cls, src_mod
        self.n = 0
        self.calls = set()

    def fresh(self, p='t'):
        self.n += 1
        return f'{p}{self.n}'


def const_int(e, env):
    """constant int expression (literals, + - * //, int(N).bit_length(), constant locals)"""
    if isinstance(e, ast.Constant) and isinstance(e.value, int) and not isinstance(e.value, bool):
        return e.value
    if isinstance(e, ast.Name) and isinstance(env.get(e.id), V) and env[e.id].const is not None:
        return env[e.id].const
    if isinstance(e, ast.BinOp) and type(e.op) in (ast.Add, ast.Sub, ast.Mult, ast.FloorDiv):
        a, b = const_int(e.left, env), const_int(e.right, env)
        if a is None or b is None:
            return None
        return {ast.Add: a + b, ast.Sub: a - b, ast.Mult: a * b, ast.FloorDiv: a // b if b else None}[type(e.op)]
    if (isinstance(e, ast.Call) and isinstance(e.func, ast.Attribute) and e.func.attr == 'bit_length' and not e.args
            and isinstance(e.func.value, ast.Call) and isinstance(e.func.value.func, ast.Name) and e.func.value.func.id == 'int'
            and len(e.func.value.args) == 1):
        a = const_int(e.func.value.args[0], env)
        return None if a is None else a.bit_length()
    return None


def is_name(e, n):
    return isinstance(e, ast.Name) and e.id == n


class Fn:
    """symbolic execution of one method body; `out` collects Lean lines of the current path"""

    def __init__(self, ctx):
        self.ctx = ctx

    # ------------------------------------------------------------------ slices
    def slice_of(self, e, env, out):
        """e denotes a slice: a slice variable, or <cell>.begin_parse() -> S (a fresh Lean variable for a new slice)"""
        if isinstance(e, ast.Name) and isinstance(env.get(e.id), S):
            return env[e.id], e.id
        if isinstance(e, ast.Call) and isinstance(e.func, ast.Attribute) and e.func.attr == 'begin_parse' and not e.args:
            c = self.cell_of(e.func.value, env, out)
            v = self.ctx.fresh('r')
            out.append(f'let {v} := Rd.beginParse {c.var}')
            return S(v, f'(Rd.special {c.var})'), None
        raise Untranslatable(f'not a slice: {ast.unparse(e)[:60]}')

    def cell_of(self, e, env, out):
        if isinstance(e, ast.Name) and isinstance(env.get(e.id), C):
            return env[e.id]
        if (isinstance(e, ast.Call) and isinstance(e.func, ast.Attribute) and e.func.attr == 'load_ref' and not e.args
                and isinstance(e.func.value, ast.Name) and isinstance(env.get(e.func.value.id), S)):
            s = env[e.func.value.id]
            c = self.ctx.fresh('c')
            out.append(f'let ({c}, {s.var}) ← Rd.loadRef {s.var}')
            return C(c)
        raise Untranslatable(f'not a cell: {ast.unparse(e)[:60]}')

    # ------------------------------------------------------------------ expressions
    def expr(self, e, env, out):
        """-> V (reads are appended to out)"""
        ctx = self.ctx
        if isinstance(e, ast.Constant):
            v = e.value
            if v is None:
                return V('Val.unit', 'none')
            if isinstance(v, bool):
                return V(f'(Val.bool {"true" if v else "false"})', 'bool')
            if isinstance(v, int):
                if v < 0:
                    return V(f'(Val.int ({v}))', 'int', v)
                return V(f'(Val.int {v})', 'int', v)
            if isinstance(v, str):
                if v and set(v) <= {'0', '1'}:
                    return V('(Rd.bits01 [' + ', '.join('true' if ch == '1' else 'false' for ch in v) + '])', 'bits')
                return V(f'(Rd.str {lstr(v)})', 'str')
            if isinstance(v, bytes):
                return V('(Rd.bytesLit [' + ', '.join(str(b) for b in v) + '])', 'bytes')
            raise Untranslatable(f'constant {v!r}')
        if isinstance(e, ast.Name):
            b = env.get(e.id)
            if isinstance(b, V):
                return b
            raise Untranslatable(f'name {e.id} is not a value here')
        if isinstance(e, ast.Attribute) and is_name(e.value, 'self') and 'self' in env:
            f = dict(env['self'])
            if e.attr in f:
                return f[e.attr]
            raise Untranslatable(f'self.{e.attr} read before assignment')
        if isinstance(e, ast.IfExp):
            lines, cond = self.cond(e.test, env, out)
            sl = [b.var for b in env.values() if isinstance(b, S)]
            t = ctx.fresh()
            oa, ob = [], []
            a = self.expr(e.body, dict(env), oa)
            b = self.expr(e.orelse, dict(env), ob)
            tup = ', '.join([t] + sl)
            ra = ', '.join([a.lean] + sl)
            rb = ', '.join([b.lean] + sl)

            def blk(o, r):
                if not o:
                    return f'pure ({r})'
                return 'do\n' + '\n'.join('      ' + x.replace('\n', '\n    ') for x in o) + f'\n      pure ({r})'
            out.append(f'let ({tup}) ← (if {cond} then {blk(oa, ra)}\n    else {blk(ob, rb)})')
            return V(t, a.kind if a.kind == b.kind else 'val')
        if isinstance(e, ast.Call):
            return self.call(e, env, out)
        if isinstance(e, ast.Subscript):
            s = e.slice
            if (isinstance(s, ast.Slice) and s.lower is None and s.step is None and s.upper is not None
                    and const_int(s.upper, env) is not None and const_int(s.upper, env) >= 0):
                a = self.expr(e.value, env, out)
                if a.kind != 'bytes':
                    raise Untranslatable('prefix slice of a non-bytes value')
                t = ctx.fresh()
                out.append(f'let {t} ← Rd.bytesPrefix {const_int(s.upper, env)} {a.lean}')
                return V(t, 'bytes')
            raise Untranslatable(f'subscript {ast.unparse(e)[:40]}')
        if isinstance(e, ast.BinOp) and isinstance(e.op, ast.Add):
            a = self.expr(e.left, env, out)
            b = self.expr(e.right, env, out)
            if a.kind == 'bits' and b.kind == 'bits':
                t = ctx.fresh()
                out.append(f'let {t} ← Rd.bitsCat {a.lean} {b.lean}')
                return V(t, 'bits')
            raise Untranslatable('+ on values that are not bit strings')
        if isinstance(e, ast.Dict) and not e.keys:
            return V(None, 'kwargs', [])
        if isinstance(e, ast.Dict) and all(isinstance(k, ast.Constant) for k in e.keys) \
                and all(isinstance(v, ast.Constant) for v in e.values):
            # a constant table: never a Lean value of its own, only looked up
            ks = [self.expr(k, env, out) for k in e.keys]
            vs = [self.expr(v, env, out) for v in e.values]
            if len({ast.dump(k) for k in e.keys}) != len(e.keys):
                raise Untranslatable('constant table with a repeated key')
            return V(None, 'cdict', list(zip(ks, vs)))
        if isinstance(e, (ast.Compare, ast.BoolOp)) or (isinstance(e, ast.UnaryOp) and isinstance(e.op, ast.Not)):
            lines, cond = self.cond(e, env, out)
            return V(f'(Val.bool {cond})', 'bool')
        raise Untranslatable(f'expression {ast.unparse(e)[:60]}')

    def call(self, e, env, out):
        ctx = self.ctx
        f = e.func
        if isinstance(f, ast.Name):
            if f.id == 'cls':
                return self.construct(ctx.cls, e, env, out)
            if f.id == 'str' and len(e.args) == 1 and not e.keywords:
                a = self.expr(e.args[0], env, out)
                if a.kind == 'bits':
                    return a
                if a.kind == 'bit':
                    t = ctx.fresh()
                    out.append(f'let {t} ← Rd.strOfBit {a.lean}')
                    return V(t, 'bits')
                raise Untranslatable('str() of a value that is not a bit')
            raise Untranslatable(f'call of {f.id}')
        if not isinstance(f, ast.Attribute):
            raise Untranslatable('call')
        m = f.attr
        # T.deserialize(slice, extra…)
        if m == 'deserialize' and isinstance(f.value, ast.Name) and not e.keywords and e.args:
            tname = ctx.cls if f.value.id == 'cls' else f.value.id
            if tname not in ctx.tr.done:
                raise Untranslatable(f'calls {tname}.deserialize, which is not translated (or later in the order / recursive)')
            extra = ctx.tr.done[tname]['extra']
            if len(e.args) != 1 + len(extra):
                raise Untranslatable(f'{tname}.deserialize argument count')
            s, pyname = self.slice_of(e.args[0], env, out)
            xs = [self.expr(a, env, out).lean for a in e.args[1:]]
            t = ctx.fresh()
            keep = s.var if pyname else '_'
            out.append(f'let ({t}, {keep}) ← {tname} {s.sp} {s.var}' + ''.join(' ' + x for x in xs))
            ctx.calls.add(tname)
            return V(t, 'val')
        # slice methods
        if isinstance(f.value, ast.Name) and isinstance(env.get(f.value.id), S):
            s = env[f.value.id]
            if m in READS or m in PRELOADS:
                prim, nargs = (READS.get(m) or PRELOADS[m])
                if e.keywords or len(e.args) != nargs:
                    raise Untranslatable(f'{m} arguments')
                ns = []
                for a in e.args:
                    k = const_int(a, env)
                    if k is None or k < 0:
                        raise Untranslatable(f'{m}: width is not a constant')
                    ns.append(str(k))
                t = ctx.fresh()
                if m in READS:
                    out.append(f'let ({t}, {s.var}) ← {prim} ' + ' '.join(ns + [s.var]))
                else:
                    out.append(f'let {t} ← {prim} ' + ' '.join(ns + [s.var]))
                return V(t, KIND.get(m, 'val'))
            if m == 'skip_bits' and len(e.args) == 1 and const_int(e.args[0], env) is not None:
                out.append(f'let {s.var} ← Rd.skipBits {const_int(e.args[0], env)} {s.var}')
                return V('Val.unit', 'none')
            if m == 'to_cell' and not e.args:
                return V(f'(Rd.toCell {s.sp} {s.var})', 'cell')
            if m == 'is_special' and not e.args:
                return V(f'(Val.bool {s.sp})', 'bool')
            raise Untranslatable(f'slice method {m}')
        # S.copy().to_cell()
        if (m == 'to_cell' and isinstance(f.value, ast.Call) and isinstance(f.value.func, ast.Attribute)
                and f.value.func.attr == 'copy' and isinstance(f.value.func.value, ast.Name)
                and isinstance(env.get(f.value.func.value.id), S)):
            s = env[f.value.func.value.id]
            return V(f'(Rd.toCell {s.sp} {s.var})', 'cell')
        if (m == 'get' and len(e.args) == 1 and not e.keywords and isinstance(f.value, ast.Name)
                and isinstance(env.get(f.value.id), V) and env[f.value.id].kind == 'cdict'):
            a = self.expr(e.args[0], env, out)
            term = 'Val.unit'
            kinds = set()
            for k, v in reversed(env[f.value.id].const):
                term = f'(if Rd.veq {a.lean} {k.lean} then {v.lean} else {term})'
                kinds.add(v.kind)
            return V(term, kinds.pop() if len(kinds) == 1 else 'val')
        if m == 'to01' and not e.args:
            a = self.expr(f.value, env, out)
            if a.kind != 'bits':
                raise Untranslatable('.to01() of a value that is not a bitarray')
            return a
        if m == 'hex' and not e.args:
            a = self.expr(f.value, env, out)
            if a.kind != 'bytes':
                raise Untranslatable('.hex() of a value that is not bytes')
            return V(f'(Rd.hex {a.lean})', 'hex')
        raise Untranslatable(f'call {ast.unparse(f)[:60]}')

    def construct(self, tname, e, env, out):
        """cls(…) -> Rd.obj "T" [...]; positional arguments are named by __init__"""
        params = self.ctx.tr.init_params(self.ctx.mod, tname)
        kw = []
        if len(e.args) > len(params):
            raise Untranslatable('too many positional arguments')
        for p, a in zip(params, e.args):
            if isinstance(a, ast.Starred):
                raise Untranslatable('*args')
            kw.append((p, self.expr(a, env, out).lean))
        for k in e.keywords:
            if k.arg is None:
                b = env.get(k.value.id) if isinstance(k.value, ast.Name) else None
                if not (isinstance(b, V) and b.kind == 'kwargs'):
                    raise Untranslatable('** of something that is not a literal kwargs dict')
                kw += b.const
            else:
                kw.append((k.arg, self.expr(k.value, env, out).lean))
        if len({k for k, _ in kw}) != len(kw):
            raise Untranslatable('duplicate keyword')
        return V(f'(Rd.obj {lstr(tname)} [' + ', '.join(f'({lstr(k)}, {v})' for k, v in kw) + '])', 'obj')

    # ------------------------------------------------------------------ conditions
    def cond(self, e, env, out):
        """-> (None, Lean Bool term)"""
        if isinstance(e, ast.UnaryOp) and isinstance(e.op, ast.Not):
            _, c = self.cond(e.operand, env, out)
            return None, f'(!{c})'
        if isinstance(e, ast.BoolOp):
            parts = []
            for i, v in enumerate(e.values):
                o = []
                _, c = self.cond(v, env, o)
                if o and i > 0:
                    raise Untranslatable('a read in a short-circuited operand')
                out += o
                parts.append(c)
            return None, '(' + (' && ' if isinstance(e.op, ast.And) else ' || ').join(parts) + ')'
        if isinstance(e, ast.Compare) and len(e.ops) == 1:
            op, l, r = e.ops[0], e.left, e.comparators[0]
            # bin(x)[-1] == '1'
            if (isinstance(op, ast.Eq) and isinstance(l, ast.Subscript) and isinstance(l.value, ast.Call)
                    and is_name(l.value.func, 'bin') and isinstance(l.slice, ast.UnaryOp) and isinstance(l.slice.op, ast.USub)
                    and isinstance(l.slice.operand, ast.Constant) and l.slice.operand.value == 1
                    and isinstance(r, ast.Constant) and r.value == '1'):
                a = self.expr(l.value.args[0], env, out)
                t = self.ctx.fresh('b')
                out.append(f'let {t} ← Rd.lowBit {a.lean}')
                return None, t
            if (isinstance(op, (ast.In, ast.NotIn)) and isinstance(r, ast.Name) and isinstance(env.get(r.id), V)
                    and env[r.id].kind == 'cdict'):
                a = self.expr(l, env, out)
                c = '(' + ' || '.join(f'Rd.veq {a.lean} {k.lean}' for k, _ in env[r.id].const) + ')' if env[r.id].const else 'false'
                return None, c if isinstance(op, ast.In) else f'(!{c})'
            if isinstance(op, (ast.In, ast.NotIn)) and isinstance(r, (ast.Tuple, ast.List)):
                a = self.expr(l, env, out)
                alts = [self.expr(x, env, out).lean for x in r.elts]
                c = '(' + ' || '.join(f'Rd.veq {a.lean} {x}' for x in alts) + ')'
                return None, c if isinstance(op, ast.In) else f'(!{c})'
            a = self.expr(l, env, out)
            b = self.expr(r, env, out)
            if isinstance(op, (ast.Eq, ast.Is)):
                return None, f'(Rd.veq {a.lean} {b.lean})'
            if isinstance(op, (ast.NotEq, ast.IsNot)):
                return None, f'(!Rd.veq {a.lean} {b.lean})'
            t = self.ctx.fresh('b')
            if isinstance(op, ast.LtE):
                out.append(f'let {t} ← Rd.vle {a.lean} {b.lean}')
            elif isinstance(op, ast.Lt):
                out.append(f'let {t} ← Rd.vlt {a.lean} {b.lean}')
            elif isinstance(op, ast.GtE):
                out.append(f'let {t} ← Rd.vle {b.lean} {a.lean}')
            elif isinstance(op, ast.Gt):
                out.append(f'let {t} ← Rd.vlt {b.lean} {a.lean}')
            else:
                raise Untranslatable('comparison operator')
            return None, t
        if (isinstance(e, ast.Call) and isinstance(e.func, ast.Attribute) and e.func.attr == 'is_special'
                and isinstance(e.func.value, ast.Name) and isinstance(env.get(e.func.value.id), S)):
            return None, env[e.func.value.id].sp
        a = self.expr(e, env, out)
        return None, f'(Rd.truthy {a.lean})'

    # ------------------------------------------------------------------ statements
    def block(self, stmts, env, ret_slice, indent):
        """Lean term (a `do` block body as lines) for statements that end by returning / raising"""
        out = []
        env = dict(env)
        pad = '  ' * indent
        i = 0
        while i < len(stmts):
            s = stmts[i]
            rest = stmts[i + 1:]
            i += 1
            if isinstance(s, (ast.Import, ast.ImportFrom, ast.Pass)):
                continue
            if isinstance(s, ast.Expr) and isinstance(s.value, ast.Constant):
                continue
            if isinstance(s, ast.Expr):
                self.expr(s.value, env, out)
                continue
            if isinstance(s, ast.Raise):
                out.append('none')
                return self.fmt(out, pad)
            if isinstance(s, ast.Assert):
                _, c = self.cond(s.test, env, out)
                out.append(f'if !{c} then none else')
                continue
            if isinstance(s, ast.Return):
                if s.value is None:
                    v = V('Val.unit')
                elif (isinstance(s.value, ast.Call) and is_name(s.value.func, 'cls') and len(s.value.args) == 1
                      and not s.value.keywords and isinstance(s.value.args[0], ast.Name)
                      and isinstance(env.get(s.value.args[0].id), S)):
                    # cls(slice): the parse is in __init__
                    init = self.ctx.tr.init_fn(self.ctx.mod, self.ctx.cls)
                    ps = [a.arg for a in init.args.args]
                    if len(ps) != 2:
                        raise Untranslatable('__init__(self, slice) expected')
                    ienv = dict(env)
                    ienv[ps[1]] = env[s.value.args[0].id]
                    ienv['self'] = []
                    out.append('\0' + self.block(list(init.body) + [ast.Return(value=ast.Name(id='self', ctx=ast.Load()))],
                                                 ienv, ret_slice, indent))
                    return self.fmt(out, pad)
                elif is_name(s.value, 'self') and 'self' in env:
                    v = V(f'(Rd.obj {lstr(self.ctx.cls)} [' + ', '.join(f'({lstr(k)}, {x.lean})' for k, x in env['self']) + '])')
                else:
                    v = self.expr(s.value, env, out)
                out.append(f'pure ({v.lean}, {env[ret_slice].var})')
                return self.fmt(out, pad)
            if isinstance(s, ast.If):
                _, c = self.cond(s.test, env, out)
                body_raises = len(s.body) == 1 and isinstance(s.body[0], ast.Raise)
                if body_raises and not s.orelse:
                    out.append(f'if {c} then none else')
                    continue
                if rest and self.join_if(s, c, env, out):
                    continue
                a = self.block(list(s.body) + rest, env, ret_slice, indent + 1)
                b = self.block(list(s.orelse) + rest, env, ret_slice, indent + 1)
                out.append(f'\0{pad}if {c} then do\n{a}\n{pad}else do\n{b}')
                return self.fmt(out, pad)
            if isinstance(s, ast.AugAssign) and isinstance(s.op, ast.Add) and isinstance(s.target, ast.Name):
                v = self.expr(ast.BinOp(left=ast.Name(id=s.target.id, ctx=ast.Load()), op=ast.Add(), right=s.value), env, out)
                env[s.target.id] = v
                continue
            if isinstance(s, ast.Assign) and len(s.targets) == 1:
                t = s.targets[0]
                if isinstance(t, ast.Name):
                    self.assign(t.id, s.value, env, out)
                    continue
                if isinstance(t, ast.Attribute) and is_name(t.value, 'self') and 'self' in env:
                    v = self.expr(s.value, env, out)
                    if any(k == t.attr for k, _ in env['self']):
                        env['self'] = [(k, v if k == t.attr else x) for k, x in env['self']]
                    else:
                        env['self'] = env['self'] + [(t.attr, v)]
                    continue
                if (isinstance(t, ast.Subscript) and isinstance(t.value, ast.Name) and isinstance(env.get(t.value.id), V)
                        and env[t.value.id].kind == 'kwargs' and isinstance(t.slice, ast.Constant) and isinstance(t.slice.value, str)):
                    v = self.expr(s.value, env, out)
                    env[t.value.id] = V(None, 'kwargs', env[t.value.id].const + [(t.slice.value, v.lean)])
                    continue
                if (isinstance(t, ast.Tuple) and isinstance(s.value, ast.ListComp) and len(s.value.generators) == 1
                        and is_name(s.value.generators[0].target, '_') and not s.value.generators[0].ifs
                        and isinstance(s.value.generators[0].iter, ast.Call) and is_name(s.value.generators[0].iter.func, 'range')
                        and len(s.value.generators[0].iter.args) == 1
                        and const_int(s.value.generators[0].iter.args[0], env) == len(t.elts)):
                    for el in t.elts:
                        self.stmt_assign_target(el, s.value.elt, env, out)
                    continue
            raise Untranslatable(f'statement {ast.unparse(s)[:70]}')
        raise Untranslatable('method may fall off its end')

    # ------------------------------------------------------------------ joined `if`
    def simple_stmts(self, stmts):
        """only assignments / expression statements / nested such `if`s: control always reaches the statement after the `if`"""
        for x in stmts:
            if isinstance(x, (ast.Assign, ast.AugAssign, ast.Pass)) or (isinstance(x, ast.Expr)):
                continue
            if isinstance(x, ast.If) and self.simple_stmts(x.body) and self.simple_stmts(x.orelse):
                continue
            return False
        return True

    def run_simple(self, stmts, env, out):
        """execute simple statements on `env` (mutated), Lean lines to `out`"""
        for x in stmts:
            if isinstance(x, ast.Pass) or (isinstance(x, ast.Expr) and isinstance(x.value, ast.Constant)):
                continue
            if isinstance(x, ast.Expr):
                self.expr(x.value, env, out)
            elif isinstance(x, ast.If):
                _, c = self.cond(x.test, env, out)
                if not self.join_if(x, c, env, out):
                    raise Untranslatable('nested if that cannot be joined')
            elif isinstance(x, ast.AugAssign) and isinstance(x.op, ast.Add) and isinstance(x.target, ast.Name):
                env[x.target.id] = self.expr(ast.BinOp(left=ast.Name(id=x.target.id, ctx=ast.Load()), op=ast.Add(), right=x.value), env, out)
            elif isinstance(x, ast.Assign) and len(x.targets) == 1 and isinstance(x.targets[0], ast.Name):
                self.assign(x.targets[0].id, x.value, env, out)
            elif (isinstance(x, ast.Assign) and len(x.targets) == 1 and isinstance(x.targets[0], ast.Attribute)
                  and is_name(x.targets[0].value, 'self') and 'self' in env):
                t = x.targets[0]
                v = self.expr(x.value, env, out)
                if any(k == t.attr for k, _ in env['self']):
                    env['self'] = [(k, v if k == t.attr else y) for k, y in env['self']]
                else:
                    env['self'] = env['self'] + [(t.attr, v)]
            else:
                raise Untranslatable('statement in a joined if')

    def join_if(self, s, c, env, out):
        """`if c: <assignments> [else: <assignments>]` followed by more statements, where both branches bind the same names
        (values only; no new slice, no kwargs entry, no attribute that exists on one side only) -> ONE Lean line
          let (x', y', …, slices…) ← (if c then do … pure (xa, ya, …, slices) else do … pure (xb, yb, …, slices))
        and the statements after the `if` are translated once.  -> True (env, out updated) | False (caller copies the continuation)"""
        if not (self.simple_stmts(s.body) and self.simple_stmts(s.orelse)):
            return False
        ea, eb, oa, ob = dict(env), dict(env), [], []
        n0 = self.ctx.n
        try:
            self.run_simple(s.body, ea, oa)
            self.run_simple(s.orelse, eb, ob)
        except Untranslatable:
            self.ctx.n = n0
            return False
        names = []          # (kind, name[, attr])
        for k in list(ea) + [k for k in eb if k not in ea]:
            a, b, o = ea.get(k), eb.get(k), env.get(k)
            if k == 'self':
                if [x for x, _ in a] != [x for x, _ in b]:
                    self.ctx.n = n0
                    return False
                for (attr, va), (_, vb) in zip(a, b):
                    if va.lean != vb.lean:
                        names.append(('self', attr))
                continue
            if isinstance(a, S) or isinstance(b, S):
                if a is not b:                      # a slice variable bound on one side only / differently
                    self.ctx.n = n0
                    return False
                continue
            if a is b:
                continue
            if not (isinstance(a, V) and isinstance(b, V)) or a.kind in ('kwargs', 'cdict') or b.kind in ('kwargs', 'cdict'):
                if isinstance(a, V) and isinstance(b, V) and a.kind == b.kind and a.const == b.const and a.lean == b.lean:
                    continue
                self.ctx.n = n0
                return False
            if a.lean != b.lean or a.const != b.const:
                names.append(('var', k))
        sl = []
        for b in env.values():
            # only the slices a branch reads from (rebinds) are threaded through the conditional
            if isinstance(b, S) and b.var not in sl and any(
                    re.search(r'(let |\(|, )' + re.escape(b.var) + r'\)? (←|:=)', line) for line in oa + ob):
                sl.append(b.var)

        def val(e, item):
            return dict(e['self'])[item[1]] if item[0] == 'self' else e[item[1]]
        fresh = [self.ctx.fresh() for _ in names]
        tup = ', '.join(fresh + sl)
        if not tup:
            return False
        ra = ', '.join([val(ea, i).lean for i in names] + sl)
        rb = ', '.join([val(eb, i).lean for i in names] + sl)

        def blk(o, r):
            if not o:
                return f'pure ({r})'
            return 'do\n' + '\n'.join('      ' + x.replace('\n', '\n    ') for x in o) + f'\n      pure ({r})'
        out.append(f'let ({tup}) ← (if {c} then {blk(oa, ra)}\n    else {blk(ob, rb)})')
        for t, item in zip(fresh, names):
            va, vb = val(ea, item), val(eb, item)
            nv = V(t, va.kind if va.kind == vb.kind else 'val')
            if item[0] == 'self':
                env['self'] = [(k, nv if k == item[1] else y) for k, y in env['self']]
                if not any(k == item[1] for k, _ in env['self']):
                    env['self'] = list(ea['self'])
                    env['self'] = [(k, nv if k == item[1] else y) for k, y in env['self']]
            else:
                env[item[1]] = nv
        # names bound identically on both sides (e.g. a constant assigned before use) keep that binding
        for k in ea:
            if k not in env and k in eb and isinstance(ea[k], V) and not any(i == ('var', k) for i in names):
                env[k] = ea[k]
        return True

    def stmt_assign_target(self, t, value, env, out):
        if isinstance(t, ast.Name):
            return self.assign(t.id, value, env, out)
        if (isinstance(t, ast.Subscript) and isinstance(t.value, ast.Name) and isinstance(env.get(t.value.id), V)
                and env[t.value.id].kind == 'kwargs' and isinstance(t.slice, ast.Constant) and isinstance(t.slice.value, str)):
            v = self.expr(value, env, out)
            env[t.value.id] = V(None, 'kwargs', env[t.value.id].const + [(t.slice.value, v.lean)])
            return
        raise Untranslatable('assignment target')

    def assign(self, name, value, env, out):
        # a new slice: X = S.load_ref().begin_parse() | X = S.copy()
        if isinstance(value, ast.Call) and isinstance(value.func, ast.Attribute):
            if value.func.attr == 'begin_parse':
                s, _ = self.slice_of(value, env, out)
                v = 'sl_' + name
                out.append(f'let {v} := {s.var}')
                env[name] = S(v, s.sp)
                return
            if (value.func.attr == 'copy' and isinstance(value.func.value, ast.Name)
                    and isinstance(env.get(value.func.value.id), S)):
                s = env[value.func.value.id]
                v = 'sl_' + name
                out.append(f'let {v} := {s.var}')
                env[name] = S(v, s.sp)
                return
        k = const_int(value, env)
        v = self.expr(value, env, out)
        if k is not None:
            v = V(v.lean, v.kind, k)
        if v.kind not in ('kwargs', 'cdict') and v.const is None and not re.fullmatch(r'\w+', v.lean or ''):
            t = self.ctx.fresh()
            out.append(f'let {t} := {v.lean}')
            v = V(t, v.kind)
        env[name] = v

    @staticmethod
    def fmt(out, pad):
        return '\n'.join(x[1:] if x.startswith('\0') else pad + x.replace('\n', '\n' + pad) for x in out)


class Translator:
    def __init__(self, repo=REPO):
        self.repo = repo
        self.trees = {}
        self.done = {}

    def module(self, mod):
        if mod not in self.trees:
            self.trees[mod] = ast.parse(open(os.path.join(self.repo, f'pytoniq_core/tlb/{mod}.py')).read())
        return self.trees[mod]

    def classdef(self, mod, name):
        for m in [mod] + [x for x in ('utils', 'account', 'transaction', 'block', 'config') if x != mod]:
            for n in self.module(m).body:
                if isinstance(n, ast.ClassDef) and n.name == name:
                    return n
        raise Untranslatable(f'class {name} not found')

    def method(self, mod, cls, name):
        for n in self.classdef(mod, cls).body:
            if isinstance(n, ast.FunctionDef) and n.name == name:
                return n
        raise Untranslatable(f'{cls}.{name} not found')

    def init_fn(self, mod, cls):
        return self.method(mod, cls, '__init__')

    def init_params(self, mod, cls):
        f = self.init_fn(mod, cls)
        if f.args.vararg or f.args.kwonlyargs:
            raise Untranslatable('__init__ signature')
        return [a.arg for a in f.args.args][1:]

    def translate(self, mod, cls):
        fn = self.method(mod, cls, 'deserialize')
        if not any(isinstance(d, ast.Name) and d.id == 'classmethod' for d in fn.decorator_list):
            raise Untranslatable('deserialize is not a classmethod')
        a = fn.args
        if a.vararg or a.kwarg or a.kwonlyargs or a.defaults or len(a.args) < 2 or a.args[0].arg != 'cls':
            raise Untranslatable('deserialize signature')
        sl = a.args[1].arg
        extra = [x.arg for x in a.args[2:]]
        ctx = Ctx(self, cls, mod)
        env = {sl: S(sl, 'sp')}
        for x in extra:
            env[x] = V(x, 'val')
        body = Fn(ctx).block(list(fn.body), env, sl, 1)
        sig = f'def {cls} (sp : Bool) ({sl} : Frag)' + ''.join(f' ({x} : Val)' for x in extra) + ' : Rd.R := do'
        return sig + '\n' + body + '\n', dict(extra=extra, calls=sorted(ctx.calls), slice=sl)


HEADER = '''/- GENERATED from pytoniq_core/tlb/*.py (the `deserialize` classmethods) by harness/translate/tlbparsers.py; do not edit.
   One reader per class; `none` = the parser raises.  Meaning of the primitives: TonVerif/Model/TlbRd.lean. -/
import TonVerif.Model.TlbRd
set_option linter.unusedVariables false
namespace TonVerif.Tlb.Src
open TonVerif TonVerif.Tlb
'''


def sections(text):
    return {m.group(1): m.group(2) for m in re.finditer(r'-- BEGIN (\w+)\n(.*?)-- END \1\n', text, re.S)}


def generate(repo=REPO, old_text=''):
    """-> (lean text, {class: {'status': 'ok'|'lost', …}})"""
    tr = Translator(repo)
    old = sections(old_text)
    out = [HEADER]
    info = {}
    table = []
    for mod, cls in CLASSES:
        try:
            text, meta = tr.translate(mod, cls)
            tr.done[cls] = meta
            info[cls] = dict(status='ok', calls=meta['calls'])
        except (Untranslatable, SyntaxError, FileNotFoundError) as ex:
            info[cls] = dict(status='lost', reason=f'{type(ex).__name__}: {ex}')
            if cls not in old:
                continue            # never translated: no section, dependants are lost too
            text = old[cls]
            m = re.match(r'def \w+ \(sp : Bool\) \(\w+ : Frag\)((?: \(\w+ : Val\))*)', text)
            tr.done[cls] = dict(extra=re.findall(r'\((\w+) : Val\)', m.group(1)) if m else [], calls=[], slice='')
        out.append(f'-- BEGIN {cls}\n{text}-- END {cls}\n')
        if not tr.done[cls]['extra']:
            table.append(cls)
    out.append('/-- the readers with the plain signature, by class name (driver op `tlbsrc`) -/')
    out.append('def readers : List (String × (Bool → Frag → Rd.R)) := [\n  '
               + ',\n  '.join(f'("{c}", {c})' for c in table) + ']\n')
    out.append('end TonVerif.Tlb.Src')
    return '\n'.join(out) + '\n', info


_cache = {}


def regenerate():
    try:
        old = open(GEN).read()
    except FileNotFoundError:
        old = ''
    text, info = generate(REPO, old)
    changed = write_if_changed(GEN, text)
    _cache['info'] = info
    return changed, info


def class_tie(cls):
    """translator entry for one class (core.py reports an exception as tie `lost`)"""
    def fn():
        if 'info' not in _cache:
            regenerate()
        i = _cache['info'].get(cls, dict(status='lost', reason='not in CLASSES'))
        if i['status'] != 'ok':
            raise Untranslatable(i['reason'])
        return False, i
    return fn


if __name__ == '__main__':
    import sys
    ch, info = regenerate()
    for k, v in info.items():
        print(k, v['status'], v.get('reason', ''))
    print('changed' if ch else 'unchanged')
