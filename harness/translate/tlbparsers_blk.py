"""Regenerates lean/TonVerif/Generated/TlbParsersBlk.lean from the `deserialize` classmethods of pytoniq_core/tlb/account.py,
tlb/block.py and tlb/config.py that the first two parts (tlbparsers.py, tlbparsers_tx.py) leave out — property C16, third part of
the source tie.

Same symbolic execution, same Lean shape (`SrcBlk.<Class> (sp : Bool) (slice : Frag) : Rd.R`); this module subclasses the classes of
tlbparsers_tx.py and only adds:

  calls       a class already regenerated AND proved by an earlier part is called there: `Src.<Class>` (Generated/TlbParsers.lean) /
              `SrcTx.<Class>` (Generated/TlbParsersTx.lean); `Transaction` is called with the budget of the spec's `transaction` (3)
  reads       S.load_dict(N, value_deserializer=T.deserialize)      -> Rd.loadDict N (T false) S         (T a translated class)
              S.load_hashmap(N, value_deserializer=T.deserialize)   -> Rd.loadHashmap N (T false) sp S   (inline `Hashmap N X`)
              S.load_hashmap_aug_e(N, x_deserializer=X, y_deserializer=Y) (keywords or positions; X, Y as above; S a slice variable
                   or <S'.load_ref().begin_parse()>)                -> Rd.loadHashmapAugE N X Y sp S     (`(dict, extras)` tuple)
              S.load_hashmap_aug(N, x_deserializer=X, y_deserializer=Y) -> Rd.loadHashmapAug N X Y sp S  (inline `HashmapAug N X Y`)
              S.load_dict(N)                                        -> Rd.loadDictRaw N S   (values = raw Slices, presence only)
              <S.load_ref().begin_parse()>.load_hashmap(N, key_deserializer=lambda src: Builder().store_bits(src).to_slice().load_int(N),
                   value_deserializer=lambda src: src.load_ref().begin_parse())
                                                                    -> Rd.loadHashmapS N Rd.refSlice (signed keys, Slice values)
              MerkleUpdate.deserialize(S.load_ref(), T.deserialize)  (tlb/utils.py, text PINNED) -> the reference is consumed,
                   Rd.merkleUpdateOrd: `None` for an ordinary cell; exotic cells are outside the model (refused)
              deserialize_shard_hashes(S)   (tlb/utils.py; its text and BinTree.deserialize are PINNED: a hand model)
                                                                    -> Rd.loadShardHashes ShardDescr S
  returns     `return S.load_hashmap_aug_e(…)` : the parser returns the tuple itself (ShardAccounts, OldMcBlocksInfo)
  presence    the constructor argument `shard_fees` of `McBlockExtra(…)` (`load_maybe_ref()`: the ROOT CELL of the ShardFees dictionary, which
              the parser does not walk) is recorded as `Rd.presence` = None / "a cell" (declared interface)
  erased      the keyword argument `cell=` of `ShardAccount(…)` (a copy of the slice being parsed: bookkeeping, no schema field) is
              evaluated but not made part of the returned object (declared interface, as for `Transaction(cell=…)`).

Everything else (joined `if`, constant tables, `[T.deserialize(r) for _ in range(4)]`, `is_special()`, …) is the subset of the first
two parts.
"""
import ast
import copy
import os

from . import tlbparsers as TP
from . import tlbparsers_tx as TX
from .tlbparsers import V, S, Ctx, Untranslatable, const_int
from .crc import write_if_changed
from ..paths import REPO, LEAN

GEN = os.path.join(LEAN, 'TonVerif/Generated/TlbParsersBlk.lean')

# classes of the earlier parts that have a theorem there: class -> Lean head
BASE = {
    'HashUpdate': 'Src.HashUpdate', 'StorageInfo': 'Src.StorageInfo', 'AccountState': 'Src.AccountState',
    'FutureSplitMerge': 'Src.FutureSplitMerge', 'ValidatorDescr': 'Src.ValidatorDescr', 'ShardIdent': 'Src.ShardIdent',
    'BlkMasterInfo': 'Src.BlkMasterInfo', 'ExtBlkRef': 'Src.ExtBlkRef', 'ValidatorInfo': 'Src.ValidatorInfo',
    'CreatorStats': 'Src.CreatorStats', 'KeyExtBlkRef': 'Src.KeyExtBlkRef', 'KeyMaxLt': 'Src.KeyMaxLt',
    'CurrencyCollection': 'SrcTx.CurrencyCollection', 'ExtraCurrencyCollection': 'SrcTx.ExtraCurrencyCollection',
    'ImportFees': 'SrcTx.ImportFees', 'BlockInfo': 'Src.BlockInfo',
}

# (python file, class) in dependency order
CLASSES = [
    ('block', 'DepthBalanceInfo'), ('block', 'ValueFlow'), ('block', 'ShardDescr'),
    ('account', 'AccountStorage'), ('account', 'Account'), ('account', 'ShardAccount'),
    ('config', 'ValidatorSet'),
    ('block', 'ShardAccounts'), ('block', 'OldMcBlocksInfo'), ('block', 'BlockCreateStats'),
    ('block', 'ConfigParams'), ('block', 'McStateExtra'), ('block', 'ShardStateUnsplit'),
    ('block', 'McBlockExtra'), ('block', 'ShardState'),
    ('account', 'AccountBlock'), ('block', 'BlockExtra'), ('block', 'Block'),
]

ERASED_KW = {('ShardAccount', 'cell')}
# constructor arguments the parser keeps as an unparsed cell where the schema has a structured value: recorded as None / "a cell"
PRESENCE_KW = {('McBlockExtra', 'shard_fees')}

# hand-modelled helper functions: their source text must be exactly this (ast.unparse), else the classes that call them are `lost`
PINNED = {
    ('utils', None, 'deserialize_shard_hashes'):
        "def deserialize_shard_hashes(cell_slice: Slice):\n    from .block import BinTree, ShardDescr\n"
        "    shard_hashes = cell_slice.load_dict(32, value_deserializer=lambda src: BinTree.deserialize(src.load_ref().begin_parse()))\n"
        "    if shard_hashes:\n        for k in shard_hashes:\n            for i in range(len(shard_hashes[k].list)):\n"
        "                if not shard_hashes[k].list[i].is_special():\n"
        "                    shard_hashes[k].list[i] = ShardDescr.deserialize(shard_hashes[k].list[i])\n"
        "                else:\n                    shard_hashes[k].list[i] = None\n    return shard_hashes",
    ('block', 'BinTree', 'deserialize'):
        "@classmethod\ndef deserialize(cls, cell_slice: Slice):\n    if cell_slice.is_special():\n        return cls([cell_slice])\n"
        "    if cell_slice.load_bit():\n        return cls(cls.deserialize(cell_slice.load_ref().begin_parse()).list + "
        "cls.deserialize(cell_slice.load_ref().begin_parse()).list)\n    else:\n        return cls([cell_slice])",
    ('block', 'BinTree', '__init__'): "def __init__(self, list_: list):\n    self.list = list_",
}
PINNED_MERKLE = {
    ('utils', 'MerkleUpdate', 'deserialize'):
        "@classmethod\ndef deserialize(cls, cell: Cell, deserializer: typing.Callable) -> typing.Optional['MerkleUpdate']:\n"
        "    if cell.type_ != CellTypes.merkle_update:\n        return None\n    cell_slice = cell.begin_parse()\n"
        "    tag = cell_slice.load_bytes(1)[:1]\n    old_hash = cell_slice.load_bytes(32)\n    new_hash = cell_slice.load_bytes(32)\n"
        "    old = deserializer(cell_slice.load_ref().begin_parse())\n    new = deserializer(cell_slice.load_ref().begin_parse())\n"
        "    return cls(cell, old_hash, new_hash, old, new)",
}
KEY_SIGNED = 'lambda src: Builder().store_bits(src).to_slice().load_int({n})'
VAL_REFSLICE = 'lambda src: src.load_ref().begin_parse()'


def check_pinned(tr, table=None):
    for (mod, cls, name), text in (PINNED if table is None else table).items():
        tree = tr.module(mod)
        body = tree.body
        if cls is not None:
            body = [n for n in tree.body if isinstance(n, ast.ClassDef) and n.name == cls]
            body = body[0].body if body else []
        fn = [n for n in body if isinstance(n, ast.FunctionDef) and n.name == name]
        if len(fn) != 1:
            raise Untranslatable(f'{cls or mod}.{name} not found')
        fn = copy.deepcopy(fn[0])
        fn.body = [x for x in fn.body if not (isinstance(x, ast.Expr) and isinstance(x.value, ast.Constant))]
        if ast.unparse(fn) != text:
            raise Untranslatable(f'{cls or mod}.{name} is hand-modelled and its text changed')


class FnBlk(TX.FnTx):
    def deser_target(self, tname):
        meta = self.ctx.tr.done[tname]
        if meta.get('head'):
            return meta['head']
        return tname

    def value_reader(self, lam, env):
        """value_deserializer=<T.deserialize | lambda src: one read | local def> -> Lean term : Frag → Rd.R"""
        if (isinstance(lam, ast.Attribute) and lam.attr == 'deserialize' and isinstance(lam.value, ast.Name)
                and lam.value.id in self.ctx.tr.done and not self.ctx.tr.done[lam.value.id]['extra']):
            self.note_call(lam.value.id)
            return f'({self.deser_target(lam.value.id)} false)'
        if isinstance(lam, ast.Name) and isinstance(env.get(lam.id), ast.Lambda):
            lam = env[lam.id]
        if not (isinstance(lam, ast.Lambda) and len(lam.args.args) == 1 and not lam.args.defaults
                and not lam.args.vararg and not lam.args.kwarg and not lam.args.kwonlyargs):
            raise Untranslatable('value_deserializer is not T.deserialize / a one-argument lambda / a local function')
        rt = self.reader_term(lam.body, {lam.args.args[0].arg: S('d_src', 'false')}, allow_sp=False)
        if rt is None:
            raise Untranslatable('value_deserializer is not a single read of its argument')
        return rt[0]

    def call(self, e, env, out):
        ctx = self.ctx
        f = e.func
        if (isinstance(f, ast.Attribute) and f.attr == 'deserialize' and isinstance(f.value, ast.Name) and f.value.id == 'MerkleUpdate'
                and len(e.args) == 2 and not e.keywords and isinstance(e.args[1], ast.Attribute) and e.args[1].attr == 'deserialize'):
            check_pinned(ctx.tr, PINNED_MERKLE)
            c = self.cell_of(e.args[0], env, out)
            t = ctx.fresh()
            out.append(f'let {t} ← Rd.merkleUpdateOrd {c.var}')
            return V(t, 'val')
        if isinstance(f, ast.Name) and f.id == '__presence__':
            return V(f'(Rd.presence {self.expr(e.args[0], env, out).lean})', 'val')
        if isinstance(f, ast.Name) and f.id == 'deserialize_shard_hashes' and len(e.args) == 1 and not e.keywords \
                and isinstance(e.args[0], ast.Name) and isinstance(env.get(e.args[0].id), S):
            check_pinned(ctx.tr)
            if 'ShardDescr' not in ctx.tr.done:
                raise Untranslatable('deserialize_shard_hashes needs ShardDescr')
            self.note_call('ShardDescr')
            s = env[e.args[0].id]
            t = ctx.fresh()
            out.append(f'let ({t}, {s.var}) ← Rd.loadShardHashes {self.deser_target("ShardDescr")} {s.var}')
            return V(t, 'val')
        if (isinstance(f, ast.Attribute) and f.attr == 'load_hashmap' and isinstance(f.value, ast.Call)
                and isinstance(f.value.func, ast.Attribute) and f.value.func.attr == 'begin_parse'
                and len(e.args) == 1 and const_int(e.args[0], env) is not None and len(e.keywords) == 2
                and {k.arg for k in e.keywords} == {'key_deserializer', 'value_deserializer'}):
            n = const_int(e.args[0], env)
            kw = {k.arg: ast.unparse(k.value) for k in e.keywords}
            if kw['key_deserializer'] != KEY_SIGNED.format(n=n) or kw['value_deserializer'] != VAL_REFSLICE:
                raise Untranslatable('load_hashmap with a key_deserializer: only the signed-key / Slice-value form of ConfigParams')
            s, _ = self.slice_of(f.value, env, out)
            t = ctx.fresh()
            out.append(f'let ({t}, _) ← Rd.loadHashmapS {n} Rd.refSlice {s.sp} {s.var}')
            return V(t, 'dict')
        if isinstance(f, ast.Attribute) and isinstance(f.value, ast.Name) and isinstance(env.get(f.value.id), S) \
                and f.attr in ('load_dict', 'load_hashmap'):
            s = env[f.value.id]
            if len(e.args) != 1 or const_int(e.args[0], env) is None:
                raise Untranslatable(f'{f.attr}(N, …) expected')
            n = const_int(e.args[0], env)
            t = ctx.fresh()
            if not e.keywords and f.attr == 'load_dict':
                out.append(f'let ({t}, {s.var}) ← Rd.loadDictRaw {n} {s.var}')
                return V(t, 'dict')
            if len(e.keywords) != 1 or e.keywords[0].arg != 'value_deserializer':
                raise Untranslatable(f'{f.attr}(N, value_deserializer=…) expected')
            rd = self.value_reader(e.keywords[0].value, env)
            if f.attr == 'load_dict':
                out.append(f'let ({t}, {s.var}) ← Rd.loadDict {n} {rd} {s.var}')
            else:
                out.append(f'let ({t}, {s.var}) ← Rd.loadHashmap {n} {rd} {s.sp} {s.var}')
            return V(t, 'dict')
        if isinstance(f, ast.Attribute) and f.attr in ('load_hashmap_aug_e', 'load_hashmap_aug'):
            # the receiver: a slice variable, or <S.load_ref().begin_parse()> (a slice of its own; what the walk leaves is dropped)
            if isinstance(f.value, ast.Name) and isinstance(env.get(f.value.id), S):
                s, keep = env[f.value.id], True
            elif isinstance(f.value, ast.Call) and isinstance(f.value.func, ast.Attribute) and f.value.func.attr == 'begin_parse':
                s, keep = self.slice_of(f.value, env, out)[0], False
            else:
                raise Untranslatable(f'{f.attr}: receiver')
            names = ['key_length', 'x_deserializer', 'y_deserializer']
            args = dict(zip(names, e.args))
            for k in e.keywords:
                if k.arg not in names or k.arg in args:
                    raise Untranslatable(f'{f.attr} arguments')
                args[k.arg] = k.value
            if set(args) != set(names) or const_int(args['key_length'], env) is None:
                raise Untranslatable(f'{f.attr}(N, x_deserializer, y_deserializer) expected')
            x = self.value_reader(args['x_deserializer'], env)
            y = self.value_reader(args['y_deserializer'], env)
            t = ctx.fresh()
            prim = 'Rd.loadHashmapAugE' if f.attr == 'load_hashmap_aug_e' else 'Rd.loadHashmapAug'
            out.append(f'let ({t}, {s.var if keep else "_"}) ← {prim} {const_int(args["key_length"], env)} {x} {y} {s.sp} {s.var}')
            return V(t, 'val')
        return super().call(e, env, out)

    def construct(self, tname, e, env, out):
        params = self.ctx.tr.init_params(self.ctx.mod, tname)
        if any((tname, p) in PRESENCE_KW for p in params):
            e = copy.copy(e)
            wrap = lambda a: ast.Call(func=ast.Name(id='__presence__', ctx=ast.Load()), args=[a], keywords=[])
            e.args = [wrap(a) if (tname, p) in PRESENCE_KW else a for p, a in zip(params, e.args)]
            e.keywords = [ast.keyword(arg=k.arg, value=wrap(k.value)) if (tname, k.arg) in PRESENCE_KW else k for k in e.keywords]
        e2 = e
        if any((tname, k.arg) in ERASED_KW for k in e.keywords):
            e2 = copy.copy(e)
            e2.keywords = []
            for k in e.keywords:
                if (tname, k.arg) in ERASED_KW:
                    self.expr(k.value, env, out)          # evaluated (must be translatable), not part of the object
                else:
                    e2.keywords.append(k)
        return TP.Fn.construct(self, tname, e2, env, out)


def hoist_defs(stmts, lambdas):
    """`def f(src): return e` anywhere in the method (also inside an `if` branch) -> the name f bound to `lambda src: e` for the whole
    method; the callbacks capture nothing (checked where they are used: one read of their own argument), names must be unique"""
    out = []
    for s in stmts:
        if isinstance(s, ast.FunctionDef):
            stm = [x for x in s.body if not (isinstance(x, ast.Expr) and isinstance(x.value, ast.Constant))]
            if len(stm) != 1 or not isinstance(stm[0], ast.Return) or stm[0].value is None or s.decorator_list or s.name in lambdas:
                raise Untranslatable(f'nested function {s.name} is not a unique `return <expression>`')
            lambdas[s.name] = ast.Lambda(args=s.args, body=stm[0].value)
        elif isinstance(s, ast.If):
            s2 = copy.copy(s)
            s2.body = hoist_defs(s.body, lambdas) or [ast.Pass()]
            s2.orelse = hoist_defs(s.orelse, lambdas)
            out.append(s2)
        else:
            out.append(s)
    return out


class TranslatorBlk(TX.TranslatorTx):
    def translate(self, mod, cls):
        fn = self.method(mod, cls, 'deserialize')
        if not any(isinstance(d, ast.Name) and d.id == 'classmethod' for d in fn.decorator_list):
            raise Untranslatable('deserialize is not a classmethod')
        a = fn.args
        if a.vararg or a.kwarg or a.kwonlyargs or a.defaults or len(a.args) != 2 or a.args[0].arg != 'cls':
            raise Untranslatable('deserialize signature')
        sl = a.args[1].arg
        ctx = Ctx(self, cls, mod)
        env = {sl: S(sl, 'sp')}
        lambdas = {}
        body = hoist_defs(list(fn.body), lambdas)
        for k, lam in lambdas.items():
            if any(isinstance(n, ast.Name) and n.id == k and isinstance(n.ctx, ast.Store) for n in ast.walk(fn)):
                raise Untranslatable(f'the name of the nested function {k} is also assigned')
            env[k] = lam
        text = FnBlk(ctx).block(body, env, sl, 1)
        sig = f'def {cls} (sp : Bool) ({sl} : Frag) : Rd.R := do'
        return sig + '\n' + text + '\n', dict(extra=[], calls=sorted(ctx.calls), slice=sl)


HEADER = '''/- GENERATED from pytoniq_core/tlb/account.py, tlb/block.py, tlb/config.py (the `deserialize` classmethods) by
   harness/translate/tlbparsers_blk.py; do not edit.  One reader per class; `none` = the parser raises.
   Meaning of the primitives: TonVerif/Model/TlbRd.lean, TlbRdTx.lean, TlbRdBlk.lean. -/
import TonVerif.Model.TlbRdBlk
import TonVerif.Generated.TlbParsersTx
set_option linter.unusedVariables false
namespace TonVerif.Tlb.SrcBlk
open TonVerif TonVerif.Tlb
'''


def generate(repo=REPO, old_text=''):
    """-> (lean text, {class: {'status': 'ok'|'lost', …}})"""
    tr = TranslatorBlk(repo)
    for cls, head in BASE.items():
        tr.done[cls] = dict(extra=[], calls=[], slice='', head=head)
    tr.done['Transaction'] = dict(extra=[], calls=[], slice='', head='(SrcTx.Transaction 3)')
    tr.done['InMsg'] = dict(extra=[], calls=[], slice='', head='(SrcTx.InMsg 3)')
    tr.done['OutMsg'] = dict(extra=[], calls=[], slice='', head='(SrcTx.OutMsg 3)')
    old = TP.sections(old_text)
    out = [HEADER]
    info = {}
    table = []
    for mod, cls in CLASSES:
        try:
            text, meta = tr.translate(mod, cls)
            tr.done[cls] = meta
            info[cls] = dict(status='ok', calls=meta['calls'])
        except (Untranslatable, SyntaxError, FileNotFoundError) as ex:
            info[cls] = dict(status='lost', reason=f'{type(ex).__name__}: {ex}')
            if cls not in old:
                continue
            text = old[cls]
            tr.done[cls] = dict(extra=[], calls=[], slice='')
        out.append(f'-- BEGIN {cls}\n{text}-- END {cls}\n')
        table.append(cls)
    out.append('/-- the readers by class name (driver op `tlbsrcblk`) -/')
    out.append('def readers : List (String × (Bool → Frag → Rd.R)) := [\n  ' + ',\n  '.join(f'("{c}", {c})' for c in table) + ']\n')
    out.append('end TonVerif.Tlb.SrcBlk')
    return '\n'.join(out) + '\n', info


_cache = {}


def regenerate():
    try:
        old = open(GEN).read()
    except FileNotFoundError:
        old = ''
    text, info = generate(REPO, old)
    changed = write_if_changed(GEN, text)
    _cache['info'] = info
    return changed, info


def class_tie(cls):
    def fn():
        if 'info' not in _cache:
            regenerate()
        i = _cache['info'].get(cls, dict(status='lost', reason='not in CLASSES'))
        if i['status'] != 'ok':
            raise Untranslatable(i['reason'])
        return False, i
    return fn


if __name__ == '__main__':
    ch, info = regenerate()
    for k, v in info.items():
        print(k, v['status'], v.get('reason', ''))
    print('changed' if ch else 'unchanged')
