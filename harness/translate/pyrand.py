"""Extension of the glue-code translator pyprims.py by what "draw from a random source until a candidate is accepted" functions
need: a RANDOM STREAM as state, `while True` loops as fuelled recursion, Python float arithmetic as a declared interface.
No knowledge of pytoniq: the stream primitive, the float primitives, the module globals and the types of locals that start as an
empty list are DECLARED by the caller (adnlsrc.py) and checked there.  Lean runtime: lean/TonVerif/PyRand.lean.

Every definition of such a program takes   {W} (P : Prims W) (Fl : Py.FloatIf) (rnd : Nat → Bytes) (fuel : Nat)   first.
  rnd   the random source: `rnd k` = the answer of the k-th call of the declared stream primitive (`os.urandom(n)`)
  fuel  the iteration budget of every `while True` loop (`none` = the code raises OR the budget ran out)
A function that (transitively) draws from the stream is STATEFUL: it takes `(rnd_k : Nat)` (index of the next draw) as its LAST
parameter and returns `Option (R × Nat)` (value, index after its last draw).

ADDITIONS to the subset of pyprims.py / pyobj.py
  types       Float (`Fl.T`); W (an element of a `list:W`)
  expressions <stream primitive>          one draw: `(Py.urandom? rnd rnd_k n).bind fun (res, rnd_k) =>` (at most one per statement)
              f(x..) for a STATEFUL function of the file: `(f P Fl rnd fuel x.. rnd_k).bind fun (v, rnd_k) =>`
              a + b, a - b, a * b with a Float operand -> Fl.add / Fl.sub / Fl.mul (an int operand through Fl.ofInt)
              a & b on ints one of which is not known to be non-negative -> Py.intAnd
              math.ceil(a / K) for an int a -> Py.ceilDivI a K;   range(n) for an int n that may be negative -> List.range n.toNat
              NAME for a declared module GLOBAL (bound once, never mutated) -> a parameter `self_<NAME>` (sorted after the arguments)
              ws[i] for ws : list:W (i : Nat -> ws[i]?, i : Int -> Py.getI? ws i)
  statements  NAME = []  for a local with a DECLARED list type;  ws.append(w) on a list:W
              while True: body   -> its own definition `<f>_loop ... (loop_fuel : Nat) <every variable defined before the loop> ...`,
                                    structural recursion on `loop_fuel`; `continue` / falling off the end = the recursive call,
                                    `break` = the statements after the loop (translated at the break site: variables of the
                                    iteration are visible there, as in Python), `return e` inside = the result.
                                    Not inside another loop; variables defined before the loop keep their types.
              for x in range(..): a loop-carried int that becomes a Float in the body is converted before the loop (Fl.ofInt)
"""
import ast

from . import pybytes
from .pyprims import PProgram, PTr, Prim, OPQ, WORDS, MODULE, _match
from .pyobj import NAT, INT, PROP, BOOL, BYTES, NONE, POISON, lname, par, tpar
from .pybytes import indent
from .pyexpr import Untranslatable

FLOAT = 'Float'
WORD = OPQ('W')
ENV_DECL = '{W : Type} (P : Prims W) (Fl : Py.FloatIf) (rnd : Nat → Bytes) (fuel : Nat)'
ENV_ARGS = 'P Fl rnd fuel'
STATE = 'rnd_k'
RESERVED = ('P', 'Fl', 'rnd', 'fuel', 'loop_fuel', STATE)
ATTRS_MARK = '⟪ATTRS⟫'


class RProgram(PProgram):
    """functions as PProgram plus
         stream      ast pattern (source text with one hole `__n__`) of the draw primitive
         globals_    {NAME: type}        module globals read by the functions (checked by the caller: bound once, never mutated)
         local_types {function: {NAME: type}}   type of a local that starts as `[]`
         params      {function: [types]}        declared parameter types (a call site may pass a Nat for an Int)"""

    def __init__(self, functions, opaque, prims, stream, globals_=None, local_types=None, params=None, consts=None, src=''):
        opaque = dict(opaque)
        opaque['W'] = 'W'
        super().__init__({}, functions, opaque, prims, consts=consts, src=src, env_decl=ENV_DECL)
        self.classes[MODULE]['attrs'] = dict(globals_ or {})
        self.stream = ast.parse(stream, mode='eval').body
        self.local_types, self.params = dict(local_types or {}), dict(params or {})
        self._stateful = {}

    def lean_ty(self, t):
        if t == FLOAT:
            return 'Fl.T'
        return super().lean_ty(t)

    def draws(self, node):
        """syntactic: the code draws from the stream (directly or through a function of the file)"""
        for n in ast.walk(node):
            if isinstance(n, ast.Call):
                if _match(self.stream, n, {}):
                    return True
                if isinstance(n.func, ast.Name) and n.func.id in self.functions and self.stateful(n.func.id):
                    return True
        return False

    def stateful(self, name):
        if name not in self._stateful:
            self._stateful[name] = False                 # a recursive function is refused elsewhere
            self._stateful[name] = self.draws(self.functions[name])
        return self._stateful[name]

    def method(self, cls, name, argtypes, ctor=None, ctor_struct=None):
        owner, fn = self.find_method(cls, name)
        want = self.params.get(name) if owner == MODULE else None
        if want is not None:
            if len(want) != len(argtypes) or any(a != w and not (a == NAT and w == INT) for a, w in zip(argtypes, want)):
                raise Untranslatable(f'{name} is called with {argtypes}, declared {want}')
            argtypes = list(want)
        key = (owner, name, tuple(argtypes))
        if key in self.done:
            return self.done[key]
        if (owner, name) in self.stack:
            raise Untranslatable(f'recursive function {owner}.{name}')
        lean = lname(name)
        if owner != MODULE or ctor is not None:
            raise Untranslatable('methods of classes are not part of a stream program')
        if self.names.get(lean, key) != key:
            raise Untranslatable(f'{name} is used with different argument types')
        self.names[lean] = key
        self.stack.append((owner, name))
        try:
            info = RTr(self, cls, owner, fn, list(argtypes), lean).translate()
        finally:
            self.stack.pop()
        self.done[key] = info
        self.defs.append((lean, info['text']))
        return info


class RTr(PTr):
    FORBIDDEN = tuple(t for t in PTr.FORBIDDEN if t not in (ast.While, ast.Break))
    ENV_NAME = ENV_ARGS

    def __init__(self, prog, cls, owner, fn, argtypes, lean, ctor=None, ctor_struct=None):
        super().__init__(prog, cls, owner, fn, argtypes, lean, ctor=ctor, ctor_struct=ctor_struct)
        for n in ast.walk(fn):
            if isinstance(n, ast.Name) and isinstance(n.ctx, ast.Store) and n.id in RESERVED:
                raise Untranslatable(f'local name {n.id}')
        if any(a.arg in RESERVED for a in fn.args.args):
            raise Untranslatable('parameter name')
        self.stateful = prog.stateful(fn.name)
        if self.stateful:
            self.env[STATE] = NAT
        self.wloops = []                 # the `while True` loops around the statement being translated
        self.range_toNat = False

    # ------------------------------------------------------------------ state
    def draw(self, name, term):
        """one stateful evaluation, hoisted before the statement; binds (name, rnd_k)"""
        if not self.stateful:
            raise Untranslatable('a draw in a function that was not recognised as stateful')
        if self.nohoist:
            raise Untranslatable('a draw occurs where Python evaluates it conditionally')
        if any(k == 'bind' and n.endswith(f', {STATE})') for k, n, _ in self.pre):
            raise Untranslatable('two draws in one statement')
        self.pre.append(('bind', f'({name}, {STATE})', term))
        return name

    def assigned(self, stmts):
        out = super().assigned(stmts)
        if self.stateful and STATE not in out and any(self.prog.draws(s) for s in stmts):
            out.append(STATE)
        return out

    # ------------------------------------------------------------------ expressions
    def as_float(self, et):
        v, t = et
        if t == FLOAT:
            return v
        v, t = self.num((v, t))
        if t not in (NAT, INT):
            raise Untranslatable(f'{t} operand of float arithmetic')
        return f'(Fl.ofInt {self.cast((v, t))})'

    def expr(self, e):
        if isinstance(e, ast.Name) and e.id not in self.env and e.id in self.decl['attrs'] and e.id not in self.prog.consts:
            key, _ = self.attr_stored(e.id)
            return self.read(key)
        if isinstance(e, ast.Call):
            cap = {}
            if _match(self.prog.stream, e, cap):
                n, t = self.num(self.expr(cap['n']))
                if t not in (NAT, INT):
                    raise Untranslatable(f'draw size of type {t}')
                return self.draw(self.tmp('draw'), f'Py.urandom? rnd {STATE} {self.cast((n, t))}'), BYTES
        v, t = super().expr(e)
        if t == BOOL and isinstance(e, ast.Call):
            return f'({v} = true)', PROP
        return v, t

    def binop(self, e):
        if isinstance(e.op, (ast.Add, ast.Sub, ast.Mult, ast.BitAnd)):
            snap = (list(self.pre), self.fresh)
            l, r = self.expr(e.left), self.expr(e.right)
            if FLOAT in (l[1], r[1]) and not isinstance(e.op, ast.BitAnd):
                op = {ast.Add: 'add', ast.Sub: 'sub', ast.Mult: 'mul'}[type(e.op)]
                return f'(Fl.{op} {self.as_float(l)} {self.as_float(r)})', FLOAT
            if isinstance(e.op, ast.BitAnd) and INT in (l[1], r[1]) and {l[1], r[1]} <= {NAT, INT, PROP}:
                return f'(Py.intAnd {self.cast(self.num(l))} {self.cast(self.num(r))})', INT
            if FLOAT in (l[1], r[1]):
                raise Untranslatable('float operand')
            self.pre, self.fresh = snap
        return super().binop(e)

    def subscript(self, e):
        if not isinstance(e.slice, ast.Slice):
            snap = (list(self.pre), self.fresh)
            base, bt = self.expr(e.value)
            if bt == WORDS:
                i, it = self.expr(e.slice)
                if it == PROP:
                    i, it = self.num((i, it))
                if it == NAT:
                    return self.hoist(f'{base}[{i}]?', 'item'), WORD
                if it == INT:
                    return self.hoist(f'Py.getI? {base} {i}', 'item'), WORD
                raise Untranslatable(f'index of type {it}')
            self.pre, self.fresh = snap
        return super().subscript(e)

    def index_nat(self, node, what):
        if what == 'range argument' and self.range_toNat:
            v, t = self.expr(node)
            if t == INT:
                return f'({v}).toNat'
        return super().index_nat(node, what)

    def call(self, e, key):
        f = e.func
        if (isinstance(f, ast.Attribute) and f.attr == 'ceil' and isinstance(f.value, ast.Name) and f.value.id == 'math'
                and 'math' not in self.env and len(e.args) == 1 and not e.keywords and isinstance(e.args[0], ast.BinOp)
                and isinstance(e.args[0].op, ast.Div)):
            d = e.args[0].right
            if isinstance(d, ast.Constant) and isinstance(d.value, int) and not isinstance(d.value, bool) and d.value > 0:
                snap = (list(self.pre), self.fresh)
                a, t = self.num(self.expr(e.args[0].left))
                if t == INT:
                    return f'(Py.ceilDivI {a} {d.value})', INT
                self.pre, self.fresh = snap
        return super().call(e, key)

    def method_call(self, e, recv, cls, name, statement=False):
        if cls == MODULE and recv is None and self.prog.stateful(name):
            if statement:
                raise Untranslatable(f'{name}(...) as a statement')
            args = self.call_args(e)
            info = self.prog.method(cls, name, [t for _, t in args])
            actual = []
            it = iter(args)
            for kind, py, ln, t in info['sig']:
                if kind == 'H':
                    actual.append(self.ENV_NAME)
                elif kind == 'attr':
                    key, have = self.attr_stored(py)
                    if have != t:
                        raise Untranslatable(f'global {py} has type {have} here, {name} expects {t}')
                    actual.append(lname(key))
                else:
                    actual.append(par(next(it)[0]))
            actual.append(STATE)
            if info['ret'] is None:
                raise Untranslatable(f'{name} returns no value')
            v = self.draw(self.tmp('call'), f'{info["lean"]} {" ".join(actual)}')
            return ((f'({v} = true)', PROP) if info['ret'] == BOOL else (v, info['ret']))
        return super().method_call(e, recv, cls, name, statement=statement)

    # ------------------------------------------------------------------ statements
    def in_while_only(self):
        return bool(self.loops) and len(self.loops) == len(self.wloops)

    def block(self, stmts, kont):
        if not stmts:
            return kont()
        s, rest = stmts[0], stmts[1:]
        if isinstance(s, ast.While):
            return self.while_(s, rest, kont)
        if isinstance(s, ast.Break):
            if not self.in_while_only():
                raise Untranslatable('break outside a `while True` loop')
            return self.wloops[-1]['brk']()
        if isinstance(s, ast.Return) and self.loops:
            if not self.in_while_only():
                raise Untranslatable('return inside a for loop')
            return self.ret(s)
        if (isinstance(s, ast.Assign) and len(s.targets) == 1 and isinstance(s.targets[0], ast.Name) and isinstance(s.value, ast.List)
                and not s.value.elts):
            t = self.prog.local_types.get(self.fn.name, {}).get(s.targets[0].id)
            if t is not None:
                name = self.key_of_target(s.targets[0])
                return self.let([], name, f'([] : {self.prog.lean_ty(t)})', t, rest, kont)
        return super().block(stmts, kont)

    def call_stmt(self, c, rest, kont):
        f = c.func
        if (isinstance(f, ast.Attribute) and f.attr == 'append' and len(c.args) == 1 and not c.keywords and isinstance(f.value, ast.Name)
                and self.env.get(f.value.id) == WORDS):
            key = self.mutable_target(f.value)
            x, xt = self.expr(c.args[0])
            if xt != WORD:
                raise Untranslatable(f'append of a {xt} to a list of words')
            pre = self.take_pre()
            return self.let(pre, key, f'({lname(key)} ++ [{x}])', WORDS, rest, kont)
        return super().call_stmt(c, rest, kont)

    def ret(self, s):
        if not self.stateful:
            return super().ret(s)
        if s.value is None or (isinstance(s.value, ast.Constant) and s.value.value is None):
            raise Untranslatable('a stateful function without a result value')
        v, t = self.stored(self.expr(s.value))
        pre = self.take_pre()
        if self.ret_type is None:
            self.ret_type = t
        elif self.ret_type != t:
            raise Untranslatable(f'returns of different types ({self.ret_type}, {t})')
        return self.wrap(pre, f'some ({v}, {STATE})')

    def for_(self, s, rest, kont):
        it = s.iter
        one = (isinstance(it, ast.Call) and isinstance(it.func, ast.Name) and it.func.id == 'range' and len(it.args) == 1 and not it.keywords)
        snap = (list(self.pre), self.fresh, dict(self.env), list(self.sig), self.ret_type, len(self.prog.defs))
        self.range_toNat = one
        try:
            return super().for_(s, rest, kont)
        except Untranslatable as ex:
            msg = str(ex)
            if 'changes its type in the loop body' not in msg or not msg.rstrip(')').endswith(f'-> {FLOAT}'):
                raise
            k = msg.split(' ')[0]
        finally:
            self.range_toNat = False
        self.pre, self.fresh, self.env, self.sig, self.ret_type = snap[0], snap[1], snap[2], snap[3], snap[4]
        del self.prog.defs[snap[5]:]
        if self.env.get(k) not in (NAT, INT):
            raise Untranslatable(f'{k} becomes a float in a loop')
        conv = f'let {lname(k)} : Fl.T := {self.as_float(self.read(k))}\n'
        self.env[k] = FLOAT
        self.range_toNat = one
        try:
            return conv + super().for_(s, rest, kont)
        finally:
            self.range_toNat = False

    def while_(self, s, rest, kont):
        if s.orelse or not (isinstance(s.test, ast.Constant) and s.test.value is True):
            raise Untranslatable('a while loop other than `while True:` without else')
        if self.loops or self.wloops:
            raise Untranslatable('a while loop inside another loop')
        if self.ctor is not None or not self.has_value_return:
            raise Untranslatable('a while loop in a function without a result value')
        if self.pre:
            raise Untranslatable('pending evaluations before a while loop')
        env0 = dict(self.env)
        names = [k for k, t in env0.items() if t != POISON and k != STATE]
        attrs0 = [x[1] for x in self.sig if x[0] == 'attr']
        loop = f'{self.lean}_loop'

        def again():
            for k in names + ([STATE] if self.stateful else []):
                if self.env.get(k) != env0[k]:
                    raise Untranslatable(f'{k} changes its type in the while loop ({env0[k]} -> {self.env.get(k)})')
            return ' '.join([loop, ENV_ARGS, 'loop_fuel'] + [lname(k) for k in names] + [ATTRS_MARK] + ([STATE] if self.stateful else []))

        def brk():
            saved = (self.loops, self.wloops)
            self.loops, self.wloops = [], []             # the statements after the loop are outside it
            try:
                return self.block(list(rest), kont)
            finally:
                self.loops, self.wloops = saved
        self.loops.append(again)
        self.wloops.append(dict(brk=brk))
        try:
            body = self.block(list(s.body), again)
        finally:
            self.loops.pop()
            self.wloops.pop()
        if self.ret_type is None:
            raise Untranslatable('no path out of the while loop returns a value')
        new_attrs = [x for x in self.sig if x[0] == 'attr' and x[1] not in attrs0]
        for x in new_attrs:                               # globals first read inside the loop: read-only parameters of it
            if x[2] in self.mut_names:
                raise Untranslatable(f'{x[1]} is mutated')
        extra = ' '.join(lname(x[2]) for x in new_attrs)
        body = body.replace(ATTRS_MARK, extra)
        ps = [f'({lname(k)} : {self.prog.lean_ty(env0[k])})' for k in names] + [f'({lname(x[2])} : {self.prog.lean_ty(x[3])})' for x in new_attrs]
        if self.stateful:
            ps.append(f'({STATE} : Nat)')
        rt = self.prog.lean_ty(self.ret_type)
        rt = f'{tpar(rt)} × Nat' if self.stateful else rt
        text = (f'/-- the `while True:` loop of `{self.fn.name}` ({self.prog.src}): one iteration per unit of `loop_fuel`, `none` = the code raises or the\n'
                f'    budget is used up; parameters = the variables defined before the loop -/\n'
                f'def {loop} {ENV_DECL} (loop_fuel : Nat) {" ".join(ps)} : Option ({rt}) :=\n'
                f'  match loop_fuel with\n  | 0 => none\n  | loop_fuel + 1 =>\n{indent(body, "    ")}\n')
        self.prog.defs.append((loop, text))
        self.env = dict(env0)
        start = ' '.join([loop, ENV_ARGS, 'fuel'] + [lname(k) for k in names] + [lname(x[2]) for x in new_attrs] + ([STATE] if self.stateful else []))
        return start

    def translate(self):
        body = self.block(list(self.fn.body), self.end)
        if not self.has_value_return or self.ret_type is None:
            raise Untranslatable(f'{self.fn.name}: no path returns a value')
        if self.mutated:
            raise Untranslatable(f'{self.fn.name} assigns attributes')
        rt = self.prog.lean_ty(self.ret_type)
        if self.stateful:
            rt = f'{tpar(rt)} × Nat'
        args = [x for x in self.sig if x[0] == 'arg']
        attrs = sorted((x for x in self.sig if x[0] == 'attr'), key=lambda x: x[1])
        sig = [('H', 'P', 'P', None)] + args + attrs
        ps = ' '.join(ENV_DECL if k == 'H' else f'({ln} : {self.prog.lean_ty(t)})' for k, _, ln, t in sig)
        if self.stateful:
            ps += f' ({STATE} : Nat)'
        doc = pybytes.doc_of(self.fn, f'{self.prog.src}: {self.fn.name}').replace('(self, ', '(').replace('(self)', '()')
        text = f'{doc}def {self.lean} {ps} : Option ({rt}) :=\n{indent(body)}\n'
        return dict(lean=self.lean, sig=sig, ret=self.ret_type, mutated=[], text=text, stateful=self.stateful)
