"""Regenerates lean/TonVerif/Generated/HashmapSrc.lean from the current source of the dictionary parser and serialiser

    pytoniq_core/boc/hashmap/parse.py : deserialize_unary, deserialize_hml, deserialize_hashmap_node, parse,
                                        deserialize_hashmap_aug_node, parse_aug, parse_hashmap, parse_hashmap_aug
    pytoniq_core/boc/hashmap/utils.py : pad, remove_prefix_map, find_common_prefix, fork_map, build_node, build_edge, build_tree,
                                        write_label_short, write_label_long, write_label_same, write_label, write_node, write_edge,
                                        serialize_dict

with the recursive-program translator pyrec.py, validates the translation against the running library, and evaluates the
regenerated functions against the hand model (search hook).  This file holds the DECLARED INTERFACE (trusted; checked against the
source where a check exists): the parameter types, the meaning of the `Slice` / `Builder` methods (lean/TonVerif/PyHm.lean),
`CellTypes.ordinary`, the loop variants, and that `detect_label_type` is `Generated.LabelFns.detect_label_type` (labelfns.py).

Theorems about the regenerated definitions: lean/TonVerif/Proofs/SrcHashmap.lean, Properties/C09.lean (`c09_src_*`), C10.lean (`c10_src_*`).
"""
import ast
import hashlib
import os
import random
import re
import subprocess

from . import pyrec, labelfns
from .pyrec import (NAT, INT, BOOL, BIT, STR, BITS, KIND, SLICE, CELL, BLD, TREE, NONE, DICT, LIST, TV, OPT, TUP, FN, Decl)
from .pyexpr import Untranslatable
from .arith import write_if_changed, _lake_build
from ..paths import REPO, LEAN

PARSE = 'pytoniq_core/boc/hashmap/parse.py'
UTILS = 'pytoniq_core/boc/hashmap/utils.py'
EXOTIC = 'pytoniq_core/boc/exotic.py'
OUT = 'TonVerif/Generated/HashmapSrc.lean'
NS = 'TonVerif.Generated.HashmapSrc'

X, Y, V = TV('X'), TV('Y'), TV('V')
XD = FN([SLICE], X, [0])          # x_deserializer(cs): reads the value from the slice
YD = FN([SLICE], Y, [0])          # y_deserializer(cs): reads the extra from the slice
SER = FN([V, BLD], NONE, [1])     # serializer(value, builder): stores the value into the builder
PDICT = DICT(STR, SLICE)          # ret_dict of the plain parser: key string -> the slice positioned at the value
SDICT = DICT(STR, V)              # the string-keyed dicts of the serialiser


def parse_decls():
    return [
        Decl('deserialize_unary', [('ser', SLICE)], NAT, variants=['(ser).bits.length'], module=PARSE),
        Decl('deserialize_hml', [('ser', SLICE), ('m', INT)], TUP(NAT, BITS), locals_={'_type': KIND}, module=PARSE),
        Decl('deserialize_hashmap_node', [('cs', SLICE), ('m', INT), ('ret_dict', PDICT), ('prefix', BITS)], NONE, module=PARSE),
        Decl('parse', [('slice', SLICE), ('key_length', INT), ('ret_dict', PDICT), ('prefix', BITS)], NONE, module=PARSE),
        Decl('deserialize_hashmap_aug_node', [('cs', SLICE), ('m', INT), ('ret_dict', DICT(STR, X)), ('extras', LIST(Y)), ('prefix', BITS),
                                              ('x_deserializer', XD), ('y_deserializer', YD)], NONE, module=PARSE),
        Decl('parse_aug', [('slice', SLICE), ('key_length', INT), ('ret_dict', DICT(STR, X)), ('extras', LIST(Y)), ('prefix', BITS),
                           ('x_deserializer', XD), ('y_deserializer', YD)], NONE, module=PARSE),
        Decl('parse_hashmap', [('dict_cell', SLICE), ('key_len', INT)], PDICT, locals_={'result': PDICT}, module=PARSE),
        Decl('parse_hashmap_aug', [('dict_cell', SLICE), ('key_len', INT), ('x_deserializer', XD), ('y_deserializer', YD)],
             OPT(TUP(DICT(NAT, X), LIST(Y))), locals_={'result': DICT(STR, X), 'extras': LIST(Y)}, module=PARSE),
    ]


def utils_decls():
    return [
        Decl('pad', [('src', STR), ('size', NAT)], STR, variants=['size - (src).length'], module=UTILS),
        Decl('remove_prefix_map', [('src', SDICT), ('length', NAT)], SDICT, locals_={'res': SDICT}, module=UTILS),
        Decl('find_common_prefix', [('src', LIST(STR))], STR, module=UTILS),
        Decl('fork_map', [('src', SDICT)], TUP(SDICT, SDICT), locals_={'left': SDICT, 'right': SDICT}, module=UTILS),
        Decl('build_node', [('src', SDICT)], TREE, module=UTILS),
        Decl('build_edge', [('src', SDICT)], TREE, module=UTILS),
        Decl('build_tree', [('src', DICT(NAT, V)), ('key_size', NAT)], TREE, locals_={'tree': SDICT}, module=UTILS),
        Decl('write_label_short', [('src', STR), ('to', BLD)], NONE, module=UTILS, returns_param='to'),
        Decl('write_label_long', [('src', STR), ('key_length', INT), ('to', BLD)], NONE, module=UTILS, returns_param='to'),
        Decl('write_label_same', [('value', BOOL), ('length', NAT), ('key_length', INT), ('to', BLD)], NONE, module=UTILS),
        Decl('write_label', [('src', STR), ('key_size', INT), ('to', BLD)], NONE, module=UTILS),
        Decl('write_node', [('src', TREE), ('key_size', INT), ('serializer', SER), ('to', BLD)], NONE, module=UTILS),
        Decl('write_edge', [('src', TREE), ('key_size', INT), ('serializer', SER), ('to', BLD)], NONE, module=UTILS),
        Decl('serialize_dict', [('src', DICT(NAT, V)), ('key_size', NAT), ('serializer', SER)], BLD, module=UTILS),
    ]


HEAD = ['/- GENERATED by harness/translate/hashmapsrc.py (pyrec.py) from the current source of',
        f'   {PARSE} and {UTILS}; do not edit.',
        '   `none` = the Python code raises.  A function returns its result together with the final value of the parameters it mutates;',
        '   `fuel` bounds the recursion depth (the theorems hold for every fuel above an explicit bound of the inputs).',
        '   `Py.Slice` / `Py.Bld` / `Py.Tree` / `Py.dset` …: lean/TonVerif/PyHm.lean (the declared reading of slice.py / builder.py / dict). -/',
        'import TonVerif.PyInt', 'import TonVerif.PyBytes', 'import TonVerif.PyHm', 'import TonVerif.Generated.LabelFns',
        'set_option linter.unusedVariables false', f'namespace {NS}', 'open TonVerif TonVerif.Model', '']


def _module(path):
    src = open(os.path.join(REPO, path)).read()
    tree = ast.parse(src)
    return tree, {n.name: n for n in tree.body if isinstance(n, ast.FunctionDef)}


def _imports(tree, name, module_suffix):
    """`name` is imported at module level from a module whose dotted path ends with module_suffix, and never re-bound"""
    hits = [n for n in tree.body if isinstance(n, ast.ImportFrom) and any((a.asname or a.name) == name for a in n.names)]
    if len(hits) != 1 or not ((hits[0].module or '') == module_suffix or (hits[0].module or '').endswith(module_suffix)):
        raise Untranslatable(f'{name} is not imported from {module_suffix}')
    for n in ast.walk(tree):
        if isinstance(n, (ast.FunctionDef, ast.ClassDef)) and n.name == name:
            raise Untranslatable(f'{name} is redefined')
        if isinstance(n, ast.Name) and n.id == name and isinstance(n.ctx, ast.Store):
            raise Untranslatable(f'{name} is re-bound')


def _abs_only(fns, fname, pname, seen=()):
    """the int parameter `pname` of utils.`fname` is used only as `pname.bit_length()` or passed on to a parameter with the same
    property - so f(…, k) = f(…, |k|) and the Nat-typed translation of labelfns.py may be called with `k.natAbs`"""
    fn = fns[fname]
    params = [a.arg for a in fn.args.args]
    for n in ast.walk(fn):
        if isinstance(n, ast.Name) and n.id == pname:
            if not isinstance(n.ctx, ast.Load):
                raise Untranslatable(f'{fname}: {pname} is re-bound')
    class V_(ast.NodeVisitor):
        def visit_Call(self, c):
            if isinstance(c.func, ast.Attribute) and isinstance(c.func.value, ast.Name) and c.func.value.id == pname:
                if c.func.attr != 'bit_length' or c.args:
                    raise Untranslatable(f'{fname}: {pname}.{c.func.attr}')
                return
            if isinstance(c.func, ast.Name) and c.func.id in fns:
                for i, a in enumerate(c.args):
                    if isinstance(a, ast.Name) and a.id == pname:
                        callee = [x.arg for x in fns[c.func.id].args.args]
                        if (c.func.id, callee[i]) not in seen:
                            _abs_only(fns, c.func.id, callee[i], seen + ((fname, pname),))
                    else:
                        self.visit(a)
                return
            self.generic_visit(c)

        def visit_Name(self, n):
            if n.id == pname:
                raise Untranslatable(f'{fname}: {pname} is used other than through bit_length()')
    V_().visit(fn)
    assert pname in params


def program():
    ptree, pf = _module(PARSE)
    utree, uf = _module(UTILS)
    etree = ast.parse(open(os.path.join(REPO, EXOTIC)).read())
    # CellTypes.ordinary
    ct = [n for n in etree.body if isinstance(n, ast.ClassDef) and n.name == 'CellTypes']
    if len(ct) != 1:
        raise Untranslatable('class CellTypes')
    vals = [s for s in ct[0].body if isinstance(s, ast.Assign) and len(s.targets) == 1 and isinstance(s.targets[0], ast.Name) and s.targets[0].id == 'ordinary']
    if len(vals) != 1:
        raise Untranslatable('CellTypes.ordinary')
    try:
        ordinary = ast.literal_eval(vals[0].value)
    except Exception:
        raise Untranslatable('CellTypes.ordinary is not a literal')
    if not isinstance(ordinary, int) or isinstance(ordinary, bool):
        raise Untranslatable('CellTypes.ordinary is not an int')
    _imports(ptree, 'CellTypes', '')          # from .. import Slice, CellTypes
    _imports(ptree, 'bitarray', 'bitarray')
    _imports(utree, 'Builder', 'builder')
    consts = {'CellTypes.ordinary': (f'({ordinary} : Int)', INT), 'Builder': ('Py.Bld.empty', BLD)}
    # detect_label_type is the function labelfns.py translates (Nat-typed key_size); sound for an int argument because the
    # parameter is only used through bit_length()
    _abs_only(uf, 'detect_label_type', 'key_size')
    externs = {'detect_label_type': ([STR, INT], KIND, '(Py.kindStr (Generated.LabelFns.detect_label_type {0} ({1}).natAbs))')}
    decls = []
    for d in parse_decls() + utils_decls():
        fns = pf if d.module == PARSE else uf
        if d.name not in fns:
            raise Untranslatable(f'function {d.name} is missing in {d.module}')
        d.node = fns[d.name]
        got = [a.arg for a in d.node.args.args]
        if got != [p for p, _ in d.params] or d.node.args.vararg or d.node.args.kwarg or d.node.args.kwonlyargs or d.node.args.defaults:
            raise Untranslatable(f'{d.name}: parameter list {got}')
        decls.append(d)
    return pyrec.Program(decls, consts=consts, externs=externs)


def translate_all():
    prog = program()
    return prog.translate()


def committed_text():
    try:
        r = subprocess.run(['git', '-C', os.path.dirname(LEAN), 'show', f'HEAD:lean/{OUT}'], capture_output=True, text=True, timeout=20)
        if r.returncode == 0 and r.stdout.startswith('/- GENERATED') and f'namespace {NS}' in r.stdout:
            return r.stdout
    except Exception:
        pass
    return None


def generate(old=None):
    """-> (text, info, lost).  The functions call each other (signatures), so the file is regenerated as a whole or not at all."""
    path = os.path.join(LEAN, OUT)
    if old is None:
        try:
            old = open(path).read()
        except FileNotFoundError:
            old = None
    try:
        labelfns.generate()                      # the extern must be translatable, else its meaning is not the declared one
        defs = translate_all()
    except (Untranslatable, SyntaxError, OSError, RecursionError) as e:
        keep = committed_text() or old
        if keep is None:
            raise Untranslatable(f'{e} (and no previous translation to keep)')
        return keep, {}, {'HashmapSrc': f'{type(e).__name__}: {e}'}
    out = list(HEAD)
    for name, text in defs:
        out += [f'-- BEGIN {name}', text.rstrip('\n'), f'-- END {name}', '']
    out.append(f'end {NS}')
    return '\n'.join(out) + '\n', {n: 'regenerated' for n, _ in defs}, {}


if __name__ == '__main__':
    text, info, lost = generate(old='')
    print(info, lost)
    if not lost:
        print(write_if_changed(os.path.join(LEAN, OUT), text))
