"""Regenerates lean/TonVerif/Generated/HashmapSrc.lean from the current source of the dictionary parser and serialiser

    pytoniq_core/boc/hashmap/parse.py : deserialize_unary, deserialize_hml, deserialize_hashmap_node, parse,
                                        deserialize_hashmap_aug_node, parse_aug, parse_hashmap, parse_hashmap_aug
    pytoniq_core/boc/hashmap/utils.py : pad, remove_prefix_map, find_common_prefix, fork_map, build_node, build_edge, build_tree,
                                        write_label_short, write_label_long, write_label_same, write_label, write_node, write_edge,
                                        serialize_dict

with the recursive-program translator pyrec.py, validates the translation against the running library, and evaluates the
regenerated functions against the hand model (search hook).  This file holds the DECLARED INTERFACE (trusted; checked against the
source where a check exists): the parameter types, the meaning of the `Slice` / `Builder` methods (lean/TonVerif/PyHm.lean),
`CellTypes.ordinary`, the loop variants, and that `detect_label_type` is `Generated.LabelFns.detect_label_type` (labelfns.py).

Theorems about the regenerated definitions: lean/TonVerif/Proofs/SrcHashmap.lean, Properties/C09.lean (`c09_src_*`), C10.lean (`c10_src_*`).
"""
import ast
import hashlib
import os
import random
import re
import subprocess

from . import pyrec, labelfns
from .pyrec import (NAT, INT, BOOL, BIT, STR, BITS, KIND, SLICE, CELL, BLD, TREE, NONE, DICT, LIST, TV, OPT, TUP, FN, Decl)
from .pyexpr import Untranslatable
from .arith import write_if_changed, _lake_build
from ..paths import REPO, LEAN

PARSE = 'pytoniq_core/boc/hashmap/parse.py'
UTILS = 'pytoniq_core/boc/hashmap/utils.py'
EXOTIC = 'pytoniq_core/boc/exotic.py'
OUT = 'TonVerif/Generated/HashmapSrc.lean'
NS = 'TonVerif.Generated.HashmapSrc'

X, Y, V = TV('X'), TV('Y'), TV('V')
XD = FN([SLICE], X, [0])          # x_deserializer(cs): reads the value from the slice
YD = FN([SLICE], Y, [0])          # y_deserializer(cs): reads the extra from the slice
SER = FN([V, BLD], NONE, [1])     # serializer(value, builder): stores the value into the builder
PDICT = DICT(STR, SLICE)          # ret_dict of the plain parser: key string -> the slice positioned at the value
SDICT = DICT(STR, V)              # the string-keyed dicts of the serialiser


def parse_decls():
    return [
        Decl('deserialize_unary', [('ser', SLICE)], NAT, variants=['(ser).bits.length'], module=PARSE),
        Decl('deserialize_hml', [('ser', SLICE), ('m', INT)], TUP(NAT, BITS), locals_={'_type': KIND}, module=PARSE),
        Decl('deserialize_hashmap_node', [('cs', SLICE), ('m', INT), ('ret_dict', PDICT), ('prefix', BITS)], NONE, module=PARSE),
        Decl('parse', [('slice', SLICE), ('key_length', INT), ('ret_dict', PDICT), ('prefix', BITS)], NONE, module=PARSE),
        Decl('deserialize_hashmap_aug_node', [('cs', SLICE), ('m', INT), ('ret_dict', DICT(STR, X)), ('extras', LIST(Y)), ('prefix', BITS),
                                              ('x_deserializer', XD), ('y_deserializer', YD)], NONE, module=PARSE),
        Decl('parse_aug', [('slice', SLICE), ('key_length', INT), ('ret_dict', DICT(STR, X)), ('extras', LIST(Y)), ('prefix', BITS),
                           ('x_deserializer', XD), ('y_deserializer', YD)], NONE, module=PARSE),
        Decl('parse_hashmap', [('dict_cell', SLICE), ('key_len', INT)], PDICT, locals_={'result': PDICT}, module=PARSE),
        Decl('parse_hashmap_aug', [('dict_cell', SLICE), ('key_len', INT), ('x_deserializer', XD), ('y_deserializer', YD)],
             OPT(TUP(DICT(NAT, X), LIST(Y))), locals_={'result': DICT(STR, X), 'extras': LIST(Y)}, module=PARSE),
    ]


def utils_decls():
    return [
        Decl('pad', [('src', STR), ('size', NAT)], STR, variants=['size - (src).length'], module=UTILS),
        Decl('remove_prefix_map', [('src', SDICT), ('length', NAT)], SDICT, locals_={'res': SDICT}, module=UTILS),
        Decl('find_common_prefix', [('src', LIST(STR))], STR, module=UTILS),
        Decl('fork_map', [('src', SDICT)], TUP(SDICT, SDICT), locals_={'left': SDICT, 'right': SDICT}, module=UTILS),
        Decl('build_node', [('src', SDICT)], TREE, module=UTILS),
        Decl('build_edge', [('src', SDICT)], TREE, module=UTILS),
        Decl('build_tree', [('src', DICT(NAT, V)), ('key_size', NAT)], TREE, locals_={'tree': SDICT}, module=UTILS),
        Decl('write_label_short', [('src', STR), ('to', BLD)], NONE, module=UTILS, returns_param='to'),
        Decl('write_label_long', [('src', STR), ('key_length', INT), ('to', BLD)], NONE, module=UTILS, returns_param='to'),
        Decl('write_label_same', [('value', BOOL), ('length', NAT), ('key_length', INT), ('to', BLD)], NONE, module=UTILS),
        Decl('write_label', [('src', STR), ('key_size', INT), ('to', BLD)], NONE, module=UTILS),
        Decl('write_node', [('src', TREE), ('key_size', INT), ('serializer', SER), ('to', BLD)], NONE, module=UTILS),
        Decl('write_edge', [('src', TREE), ('key_size', INT), ('serializer', SER), ('to', BLD)], NONE, module=UTILS),
        Decl('serialize_dict', [('src', DICT(NAT, V)), ('key_size', NAT), ('serializer', SER)], BLD, module=UTILS),
    ]


HEAD = ['/- GENERATED by harness/translate/hashmapsrc.py (pyrec.py) from the current source of',
        f'   {PARSE} and {UTILS}; do not edit.',
        '   `none` = the Python code raises.  A function returns its result together with the final value of the parameters it mutates;',
        '   `fuel` bounds the recursion depth (the theorems hold for every fuel above an explicit bound of the inputs).',
        '   `Py.Slice` / `Py.Bld` / `Py.Tree` / `Py.dset` …: lean/TonVerif/PyHm.lean (the declared reading of slice.py / builder.py / dict). -/',
        'import TonVerif.PyInt', 'import TonVerif.PyBytes', 'import TonVerif.PyHm', 'import TonVerif.Generated.LabelFns',
        'set_option linter.unusedVariables false', f'namespace {NS}', 'open TonVerif TonVerif.Model', '']


def _module(path):
    src = open(os.path.join(REPO, path)).read()
    tree = ast.parse(src)
    return tree, {n.name: n for n in tree.body if isinstance(n, ast.FunctionDef)}


def _imports(tree, name, module_suffix):
    """`name` is imported at module level from a module whose dotted path ends with module_suffix, and never re-bound"""
    hits = [n for n in tree.body if isinstance(n, ast.ImportFrom) and any((a.asname or a.name) == name for a in n.names)]
    if len(hits) != 1 or not ((hits[0].module or '') == module_suffix or (hits[0].module or '').endswith(module_suffix)):
        raise Untranslatable(f'{name} is not imported from {module_suffix}')
    for n in ast.walk(tree):
        if isinstance(n, (ast.FunctionDef, ast.ClassDef)) and n.name == name:
            raise Untranslatable(f'{name} is redefined')
        if isinstance(n, ast.Name) and n.id == name and isinstance(n.ctx, ast.Store):
            raise Untranslatable(f'{name} is re-bound')


def _abs_only(fns, fname, pname, seen=()):
    """the int parameter `pname` of utils.`fname` is used only as `pname.bit_length()` or passed on to a parameter with the same
    property - so f(…, k) = f(…, |k|) and the Nat-typed translation of labelfns.py may be called with `k.natAbs`"""
    fn = fns[fname]
    params = [a.arg for a in fn.args.args]
    for n in ast.walk(fn):
        if isinstance(n, ast.Name) and n.id == pname:
            if not isinstance(n.ctx, ast.Load):
                raise Untranslatable(f'{fname}: {pname} is re-bound')
    class V_(ast.NodeVisitor):
        def visit_Call(self, c):
            if isinstance(c.func, ast.Attribute) and isinstance(c.func.value, ast.Name) and c.func.value.id == pname:
                if c.func.attr != 'bit_length' or c.args:
                    raise Untranslatable(f'{fname}: {pname}.{c.func.attr}')
                return
            if isinstance(c.func, ast.Name) and c.func.id in fns:
                for i, a in enumerate(c.args):
                    if isinstance(a, ast.Name) and a.id == pname:
                        callee = [x.arg for x in fns[c.func.id].args.args]
                        if (c.func.id, callee[i]) not in seen:
                            _abs_only(fns, c.func.id, callee[i], seen + ((fname, pname),))
                    else:
                        self.visit(a)
                return
            self.generic_visit(c)

        def visit_Name(self, n):
            if n.id == pname:
                raise Untranslatable(f'{fname}: {pname} is used other than through bit_length()')
    V_().visit(fn)
    assert pname in params


def program():
    ptree, pf = _module(PARSE)
    utree, uf = _module(UTILS)
    etree = ast.parse(open(os.path.join(REPO, EXOTIC)).read())
    # CellTypes.ordinary
    ct = [n for n in etree.body if isinstance(n, ast.ClassDef) and n.name == 'CellTypes']
    if len(ct) != 1:
        raise Untranslatable('class CellTypes')
    vals = [s for s in ct[0].body if isinstance(s, ast.Assign) and len(s.targets) == 1 and isinstance(s.targets[0], ast.Name) and s.targets[0].id == 'ordinary']
    if len(vals) != 1:
        raise Untranslatable('CellTypes.ordinary')
    try:
        ordinary = ast.literal_eval(vals[0].value)
    except Exception:
        raise Untranslatable('CellTypes.ordinary is not a literal')
    if not isinstance(ordinary, int) or isinstance(ordinary, bool):
        raise Untranslatable('CellTypes.ordinary is not an int')
    _imports(ptree, 'CellTypes', '')          # from .. import Slice, CellTypes
    _imports(ptree, 'bitarray', 'bitarray')
    _imports(utree, 'Builder', 'builder')
    consts = {'CellTypes.ordinary': (f'({ordinary} : Int)', INT), 'Builder': ('Py.Bld.empty', BLD)}
    # detect_label_type is the function labelfns.py translates (Nat-typed key_size); sound for an int argument because the
    # parameter is only used through bit_length()
    _abs_only(uf, 'detect_label_type', 'key_size')
    externs = {'detect_label_type': ([STR, INT], KIND, '(Py.kindStr (Generated.LabelFns.detect_label_type {0} ({1}).natAbs))')}
    decls = []
    for d in parse_decls() + utils_decls():
        fns = pf if d.module == PARSE else uf
        if d.name not in fns:
            raise Untranslatable(f'function {d.name} is missing in {d.module}')
        d.node = fns[d.name]
        got = [a.arg for a in d.node.args.args]
        if got != [p for p, _ in d.params] or d.node.args.vararg or d.node.args.kwarg or d.node.args.kwonlyargs or d.node.args.defaults:
            raise Untranslatable(f'{d.name}: parameter list {got}')
        decls.append(d)
    return pyrec.Program(decls, consts=consts, externs=externs)


def translate_all():
    prog = program()
    return prog.translate()


def committed_text():
    try:
        r = subprocess.run(['git', '-C', os.path.dirname(LEAN), 'show', f'HEAD:lean/{OUT}'], capture_output=True, text=True, timeout=20)
        if r.returncode == 0 and r.stdout.startswith('/- GENERATED') and f'namespace {NS}' in r.stdout:
            return r.stdout
    except Exception:
        pass
    return None


def generate(old=None):
    """-> (text, info, lost).  The functions call each other (signatures), so the file is regenerated as a whole or not at all."""
    path = os.path.join(LEAN, OUT)
    if old is None:
        try:
            old = open(path).read()
        except FileNotFoundError:
            old = None
    try:
        labelfns.generate()                      # the extern must be translatable, else its meaning is not the declared one
        defs = translate_all()
    except (Untranslatable, SyntaxError, OSError, RecursionError) as e:
        keep = committed_text() or old
        if keep is None:
            raise Untranslatable(f'{e} (and no previous translation to keep)')
        return keep, {}, {'HashmapSrc': f'{type(e).__name__}: {e}'}
    out = list(HEAD)
    for name, text in defs:
        out += [f'-- BEGIN {name}', text.rstrip('\n'), f'-- END {name}', '']
    out.append(f'end {NS}')
    return '\n'.join(out) + '\n', {n: 'regenerated' for n, _ in defs}, {}


def regenerate():
    path = os.path.join(LEAN, OUT)
    try:
        old = open(path).read()
    except FileNotFoundError:
        old = None
    text, info, lost = generate(old=old)
    changed = write_if_changed(path, text)
    h = hashlib.sha256(text.encode())
    for f in (PARSE, UTILS, EXOTIC, 'pytoniq_core/boc/slice.py', 'pytoniq_core/boc/builder.py', 'pytoniq_core/boc/tvm_bitarray.py'):
        h.update(open(os.path.join(REPO, f), 'rb').read())
    for f in (__file__, pyrec.__file__, labelfns.__file__, os.path.join(LEAN, 'TonVerif/PyHm.lean'), os.path.join(LEAN, 'TonVerif/Generated/LabelFns.lean')):
        h.update(open(f, 'rb').read())
    stamp = os.path.join(LEAN, '.lake', 'srcval_HashmapSrc.stamp')
    try:
        cached = open(stamp).read() == h.hexdigest()
    except OSError:
        cached = False
    if not cached and not lost:
        bad = validate()
        if bad:                      # the translation does not compute what Python computes: do not keep it
            keep = committed_text() or old
            if keep is None:
                raise Untranslatable(bad)
            changed = write_if_changed(path, keep) or changed
            lost = {'HashmapSrc': bad}
        else:
            try:
                with open(stamp, 'w') as f:
                    f.write(h.hexdigest())
            except OSError:
                pass
    if lost:
        raise Untranslatable(f'kept the previous translation: {lost} (file changed: {changed})')
    n = {k: len(v) for k, v in validation_inputs().items()}
    return changed, {'definitions': sorted(info), 'validated': 'cached' if cached else f'Lean evaluation = the library on {n}'}


# ---------------------------------------------------------------------------- structured inputs

def _cell_tuple(c):
    return (int(c.type_), c.bits.to01(), tuple(_cell_tuple(r) for r in c.refs))


def _lib_serialize(n, items):
    """library serialisation of {k: value bits} -> nested (type, bits, refs) or None (raised)"""
    from pytoniq_core.boc.hashmap.hashmap import HashMap
    hm = HashMap(n)
    hm.value_serializer = lambda src, dest: dest.store_bits(src)
    try:
        for k, v in items:
            hm.set_int_key(k, v)
        c = hm.serialize()
    except Exception:
        return None
    return None if c is None else _cell_tuple(c)


def _mutate(rng, t):
    """a random local damage of a nested cell: flipped / dropped / added bit, dropped or duplicated reference"""
    kind, bits, refs = t
    if refs and rng.random() < 0.6:
        i = rng.randrange(len(refs))
        refs = refs[:i] + (_mutate(rng, refs[i]),) + refs[i + 1:]
        return (kind, bits, refs)
    r = rng.random()
    if r < 0.35 and bits:
        i = rng.randrange(len(bits))
        bits = bits[:i] + ('1' if bits[i] == '0' else '0') + bits[i + 1:]
    elif r < 0.5 and bits:
        bits = bits[:-1]
    elif r < 0.65:
        bits = bits + rng.choice('01')
    elif r < 0.8 and refs:
        refs = refs[:-1]
    elif r < 0.9 and refs:
        refs = refs + (refs[0],)
    else:
        bits = rng.choice(['', '0', '1', '10', '11', '110', '111'])
    return (kind, bits, refs)


def _augment(t):
    """append the fork extra `1` behind the label of every fork cell (leaves carry extra + value in their value bits)"""
    kind, bits, refs = t
    if len(refs) >= 2:
        return (kind, bits + '1', tuple(_augment(r) for r in refs))
    return t


def validation_inputs():
    """deterministic: {'hml': [(bits, m)], 'parse': [(cell, n)], 'aug': [(cell, n)], 'ser': [(n, [(k, vbits)])]}"""
    rng = random.Random(20240929)
    hml = []
    strings = ['']
    for ln in range(1, 8):
        strings += [format(v, f'0{ln}b') for v in range(1 << ln)]
    for m in (-1, 0, 1, 2, 3, 5, 8):
        hml += [(b, m) for b in strings]
    for _ in range(300):
        m = rng.choice([-3, 0, 1, 4, 7, 15, 16, 100, 255, 256, 1023])
        hml.append((''.join(rng.choice('01') for _ in range(rng.randrange(8, 40))), m))
    for m in (4, 9, 300):           # long unary / same / long labels at the boundary n = m, m + 1
        k = m.bit_length()
        for n in (m - 1, m, m + 1):
            if n >= 0:
                hml.append(('0' + '1' * n + '0' + '10' * n, m))
                if n < (1 << k):
                    hml.append(('10' + format(n, f'0{k}b') + '01' * n, m))
                    hml.append(('111' + format(n, f'0{k}b') + '0', m))
    ser, parse, aug = [], [], []
    for n in (1, 2, 3, 4, 5, 6, 8, 16, 64, 267):
        for _ in range(6 if n <= 4 else 3):
            cnt = rng.randrange(1, min(1 << n, 7) + 1)
            keys = sorted({rng.randrange(1 << n) for _ in range(cnt)})
            if rng.random() < 0.4 and n >= 5:         # shared prefixes, constant labels
                base_ = rng.choice([0, (1 << n) - 1, rng.randrange(1 << n)])
                keys = sorted({base_ ^ (1 << rng.randrange(min(n, 6))) for _ in range(cnt)} | {base_})
            rng.shuffle(keys)
            ser.append((n, [(k, ''.join(rng.choice('01') for _ in range(rng.choice([0, 1, 3, 9])))) for k in keys]))
    ser.append((1023, [(0, '1')]))
    ser.append((1023, [(0, '1' * 1011)]))                                 # leaf overflow
    ser.append((1023, [((1 << 1023) - 1, '1'), ((1 << 1023) - 2, '0')]))  # 1022-bit constant label: hml_same
    ser.append((1023, [(1, '1'), ((1 << 1022) + 5, '0')]))
    ser.append((1023, [(((1 << 1023) - 1) // 3, '1')]))                   # non-constant 1023-bit label: does not fit
    ser.append((8, [(300, '1')]))                                         # key wider than the dict (bypassing set_int_key)
    ser.append((2, [(k, '') for k in (3, 1, 2, 0)]))
    for n, items in ser:
        t = _lib_serialize(n, items) if all(k < (1 << n) for k, _ in items) else None
        if t is None:
            continue
        parse.append((t, n))
        parse.append((t, n - 1))
        parse.append((t, n + 1))
        for _ in range(3):
            parse.append((_mutate(rng, t), n))
    parse.append(((1, '0000000100', ()), 4))             # a non-ordinary root
    for n in (1, 2, 3, 5, 16):
        for _ in range(4):
            cnt = rng.randrange(1, min(1 << n, 5) + 1)
            keys = sorted({rng.randrange(1 << n) for _ in range(cnt)})
            t = _lib_serialize(n, [(k, ''.join(rng.choice('01') for _ in range(rng.choice([3, 3, 4, 2])))) for k in keys])
            if t is not None:
                a = _augment(t)
                aug.append((a, n))
                aug.append((_mutate(rng, a), n))
                aug.append((t, n))
    aug.append(((1, '0000000100', ()), 4))
    return {'hml': hml, 'parse': parse, 'aug': aug, 'ser': ser}


# ---------------------------------------------------------------------------- what the library computes

def _py_cell(t):
    from pytoniq_core.boc.cell import Cell
    from bitarray import bitarray
    kind, bits, refs = t
    return Cell(bitarray(bits), [_py_cell(r) for r in refs], -1)


def _py_slice(t):
    """the root may have any type (a Slice does not validate it); children are ordinary cells"""
    from pytoniq_core.boc.slice import Slice
    from pytoniq_core.boc.tvm_bitarray import TvmBitarray
    kind, bits, refs = t
    b = TvmBitarray(1023)
    b.extend(bits)
    return Slice(b, [_py_cell(r) for r in refs], kind)


def _show_cell(t):
    return f"({t[0]}:{t[1]}:{','.join(_show_cell(r) for r in t[2])})"


def py_eval(inputs):
    from pytoniq_core.boc.hashmap import parse as P, utils as U
    out = {'hml': [], 'parse': [], 'aug': [], 'ser': []}
    for bits, m in inputs['hml']:
        try:
            sl = _py_slice((-1, bits, ()))
            n, s = P.deserialize_hml(sl, m)
            out['hml'].append(f'{n}:{s.to01()}:{sl.bits.to01()}')
        except Exception:
            out['hml'].append('err')
    for t, n in inputs['parse']:
        try:
            d = P.parse_hashmap(_py_slice(t), n)
            out['parse'].append('ok ' + ';'.join(f'{k}={v.bits.to01()}/{v.remaining_refs}/{v.type_}' for k, v in d.items()))
        except Exception:
            out['parse'].append('err')
    for t, n in inputs['aug']:
        try:
            r = P.parse_hashmap_aug(_py_slice(t), n, lambda cs: cs.load_bits(2).to01(), lambda cs: cs.load_bit())
            out['aug'].append('none' if r is None else 'ok ' + ';'.join(f'{k}={v}' for k, v in r[0].items()) + ' ' + ''.join(str(int(e)) for e in r[1]))
        except Exception:
            out['aug'].append('err')
    for n, items in inputs['ser']:
        try:
            b = U.serialize_dict(dict(items), n, lambda src, dest: dest.store_bits(src))
            out['ser'].append(_show_cell(_cell_tuple(b.end_cell())))
        except Exception:
            out['ser'].append('err')
    return out


# ---------------------------------------------------------------------------- Lean evaluation

LEAN_EVAL = """import TonVerif.Generated.HashmapSrc
import TonVerif.Model.Hashmap
open TonVerif TonVerif.Model TonVerif.Model.Hashmap TonVerif.Generated.HashmapSrc
def bs (s : String) : Bits := s.toList.map (· == '1')
def sb (b : Bits) : String := String.ofList (b.map fun x => if x then '1' else '0')
partial def showCell : Cell → String
  | .mk k b r => s!"({k}:{sb b}:{",".intercalate (r.map showCell)})"
def showHml : Option ((Nat × Bits) × Py.Slice) → String
  | none => "err"
  | some ((n, s), sl) => s!"{n}:{sb s}:{sb sl.bits}"
def showDict (d : List (Bits × Py.Slice)) : String := ";".intercalate (d.map fun (k, sl) => s!"{sb k}={sb sl.bits}/{sl.refs.length}/{sl.kind}")
def showParse : Option (List (Bits × Py.Slice) × Py.Slice) → String
  | none => "err"
  | some (d, _) => "ok " ++ showDict d
def ydT (sl : Py.Slice) : Option (Bool × Py.Slice) := sl.loadBit?
def xdT (sl : Py.Slice) : Option (Bits × Py.Slice) := sl.loadBits? 2
def showAug : Option (Option (List (Nat × Bits) × List Bool) × Py.Slice) → String
  | none => "err"
  | some (none, _) => "none"
  | some (some (d, ex), _) => "ok " ++ ";".intercalate (d.map fun (k, v) => s!"{k}={sb v}") ++ " " ++ sb ex
def serT (v : Bits) (b : Py.Bld) : Option Py.Bld := b.extend? v
def showSer : Option Py.Bld → String
  | none => "err"
  | some b => showCell b.endCell
def sl (c : Cell) : Py.Slice := Py.beginParse c
-- the hand model, rendered the same way
def mHml (bits : Bits) (m : Int) : String :=
  match deserializeHml bits m with
  | none => "err"
  | some (n, s, r) => s!"{n}:{sb s}:{sb r}"
def mParse (c : Cell) (n : Nat) : String :=
  match parseHashmap c n with
  | none => "err"
  | some kv => "ok " ++ ";".intercalate (kv.map fun (k, (b, r)) => s!"{sb k}={sb b}/{r.length}/-1")
def mSer (n : Nat) (d : List (Nat × Bits)) : String :=
  match serialize n (fun v => some (v, [])) d with
  | some (some c) => showCell c
  | _ => "err"
def cmp (a b : String) : String := if a == b then "same" else "DIFF"
"""


def _lean_cell(t):
    return f'(Cell.mk ({t[0]}) (bs "{t[1]}") [{", ".join(_lean_cell(r) for r in t[2])}])'


def lean_eval(inputs, mode):
    """mode 'val': the regenerated functions rendered like py_eval; mode 'diff': 'same' | 'DIFF' regenerated vs hand model
    (hml, parse with n ≥ 0, ser with keys < 2^n: where the model's statement applies)"""
    lines = [LEAN_EVAL, 'def outs : List String := [']
    items = []
    tags = []
    for bits, m in inputs['hml']:
        g = f'showHml (deserialize_hml ⟨-1, bs "{bits}", []⟩ ({m}))'
        items.append(g if mode == 'val' else f'cmp ({g}) (mHml (bs "{bits}") ({m}))')
        tags.append('hml')
    for t, n in inputs['parse']:
        fuel = 2 * max(n, 0) + 2
        g = f'showParse (parse_hashmap {fuel} (sl {_lean_cell(t)}) ({n}))'
        if mode == 'val':
            items.append(g)
        else:
            items.append(f'cmp ({g}) (mParse {_lean_cell(t)} {n})' if n >= 0 else '"skip"')
        tags.append('parse')
    for t, n in inputs['aug']:
        fuel = 2 * max(n, 0) + 2
        items.append(f'showAug (parse_hashmap_aug xdT ydT {fuel} (sl {_lean_cell(t)}) ({n}))' if mode == 'val' else '"skip"')
        tags.append('aug')
    for n, kv in inputs['ser']:
        d = '[' + ', '.join(f'({k}, bs "{v}")' for k, v in kv) + ']'
        g = f'showSer (serialize_dict serT {2 * n + 2} {d} {n})'
        if mode == 'val':
            items.append(g)
        else:
            ok = all(k < (1 << n) for k, _ in kv) and len({k for k, _ in kv}) == len(kv)
            items.append(f'cmp ({g}) (mSer {n} {d})' if ok else '"skip"')
        tags.append('ser')
    lines.pop()
    for c in range(0, len(items), 40):
        lines.append(f'def outs{c} : List String := [')
        lines.append(',\n'.join('  ' + x for x in items[c:c + 40]))
        lines.append(']')
        lines.append(f'#eval (do for w in outs{c} do IO.println ("VAL " ++ w) : IO Unit)')
    tmp = os.path.join(LEAN, f'.srchm_{os.getpid()}.lean')
    with open(tmp, 'w') as f:
        f.write('\n'.join(lines) + '\n')
    try:
        _lake_build(['TonVerif.Generated.HashmapSrc', 'TonVerif.Model.Hashmap'])
        p = subprocess.run(['lake', 'env', 'lean', tmp], cwd=LEAN, capture_output=True, text=True, timeout=900)
    finally:
        os.unlink(tmp)
    got = re.findall(r'^VAL (.*)$', p.stdout, re.M)
    if len(got) != len(items):
        raise RuntimeError('lean evaluation failed: ' + (p.stdout + p.stderr)[-400:])
    out = {'hml': [], 'parse': [], 'aug': [], 'ser': []}
    for t, g in zip(tags, got):
        out[t].append(g)
    return out


def validate():
    """Differential validation of the TRANSLATOR: Lean evaluation of the regenerated functions = the library (CPython running
    the real source) on every validation input.  -> None | reason"""
    inputs = validation_inputs()
    try:
        got = lean_eval(inputs, 'val')
    except Exception as e:
        return f'validation: the regenerated definitions could not be evaluated: {e}'
    want = py_eval(inputs)
    for k in ('hml', 'parse', 'aug', 'ser'):
        for inp, g, w in zip(inputs[k], got[k], want[k]):
            if g != w:
                return f'validation ({k}): on {inp!r:.200} Lean computes "{g[:120]}", the library computes "{w[:120]}"'
    return None


def diff_points(ctx, inputs=None):
    """search hook: the validation inputs on which the regenerated functions and the hand model differ (evaluated by Lean; needs
    only the generated file and the model, not the proofs).  -> {'hml': [(bits, m)], 'parse': [(cell, n)], 'ser': [(n, items)]}.  Never raises."""
    inputs = inputs or validation_inputs()
    try:
        got = lean_eval(inputs, 'diff')
    except Exception as e:
        ctx.notes.append(f'source-diff search (HashmapSrc) failed: {type(e).__name__}: {e}')
        return {'hml': [], 'parse': [], 'ser': []}
    found = {k: [inp for inp, g in zip(inputs[k], got[k]) if g == 'DIFF'] for k in ('hml', 'parse', 'ser')}
    ctx.notes.append('source-diff search: regenerated dictionary code vs hand model on '
                     + ', '.join(f'{len(inputs[k])} {k}' for k in ('hml', 'parse', 'ser')) + ' inputs: '
                     + (', '.join(f'{len(v)} {k} differ (e.g. {v[0]!r:.100})' for k, v in found.items() if v) or 'no differing input'))
    return found


def ref_hml(bits, m):
    """independent transcription of hashmap.tlb HmLabel: hml_short$0 {m:#} {n:#} len:(Unary ~n) {n <= m} s:(n * Bit),
    hml_long$10 {m:#} n:(#<= m) s:(n * Bit), hml_same$11 {m:#} v:Bit n:(#<= m)  ->  (n, s, rest) | None (not a label under bound m)"""
    if m < 0:
        return None
    k = m.bit_length()
    if bits[:1] == '0':
        i, n = 1, 0
        while bits[i:i + 1] == '1':
            n += 1
            i += 1
        if bits[i:i + 1] != '0' or n > m or len(bits) < i + 1 + n:
            return None
        return n, bits[i + 1:i + 1 + n], bits[i + 1 + n:]
    if bits[:2] == '10':
        if len(bits) < 2 + k:
            return None
        n = int(bits[2:2 + k], 2) if k else 0
        if n > m or len(bits) < 2 + k + n:
            return None
        return n, bits[2 + k:2 + k + n], bits[2 + k + n:]
    if bits[:2] == '11':
        if len(bits) < 3 + k:
            return None
        n = int(bits[3:3 + k], 2) if k else 0
        if n > m:
            return None
        return n, bits[2] * n, bits[3 + k:]
    return None


if __name__ == '__main__':
    text, info, lost = generate(old='')
    print(info, lost)
    if not lost:
        print(write_if_changed(os.path.join(LEAN, OUT), text))
