"""Extension of the object-program translator pyobj.py for DYNAMICALLY typed methods: code that dispatches on the Python type of
a value with `isinstance`, takes dicts / lists apart, tests a type STRING, and calls itself / its sibling methods recursively.
No knowledge of pytoniq: which operand means what is DECLARED by the caller (tlengine.py) and checked against the source there.

Every translated method becomes ONE non-recursive Lean definition

    def <method> <declared context parameters> (rec_<callee> : <its function type>)... (self_<attr> : T)... (<parameter> : T)... : Option R

OPEN RECURSION: a call `self.<m>(...)` of a method declared in `iface['rec']` is a call of the function parameter `rec_<m>` (with
the declared parameter order, defaults filled in); the caller of the translator ties the knot with an explicit depth budget.
`none` = the Python code raises.

ADDITIONS to the subset of pyobj.py
  types        Val (a dynamically typed value: `Spec.Tl.Val`), Option (Val), TyS (a type string), Ctor / Option (Ctor) / List Ctor
               (schema objects), Name (an interned str: Lean `Nat`), List Arg (the items of `schema.args`), Str (a str as its
               list of code points), Char
  expressions  any expression whose source text is declared in iface['opaque'] -> its declared Lean term (partial ones hoisted)
               isinstance(x, bool|bytes|int|str|dict|list) on a Val name x -> Py.Tl.isBool x ...; on a statically typed name a constant
               NARROWING: inside `if isinstance(x, T) [and ...]:` (and in the later conjuncts) the name x is read through the
               projection of that type (getBool / getBytes / getInt); an assignment to x ends the narrowing
               x[::-1] on bytes / Str, bytes * int (negative = empty), e.to_bytes(..) / int.from_bytes(..) with keyword arguments and a
               dynamic `signed=`, x.hex(), d.get(k) / d[k] / d['@type'] / '@type' in d / k in d on a Val, `e is None` on an Option
               comparisons of a TyS with string literals (declared literal table), of a Char with a one-character literal
  statements   an assignment to a name that holds a Val stores a Val (bytes / int / bool / str results are injected)
               for k, t in <List Arg>.items():   for x in <Val>: (a list)   `a, b = <call returning a pair>`
               statements accepted by iface['skip'] (logging) are dropped
"""
import ast

from . import pybytes, pyobj
from .pyobj import MTr, NAT, INT, PROP, BOOL, BYTES, NATLIST, NONE, POISON, LEAN_RESERVED, lname, par, indent, tpar, falls_through, nested_jump


def nested_jump_return(stmts):
    return any(isinstance(n, ast.Return) for s in stmts for n in ast.walk(s))
from .pybytes import OPT, is_opt, opt_of
from .pyexpr import Untranslatable

DYN, TYS, SCHEMA, SCHEMAS, NAME, ARGS, STR, CHAR = 'Val', 'TyS', 'Ctor', 'List Ctor', 'Name', 'List Arg', 'Str', 'Char'
LEAN_TY = {DYN: 'Val', TYS: 'Py.Tl.TyS', SCHEMA: 'Ctor', SCHEMAS: 'List Ctor', NAME: 'Nat', ARGS: 'List Arg', STR: 'List Nat', CHAR: 'Nat',
           'Arg': 'Arg', 'Pair': 'Val × Nat'}
ISINST = {'bool': 'isBool', 'bytes': 'isBytes', 'int': 'isInt', 'str': 'isStr', 'dict': 'isDict'}
STATIC_PY = {BYTES: 'bytes', INT: 'int', NAT: 'int', BOOL: 'bool', STR: 'str'}


class DProgram(pyobj.Program):
    def lean_ty(self, t):
        if t in LEAN_TY:
            return LEAN_TY[t]
        if is_opt(t):
            return f'Option ({self.lean_ty(opt_of(t))})'
        return super().lean_ty(t)

    def mutated_attrs(self, cls, name, seen=()):
        """the translated methods may not assign attributes of self at all"""
        if name == '__init__':
            return super().mutated_attrs(cls, name, seen)
        for n in ast.walk(self.find_method(cls, name)[1] if not getattr(self, 'direct', None) else self.direct):
            if isinstance(n, ast.Attribute) and pyobj.is_self(n.value) and isinstance(n.ctx, (ast.Store, ast.Del)):
                raise Untranslatable(f'{cls}.{name} assigns self.{n.attr}')
        return []


def inject(v, t):
    """Lean text of a value of static type t as a Val"""
    if t == DYN:
        return v
    if t == BYTES:
        return f'(Val.bytes {v})'
    if t == INT:
        return f'(Val.int {v})'
    if t == NAT:
        return f'(Val.int (({v} : Nat) : Int))'
    if t == BOOL:
        return f'(Val.bool {v})'
    if t == PROP:
        return f'(Val.bool (decide {v}))'
    raise Untranslatable(f'a {t} stored where a dynamically typed value is kept')


class DTr(MTr):
    FORBIDDEN = tuple(x for x in MTr.FORBIDDEN if x not in (ast.While, ast.Break))

    def __init__(self, prog, cls, owner, fn, argtypes, lean, iface, ctor=None, ctor_struct=None):
        self.iface = iface
        self.facts = {}
        self.used_rec = []
        self.lift = bool(iface.get('lift'))      # loop bodies / duplicated continuations become separate definitions
        self.lifted = []                         # [(name, text)] in dependency order
        self.lift_cache = {}
        self.lift_n = {'loop': 0, 'rest': 0}
        self.probing = 0
        self.breaks = []                         # per enclosing loop: continuation of `break` (None: not supported there)
        self.kont_ty = None                      # Lean type of the innermost loop's state (what its continuation returns)
        self.uses_while = False
        if not self.lift and any(isinstance(n, (ast.While, ast.Break)) for n in ast.walk(fn)):
            raise Untranslatable(f'{fn.name}: while / break outside a method declared for lifting')
        prog.direct = fn                      # the function node is given directly (it may be a renamed copy of a classmethod)
        try:
            super().__init__(prog, cls, owner, fn, argtypes, lean, ctor=ctor, ctor_struct=ctor_struct)
        finally:
            prog.direct = None

    # ------------------------------------------------------------------ narrowing
    def facts_of(self, test):
        out = {}
        parts = test.values if isinstance(test, ast.BoolOp) and isinstance(test.op, ast.And) else [test]
        for p in parts:
            if (isinstance(p, ast.Call) and isinstance(p.func, ast.Name) and p.func.id == 'isinstance' and len(p.args) == 2
                    and isinstance(p.args[0], ast.Name) and isinstance(p.args[1], ast.Name) and self.env.get(p.args[0].id) == DYN):
                out[p.args[0].id] = p.args[1].id
        return out

    def static_isinstance(self, e):
        """isinstance(x, T) on a statically typed name -> True / False, else None"""
        if (isinstance(e, ast.Call) and isinstance(e.func, ast.Name) and e.func.id == 'isinstance' and len(e.args) == 2 and not e.keywords
                and isinstance(e.args[0], ast.Name) and isinstance(e.args[1], ast.Name)):
            t = self.env.get(e.args[0].id)
            if t is None or t == DYN or t == POISON:
                return None
            base = opt_of(t) if is_opt(t) else t
            py = STATIC_PY.get(base)
            want = e.args[1].id
            if py is None:                    # a declared object (schema ...): never one of the built-in types
                return False if want in ISINST or want == 'list' else None
            if is_opt(t):
                return None if py == want else False
            return py == want or (py == 'bool' and want == 'int')
        return None

    # ------------------------------------------------------------------ expressions
    def truth(self, et):
        e, t = et
        if t == SCHEMAS or t == ARGS or t == STR:
            return f'({e} ≠ [])'
        if is_opt(t):
            return f'({e}.isSome = true)'
        if t in (DYN, TYS, SCHEMA, NAME, CHAR):
            raise Untranslatable(f'{t} value used as a condition')
        return super().truth(et)

    def unopt(self, et, hint):
        """an Option value used as the object itself: None raises (AttributeError / TypeError)"""
        v, t = et
        if is_opt(t):
            return self.hoist(v, hint), opt_of(t)
        return v, t

    def expr(self, e):
        src = ast.unparse(e)
        op = self.iface.get('opaque', {}).get(src)
        if op is not None and not isinstance(e, ast.Name):
            tmpl, t, partial = op
            for n in ast.walk(e):
                if isinstance(n, ast.Name) and isinstance(n.ctx, ast.Load) and n.id in self.env and self.env[n.id] == POISON:
                    raise Untranslatable(f'{n.id} is not defined on all paths reaching {src[:40]}')
            return (self.hoist(tmpl, 'op') if partial else tmpl), t
        if isinstance(e, ast.Name) and self.env.get(e.id) == DYN and e.id in self.facts:
            k = self.facts[e.id]
            x = lname(e.id)
            if k == 'bool':
                return f'(Py.Tl.getBool {x} = true)', PROP
            if k == 'bytes':
                return f'(Py.Tl.getBytes {x})', BYTES
            if k == 'int':
                return f'(Py.Tl.getInt {x})', INT
            return x, DYN
        if isinstance(e, ast.Constant) and isinstance(e.value, str):
            lit = self.iface.get('name_literals', {}).get(e.value)
            if lit is not None:
                return lit, NAME
            raise Untranslatable(f'string literal {e.value!r:.30} outside a declared context')
        if isinstance(e, ast.Dict):
            if not e.keys:
                return '(Val.obj none [])', DYN
            if len(e.keys) == 1 and e.keys[0] is not None:
                k, kt = self.expr(e.keys[0])
                v, vt = self.expr(e.values[0])
                if kt == NAME and vt == TYS:
                    return f'[Py.Tl.argOf {k} {v}]', ARGS          # a one-entry {field name: type string} dict
            if all(k is not None for k in e.keys):
                items = []
                for k, v in zip(e.keys, e.values):
                    kk, kt = self.expr(k)
                    if kt != NAME:
                        raise Untranslatable('dict literal with a key that is not a declared name')
                    items.append(f'({kk}, {inject(*self.stored(self.expr(v)))})')
                if len({i.split(",")[0] for i in items}) != len(items):
                    raise Untranslatable('dict literal with a repeated key')
                return '(Val.obj none [' + ', '.join(items) + '])', DYN
            raise Untranslatable('dict literal')
        if isinstance(e, ast.List) and e.elts:
            xs = [self.expr(x) for x in e.elts]
            if all(t == DYN for _, t in xs):
                return '(Val.list [' + ', '.join(v for v, _ in xs) + '])', DYN
        if isinstance(e, ast.Call):
            r = self.dyn_call(e)
            if r is not None:
                return r
        if isinstance(e, ast.BoolOp) and isinstance(e.op, ast.And):
            facts0 = dict(self.facts)
            parts = []
            try:
                for k, v in enumerate(e.values):
                    x = self.expr(v) if k == 0 else self.guarded(lambda v=v: self.expr(v))
                    if x[1] != PROP:
                        x = (self.truth(x), PROP)
                    parts.append(x[0])
                    self.facts.update(self.facts_of(v))
            finally:
                self.facts = facts0
            return '(' + ' ∧ '.join(parts) + ')', PROP
        if isinstance(e, ast.BoolOp) and isinstance(e.op, ast.Or):
            parts = []
            for k, v in enumerate(e.values):
                x = self.expr(v) if k == 0 else self.guarded(lambda v=v: self.expr(v))
                if x[1] != PROP:
                    x = (self.truth(x), PROP)
                parts.append(x[0])
            return '(' + ' ∨ '.join(parts) + ')', PROP
        if isinstance(e, ast.UnaryOp) and isinstance(e.op, ast.Not):
            x = self.expr(e.operand)
            return f'(¬ {self.truth(x) if x[1] != PROP else x[0]})', PROP
        if isinstance(e, ast.Compare) and len(e.ops) == 1:
            r = self.dyn_compare(e)
            if r is not None:
                return r
        if isinstance(e, ast.Tuple):
            raise Untranslatable('tuple used as a value')
        return super().expr(e)

    def dyn_compare(self, e):
        op, left, right = e.ops[0], e.left, e.comparators[0]
        if isinstance(op, (ast.Is, ast.IsNot)) and isinstance(right, ast.Constant) and right.value is None:
            v, t = self.expr(left)
            if not is_opt(t):                 # a value of a declared non-Optional type is never None
                return ('False' if isinstance(op, ast.Is) else 'True'), PROP
            return (f'({v}.isNone = true)' if isinstance(op, ast.Is) else f'({v}.isSome = true)'), PROP
        if isinstance(op, (ast.In, ast.NotIn)):
            neg = isinstance(op, ast.NotIn)
            if isinstance(left, ast.Constant) and left.value == '@type' and isinstance(right, ast.Name) and self.env.get(right.id) == DYN:
                if self.facts.get(right.id) != 'dict':
                    raise Untranslatable("'@type' in x where x is not known to be a dict")
                txt = f'(Py.Tl.hasType {lname(right.id)} = true)'
                return (f'(¬ {txt})' if neg else txt), PROP
            if isinstance(right, (ast.Tuple, ast.List)) and right.elts and all(isinstance(x, ast.Constant) and isinstance(x.value, str) for x in right.elts):
                parts = [self.dyn_compare(ast.Compare(left=left, ops=[ast.Eq()], comparators=[x])) for x in right.elts]
                if any(p is None for p in parts):
                    return None
                txt = '(' + ' ∨ '.join(p[0] for p in parts) + ')'
                return (f'(¬ {txt})' if neg else txt), PROP
            rv = None
            try:
                rv = self.expr(right)
            except Untranslatable:
                return None
            if rv[1] == DYN:
                k, kt = self.expr(left)
                if kt != NAME:
                    raise Untranslatable(f'{kt} in <dict>')
                txt = f'(Py.Tl.dictHas {rv[0]} {k} = true)'
                return (f'(¬ {txt})' if neg else txt), PROP
            return None
        if isinstance(op, (ast.Eq, ast.NotEq)):
            neg = isinstance(op, ast.NotEq)
            for a, b in ((left, right), (right, left)):
                if isinstance(b, ast.Constant) and isinstance(b.value, str):
                    v, t = self.expr(a)
                    if t == TYS:
                        lit = self.iface.get('type_literals', {}).get(b.value)
                        if lit is None:
                            raise Untranslatable(f'type string compared with the undeclared literal {b.value!r}')
                        return (f'({v} ≠ {lit})' if neg else f'({v} = {lit})'), PROP
                    if t == CHAR and len(b.value) == 1:
                        return (f'({v} ≠ {ord(b.value)})' if neg else f'({v} = {ord(b.value)})'), PROP
                    raise Untranslatable(f'comparison of a {t} with a string literal')
        return None

    def binop(self, e):
        if (self.lift and isinstance(e.op, ast.Sub) and isinstance(e.left, ast.Constant) and type(e.left.value) is int and e.left.value > 0
                and isinstance(e.right, ast.BinOp) and isinstance(e.right.op, ast.Mod) and isinstance(e.right.right, ast.Constant)
                and type(e.right.right.value) is int and e.right.right.value == e.left.value):
            x, xt = self.expr(e.right.left)
            if xt == NAT:                       # k - x % k with a positive literal k and x >= 0: never negative
                return f'({e.left.value} - {x} % {e.left.value})', NAT
        if isinstance(e.op, ast.Mult):
            l, r = self.expr(e.left), self.expr(e.right)
            if BYTES in (l[1], r[1]):
                bs, n = (l, r) if l[1] == BYTES else (r, l)
                if n[1] == PROP:
                    n = self.num(n)
                if n[1] == NAT:
                    return f'(Py.Tl.repeatI {bs[0]} (({n[0]} : Nat) : Int))', BYTES
                if n[1] == INT:
                    return f'(Py.Tl.repeatI {bs[0]} {n[0]})', BYTES
                raise Untranslatable(f'bytes * {n[1]}')
        return super().binop(e)

    def subscript(self, e):
        s = e.slice
        if (isinstance(s, ast.Slice) and s.lower is None and s.upper is None and isinstance(s.step, ast.UnaryOp)
                and isinstance(s.step.op, ast.USub) and isinstance(s.step.operand, ast.Constant) and s.step.operand.value == 1):
            v, t = self.expr(e.value)
            if t not in (BYTES, STR):
                raise Untranslatable(f'[::-1] of a {t}')
            return f'({v}.reverse)', t
        if isinstance(s, ast.Constant) and s.value == '@type':
            v, t = self.expr(e.value)
            if t != DYN:
                raise Untranslatable(f"['@type'] of a {t}")
            return self.hoist(f'Py.Tl.typeOf? {v}', 'ty'), NAME
        if not isinstance(s, ast.Slice):
            bt = None
            if isinstance(e.value, ast.Name):
                bt = self.env.get(e.value.id)
                if bt == DYN and e.value.id in self.facts and self.facts[e.value.id] != 'dict':
                    bt = None
            if bt == DYN:
                k, kt = self.expr(s)
                if kt != NAME:
                    raise Untranslatable(f'dict subscript with a {kt} key')
                return self.hoist(f'Py.Tl.dictItem? {lname(e.value.id)} {k}', 'item'), DYN
            base, t = self.expr(e.value)
            if t == SCHEMAS:
                i = self.index_nat(s, 'index')
                return self.hoist(f'{base}[{i}]?', 'schema'), SCHEMA
            if t == STR:
                i, it = self.expr(s)
                if it == NAT:
                    return self.hoist(f'{base}[{i}]?', 'ch'), CHAR
                if it == INT:
                    return self.hoist(f'Py.getI? {base} {i}', 'ch'), CHAR
                raise Untranslatable(f'str index of type {it}')
        return super().subscript(e)

    def attribute(self, e):
        if not pyobj.is_self(e.value):
            try:
                base = self.expr(e.value)
            except Untranslatable:
                base = None
            if base is not None and (base[1] == SCHEMA or base[1] == OPT(SCHEMA)):
                at = self.iface.get('schema_attrs', {}).get(e.attr)
                if at is None:
                    raise Untranslatable(f'schema attribute .{e.attr} is not declared')
                v, _ = self.unopt(base, 'schema')
                return f'{v}.{at[0]}', at[1]
        return super().attribute(e)

    def kwargs(self, e, names, defaults=None):
        """positional + keyword arguments of a call -> {name: ast}"""
        args = dict(zip(names, e.args))
        if len(e.args) > len(names):
            raise Untranslatable('too many positional arguments')
        for k in e.keywords:
            if k.arg not in names or k.arg in args:
                raise Untranslatable(f'argument {k.arg}')
            args[k.arg] = k.value
        for n, d in (defaults or {}).items():
            args.setdefault(n, d)
        return args

    def dyn_call(self, e):
        f = e.func
        st = self.static_isinstance(e)
        if st is not None:
            return ('True' if st else 'False'), PROP
        if isinstance(f, ast.Name) and f.id == 'isinstance' and len(e.args) == 2 and not e.keywords and isinstance(e.args[1], ast.Name):
            if not (isinstance(e.args[0], ast.Name) and self.env.get(e.args[0].id) == DYN):
                raise Untranslatable('isinstance of something else than a dynamically typed name')
            fn = ISINST.get(e.args[1].id)
            if fn is None:
                raise Untranslatable(f'isinstance(.., {e.args[1].id})')
            return f'(Py.Tl.{fn} {lname(e.args[0].id)} = true)', PROP
        if isinstance(f, ast.Name) and f.id == 'len' and len(e.args) == 1 and not e.keywords:
            a = e.args[0]
            if isinstance(a, ast.Name) and self.env.get(a.id) == DYN and a.id not in self.facts:
                return self.hoist(f'Py.Tl.listLen? {lname(a.id)}', 'len'), NAT
            v, t = self.expr(a)
            if t in (SCHEMAS, ARGS, STR):
                return f'{v}.length', NAT
            return None
        for hook in self.iface.get('calls', []):
            r = hook(self, e)
            if r is not None:
                return r
        if isinstance(f, ast.Attribute):
            if pyobj.is_self(f.value) and f.attr in self.iface.get('rec', {}):
                return self.rec_call(e, f.attr)
            if f.attr == 'to_bytes':
                a = self.kwargs(e, ['length', 'byteorder', 'signed'], {'signed': ast.Constant(value=False)})
                if set(a) != {'length', 'byteorder', 'signed'}:
                    raise Untranslatable('to_bytes arguments')
                if not (isinstance(a['byteorder'], ast.Constant) and a['byteorder'].value in ('big', 'little')):
                    raise Untranslatable('to_bytes byte order is not a literal')
                x = self.num(self.expr(f.value))
                w = self.as_nat(self.expr(a['length']), 'to_bytes length')
                sg = self.expr(a['signed'])
                if sg[1] != PROP:
                    raise Untranslatable('to_bytes signed= is not a bool')
                little = 'true' if a['byteorder'].value == 'little' else 'false'
                if x[1] == NAT and isinstance(a['signed'], ast.Constant) and a['signed'].value is False:
                    return self.hoist(f'{"toBytesLE?" if little == "true" else "toBytesBE?"} {w} {x[0]}', 'bytes'), BYTES
                return self.hoist(f'Py.Tl.intToBytes? (decide {sg[0]}) {little} {w} {self.cast(x)}', 'bytes'), BYTES
            if f.attr == 'from_bytes' and isinstance(f.value, ast.Name) and f.value.id == 'int':
                a = self.kwargs(e, ['bytes', 'byteorder', 'signed'], {'signed': ast.Constant(value=False), 'byteorder': ast.Constant(value='big')})
                if not (isinstance(a['byteorder'], ast.Constant) and a['byteorder'].value in ('big', 'little')):
                    raise Untranslatable('from_bytes byte order is not a literal')
                x, t = self.expr(a['bytes'])
                if t != BYTES:
                    raise Untranslatable('int.from_bytes of a non-bytes value')
                sg = self.expr(a['signed'])
                if sg[1] != PROP:
                    raise Untranslatable('from_bytes signed= is not a bool')
                little = 'true' if a['byteorder'].value == 'little' else 'false'
                if isinstance(a['signed'], ast.Constant) and a['signed'].value is False:
                    return f'(Py.Tl.intOfBytes false {little} {x}).toNat', NAT
                return f'(Py.Tl.intOfBytes (decide {sg[0]}) {little} {x})', INT
            if f.attr == 'hex' and not e.args and not e.keywords:
                v, t = self.expr(f.value)
                if t == BYTES:
                    return f'(Val.hex {v})', DYN          # the str b.hex() is only ever stored
                return None
            if f.attr == 'get' and isinstance(f.value, ast.Name) and self.env.get(f.value.id) == DYN and not e.keywords and len(e.args) == 1:
                k, kt = self.expr(e.args[0])
                if kt != NAME:
                    raise Untranslatable(f'.get() with a {kt} key')
                return self.hoist(f'Py.Tl.dictGet? {lname(f.value.id)} {k}', 'got'), OPT(DYN)
            if f.attr == 'decode' and not e.args and not e.keywords:
                v, t = self.expr(f.value)
                if t == DYN:
                    return self.hoist(f'Py.Tl.decode? {v}', 'str'), DYN
                return None
            if f.attr == 'encode' and isinstance(f.value, ast.Name) and self.facts.get(f.value.id) == 'str' and not e.args and not e.keywords:
                return f'(Py.Tl.encodeStr {lname(f.value.id)})', BYTES
            if (f.attr == 'fromhex' and isinstance(f.value, ast.Name) and f.value.id == 'bytes' and len(e.args) == 1 and not e.keywords
                    and isinstance(e.args[0], ast.Name) and self.facts.get(e.args[0].id) == 'str'):
                return self.hoist(f'Py.Tl.fromHex? {lname(e.args[0].id)}', 'bytes'), BYTES
        return None

    def rec_call(self, e, name):
        variant = self.iface.get('rec_variant')
        if variant is not None:
            name = variant(e, name)
        d = self.iface['rec'][name]
        a = self.kwargs(e, [n for n, _ in d['params']], d.get('defaults'))
        actual = []
        for n, want in d['params']:
            if n not in a:
                raise Untranslatable(f'{name}: argument {n} missing')
            v, t = self.expr(a[n])
            if t == PROP and want == BOOL:
                v, t = f'(decide {v})', BOOL
            if is_opt(want) and t == NONE:
                v, t = 'none', want
            elif is_opt(want) and t == opt_of(want):
                v, t = f'(some {v})', want
            if want == DYN and t != DYN:
                v, t = inject(v, t), DYN
            if t != want:
                raise Untranslatable(f'{name}: argument {n} has type {t}, declared {want}')
            actual.append(par(v))
        if name not in self.used_rec:
            self.used_rec.append(name)
        return self.hoist(f'rec_{name} {" ".join(actual)}', 'call'), d['ret']

    def cast(self, x):
        v, t = x
        return f'(({v} : Nat) : Int)' if t == NAT else v

    # ------------------------------------------------------------------ statements
    def block(self, stmts, kont):
        if stmts and self.iface.get('skip') and self.iface['skip'](stmts[0]):
            return self.block(stmts[1:], kont)
        if stmts and isinstance(stmts[0], ast.Assign) and len(stmts[0].targets) == 1 and isinstance(stmts[0].targets[0], ast.Tuple):
            return self.pair_assign(stmts[0], stmts[1:], kont)
        if stmts and isinstance(stmts[0], ast.Break):
            if not self.breaks or self.breaks[-1] is None:
                raise Untranslatable('break outside a while loop')
            return self.breaks[-1]()
        if stmts and isinstance(stmts[0], ast.While):
            return self.while_(stmts[0], stmts[1:], kont)
        if stmts and isinstance(stmts[0], ast.Assign) and len(stmts[0].targets) == 1 and isinstance(stmts[0].targets[0], ast.Subscript):
            v, t = self.expr(stmts[0].value) if not (isinstance(stmts[0].value, ast.List) and not stmts[0].value.elts) else ('(Val.list [])', DYN)
            return self.store(stmts[0].targets[0], v, t, stmts[1:], kont)
        if (stmts and isinstance(stmts[0], ast.Expr) and isinstance(stmts[0].value, ast.Call) and isinstance(stmts[0].value.func, ast.Attribute)
                and stmts[0].value.func.attr == 'append' and isinstance(stmts[0].value.func.value, ast.Subscript)):
            c = stmts[0].value
            d, k = self.dict_slot(c.func.value)
            if len(c.args) != 1 or c.keywords:
                raise Untranslatable('append arguments')
            x, xt = self.expr(c.args[0])
            term = f'Py.Tl.dictAppend? {lname(d)} {k} {inject(x, xt)}'
            pre = self.take_pre()
            self.facts.pop(d, None)
            return self.wrap(pre + [('bind', lname(d), term)], self.block(stmts[1:], kont))
        return super().block(stmts, kont)

    def dict_slot(self, tg):
        """d[k] with d a local holding a dict value and k a field name -> (d, Lean text of k)"""
        if not (isinstance(tg.value, ast.Name) and self.env.get(tg.value.id) == DYN and tg.value.id not in self.py_params):
            raise Untranslatable(f'store into {ast.unparse(tg)[:40]}')
        k, kt = self.expr(tg.slice)
        if kt != NAME:
            raise Untranslatable(f'dict store with a {kt} key')
        return tg.value.id, k

    def store(self, tg, v, t, rest, kont):
        """d[k] = v  /  d['@type'] = name  /  d[k]['@type'] = name"""
        if isinstance(tg.slice, ast.Constant) and tg.slice.value == '@type':
            if t != NAME:
                raise Untranslatable(f"['@type'] = a {t}")
            if isinstance(tg.value, ast.Name):
                d = tg.value.id
                if self.env.get(d) != DYN or d in self.py_params:
                    raise Untranslatable(f'store into {d}')
                pre = self.take_pre()
                self.facts.pop(d, None)
                return self.wrap(pre + [('bind', lname(d), f'Py.Tl.dictSetType? {lname(d)} {v}')], self.block(rest, kont))
            if isinstance(tg.value, ast.Subscript):
                d, k = self.dict_slot(tg.value)
                item = self.hoist(f'Py.Tl.dictItem? {lname(d)} {k}', 'item')
                item2 = self.hoist(f'Py.Tl.dictSetType? {item} {v}', 'item')
                pre = self.take_pre()
                self.facts.pop(d, None)
                return self.wrap(pre, f'let {lname(d)} : Val := (Py.Tl.dictSet {lname(d)} {k} {item2})\n{self.block(rest, kont)}')
            raise Untranslatable("['@type'] store shape")
        d, k = self.dict_slot(tg)
        pre = self.take_pre()
        self.facts.pop(d, None)
        return self.wrap(pre, f'let {lname(d)} : Val := (Py.Tl.dictSet {lname(d)} {k} {inject(v, t)})\n{self.block(rest, kont)}')

    def assigned(self, stmts):
        out = super().assigned(stmts)
        for s in stmts:
            for n in ast.walk(s):
                root = None
                if isinstance(n, ast.Subscript) and isinstance(n.ctx, ast.Store):
                    root = n.value
                elif isinstance(n, ast.Call) and isinstance(n.func, ast.Attribute) and n.func.attr == 'append' and isinstance(n.func.value, ast.Subscript):
                    root = n.func.value.value
                while isinstance(root, ast.Subscript):
                    root = root.value
                if isinstance(root, ast.Name) and root.id not in out:
                    out.append(root.id)
        return out

    def pair_assign(self, s, rest, kont):
        tg = s.targets[0]
        if len(tg.elts) == 2 and isinstance(tg.elts[0], ast.Subscript) and isinstance(tg.elts[1], ast.Name):
            v, t = self.expr(s.value)
            if t != 'Pair':
                raise Untranslatable(f'unpacking of a {t}')
            b = tg.elts[1].id
            self.key_of_target(ast.Name(id=b, ctx=ast.Store()))
            self.facts.pop(b, None)
            pre = self.take_pre()
            # d[k] = pair.1 ; b = pair.2   (Python assigns the targets left to right)
            d, k = self.dict_slot(tg.elts[0])
            self.facts.pop(d, None)
            self.env[b] = NAT
            body = self.block(rest, kont)
            return self.wrap(pre, f'let {lname(d)} : Val := (Py.Tl.dictSet {lname(d)} {k} {v}.1)\nlet {lname(b)} : Nat := {v}.2\n{body}')
        if len(tg.elts) != 2 or not all(isinstance(x, ast.Name) for x in tg.elts):
            raise Untranslatable('tuple assignment shape')
        v, t = self.expr(s.value)
        if t != 'Pair':
            raise Untranslatable(f'unpacking of a {t}')
        pre = self.take_pre()
        a, b = tg.elts[0].id, tg.elts[1].id
        for n in (a, b):
            self.key_of_target(ast.Name(id=n, ctx=ast.Store()))
            self.facts.pop(n, None)
        self.env[a], self.env[b] = DYN, NAT
        body = self.block(rest, kont)
        return self.wrap(pre, f'let {lname(a)} : Val := {v}.1\nlet {lname(b)} : Nat := {v}.2\n{body}')

    def let(self, pre, name, v, t, rest, kont):
        if name.startswith('self_') and self.iface.get('attr_coerce'):
            co = self.iface['attr_coerce'].get((t, self.attr_type(name[5:])))
            if co is not None:                   # declared domain of the attribute: anything else = raises (outside the model)
                self.pre = list(pre)
                v, t = self.hoist(co.format(v), name[5:]), self.attr_type(name[5:])
                pre = self.take_pre()
        want = self.iface.get('locals', {}).get(name)
        if want is not None and t != want:
            if t == NONE and is_opt(want):
                v, t = 'none', want
            elif is_opt(want) and t == opt_of(want):
                v, t = f'(some {v})', want
            else:
                raise Untranslatable(f'{name} is assigned a {t}, declared {want}')
        if self.env.get(name) == DYN and t != DYN:
            v, t = inject(v, t), DYN
        self.facts.pop(name, None)
        return super().let(pre, name, v, t, rest, kont)

    def if_(self, s, rest, kont):
        t0 = s.test
        if (self.iface.get('none_narrowing') and isinstance(t0, ast.Compare) and len(t0.ops) == 1 and isinstance(t0.ops[0], ast.Is)
                and isinstance(t0.left, ast.Name) and isinstance(t0.comparators[0], ast.Constant) and t0.comparators[0].value is None
                and is_opt(self.env.get(t0.left.id, '')) and not s.orelse and not self.loops):
            # `if x is None: ...` on an Optional local: a case distinction; afterwards x is the value itself on the second path
            x = t0.left.id
            env0, facts0 = dict(self.env), dict(self.facts)
            a = par(self.block(list(s.body) + list(rest), kont))
            self.env, self.facts = dict(env0), dict(facts0)
            self.env[x] = opt_of(env0[x])
            b = par(self.block(list(rest), kont))
            return f'match {lname(x)} with\n| none =>\n{a}\n| some {lname(x)} =>\n{b}'
        st = self.static_isinstance(s.test)
        if st is not None:                       # dead branch of an isinstance test on a statically typed value
            return self.block(list(s.body if st else s.orelse) + list(rest), kont)
        c = self.truth(self.expr(s.test))
        pre = self.take_pre()
        ft_a, ft_b = falls_through(s.body), falls_through(s.orelse)
        env0, facts0 = dict(self.env), dict(self.facts)
        new = self.facts_of(s.test)

        def branch(stmts, k, narrowed):
            self.env = dict(env0)
            self.facts = dict(facts0)
            if narrowed:
                self.facts.update(new)
            try:
                return par(self.block(stmts, k))
            finally:
                self.facts = dict(facts0)

        jump = nested_jump(s.body) or nested_jump(s.orelse)
        if (self.lift and not self.probing and rest and jump and ft_a and ft_b and self.loops and kont is self.loops[-1]
                and not nested_jump_return(list(s.body) + list(s.orelse))):
            # both branches continue with the same statements: these become ONE separate definition instead of two copies
            call = self.rest_def(s, list(rest), kont, env0)
            a = branch(list(s.body), call, True)
            b = branch(list(s.orelse), call, False)
            return self.wrap(pre, f'if {c} then\n{a}\nelse\n{b}')
        if not rest or jump or not (ft_a and ft_b):
            # the statements after the `if` run without the narrowing of its test
            if rest and ft_a and new:
                a = self.branch_then_rest(s.body, rest, kont, env0, facts0, new)
            else:
                a = branch(list(s.body) + (list(rest) if ft_a else []), kont, True)
            b = branch(list(s.orelse) + (list(rest) if ft_b else []), kont, False)
            if a == 'none' and b == 'none':
                return self.wrap(pre, 'none')
            return self.wrap(pre, f'if {c} then\n{a}\nelse\n{b}')
        M = self.assigned(list(s.body) + list(s.orelse))
        ends = []

        def probe():
            ends.append(dict(self.env))
            return '_'
        f0 = self.fresh
        self.probing += 1
        try:
            branch(s.body, probe, True)
            branch(s.orelse, probe, False)
        finally:
            self.probing -= 1
        self.fresh = f0
        J = {}
        for m in M:
            t = None
            for i, e in enumerate(ends):
                t = e.get(m) if i == 0 else pybytes.join(t, e.get(m))
            J[m] = POISON if t is None else t
        passed = sorted(m for m in M if J[m] != POISON)

        def pack():
            vals = [pybytes.coerce(m, self.env[m], J[m]) for m in passed]
            return 'some (' + ', '.join(vals) + ')' if vals else 'some ()'
        a = branch(s.body, pack, True)
        b = branch(s.orelse, pack, False)
        self.env = dict(env0)
        self.facts = {k: v for k, v in facts0.items() if k not in M}
        for m in M:
            self.env[m] = J[m]
        r = self.block(rest, kont)
        pat = ', '.join(lname(m) for m in passed) if passed else '_u'
        ty = ' × '.join(tpar(self.prog.lean_ty(J[m])) for m in passed) if passed else 'Unit'
        return self.wrap(pre, f'(if {c} then\n{a}\nelse\n{b}).bind fun (({pat}) : {ty}) =>\n{r}')

    def branch_then_rest(self, body, rest, kont, env0, facts0, new):
        """the true branch falls through into the copied rest: the narrowing ends where the rest begins"""
        self.env = dict(env0)
        self.facts = dict(facts0)
        self.facts.update(new)

        def after():
            self.facts = {k: v for k, v in self.facts.items() if k in facts0 and facts0[k] == v}
            return self.block(list(rest), kont)
        try:
            return par(self.block(list(body), after))
        finally:
            self.facts = dict(facts0)

    # ------------------------------------------------------------------ loops as separate definitions (iface['lift'])
    def free_locals(self, nodes, exclude):
        names = set()
        for s in nodes:
            for n in ast.walk(s):
                if isinstance(n, ast.Name):
                    names.add(n.id)
        return sorted(k for k in names if k in self.env and self.env[k] != POISON and not k.startswith('self_') and k not in exclude)

    def scoped(self, keep, f):
        """run f with the environment restricted to the names `keep` (+ the attributes of self), without narrowing facts"""
        saved_env, saved_facts = self.env, self.facts
        self.env = {k: v for k, v in saved_env.items() if k.startswith('self_') or k in keep}
        self.facts = {}
        try:
            return f()
        finally:
            for k, v in self.env.items():
                if k.startswith('self_') and k not in saved_env:
                    saved_env[k] = v
            self.env, self.facts = saved_env, saved_facts

    def loop_fn(self, node, state, env0, x, xt, loop_env, prefix, has_brk):
        """the body of a loop as a Lean function  state -> [element ->] Option state ; -> (function text, pattern, type, initial state)"""
        if has_brk and ('brk' in self.env or 'brk' in loop_env):
            raise Untranslatable('a local named brk')
        names = (['brk'] if has_brk else []) + [lname(k) for k in state]
        tys = (['Bool'] if has_brk else []) + [tpar(self.prog.lean_ty(env0[k])) for k in state]
        pat = ', '.join(names) if names else '_u'
        ty = ' × '.join(tys) if tys else 'Unit'
        init = '(' + ', '.join((['false'] if has_brk else []) + [lname(k) for k in state]) + ')' if names else '()'

        def pack(brk='false'):
            vals = [brk] if has_brk else []
            for k in state:
                if self.env.get(k) != env0[k]:
                    raise Untranslatable(f'{k} changes its type in the loop body ({env0[k]} -> {self.env.get(k)})')
                vals.append(lname(k))
            return 'some (' + ', '.join(vals) + ')' if vals else 'some ()'

        def run():
            self.env.update(loop_env)
            for k in state:
                self.facts.pop(k, None)
            self.loops.append(pack)
            self.breaks.append((lambda: pack('true')) if has_brk else None)
            old, self.kont_ty = self.kont_ty, ty
            try:
                return self.block(list(node.body), pack)
            finally:
                self.loops.pop()
                self.breaks.pop()
                self.kont_ty = old
        binder = f'(({pat}) : {ty})' + (f' ({lname(x)} : {self.prog.lean_ty(xt)})' if x is not None else '')
        if not self.lift or self.probing:
            env1, facts1 = dict(self.env), dict(self.facts)
            try:
                body = run()
            finally:
                self.env, self.facts = env1, facts1
            return f'(fun {binder} =>\n{indent(prefix + body)})', pat, ty, init
        free = self.free_locals(list(node.body) + ([node.test] if isinstance(node, ast.While) else []), set(state) | set(loop_env) | ({x} if x else set()))
        sig = [(k, self.env[k]) for k in free]
        hit = self.lift_cache.get(id(node))
        if hit is not None:
            if hit[1] != (sig, ty):
                raise Untranslatable('a loop reached on two paths with different types of its variables')
            name = hit[0]
        else:
            self.lift_n['loop'] += 1
            name = f'{self.lean}_loop{self.lift_n["loop"]}'
            self.lift_cache[id(node)] = (name, (sig, ty))
            body = self.scoped(set(free) | set(state), run)
            params = ' '.join(f'({lname(k)} : {self.prog.lean_ty(t)})' for k, t in sig)
            fty = f'({ty}) → ' + (f'{tpar(self.prog.lean_ty(xt))} → ' if x is not None else '') + f'Option ({ty})'
            self.lifted.append((name, f'def {name} ⟪PD⟫ {params} : {fty} :=\n  fun {binder} =>\n{indent(prefix + body)}\n'))
        return '(' + ' '.join([name, '⟪PA⟫'] + [lname(k) for k in free]) + ')', pat, ty, init

    def rest_def(self, node, rest, kont, env0):
        """the statements after an `if` whose branches both reach them (inside a loop body) -> a continuation calling ONE definition"""
        keep = sorted(k for k, t in env0.items() if not k.startswith('self_') and t != POISON)
        sig = [(k, env0[k]) for k in keep]
        hit = self.lift_cache.get(id(node))
        if hit is not None:
            if hit[1] != (sig, self.kont_ty):
                raise Untranslatable('a statement reached on two paths with different types of its variables')
            name = hit[0]
        else:
            self.lift_n['rest'] += 1
            name = f'{self.lean}_rest{self.lift_n["rest"]}'
            self.lift_cache[id(node)] = (name, (sig, self.kont_ty))
            outer = dict(self.env)
            self.env = dict(env0)
            try:
                body = self.scoped(set(keep), lambda: self.block(list(rest), kont))
            finally:
                self.env = outer
            params = ' '.join(f'({lname(k)} : {self.prog.lean_ty(t)})' for k, t in sig)
            self.lifted.append((name, f'def {name} ⟪PD⟫ {params} : Option ({self.kont_ty}) :=\n{indent(body)}\n'))

        def call():
            for k, t in sig:
                if self.env.get(k) != t:
                    raise Untranslatable(f'{k} has type {self.env.get(k)} on one path and {t} on another')
            return ' '.join([name, '⟪PA⟫'] + [lname(k) for k in keep])
        return call

    def while_(self, s, rest, kont):
        if s.orelse:
            raise Untranslatable('while ... else')
        self.uses_while = True
        has_brk = any(isinstance(n, ast.Break) for n in ast.walk(s))
        if any(isinstance(n, (ast.While, ast.For)) for b in s.body for n in ast.walk(b)):
            raise Untranslatable('a loop inside a while loop')
        pre = self.take_pre()
        A = self.assigned(s.body)
        state = sorted(k for k in A if k in self.env)
        for k in state:
            if self.env[k] == POISON:
                raise Untranslatable(f'{k} is not defined on all paths reaching the loop that assigns it')
        env0, facts0 = dict(self.env), dict(self.facts)
        c = self.guarded(lambda: self.truth(self.expr(s.test)))
        if self.pre:
            raise Untranslatable('the loop condition can raise')
        fn, pat, ty, init = self.loop_fn(s, state, env0, None, None, {}, '', has_brk)
        self.env = dict(env0)
        self.facts = {k: v for k, v in facts0.items() if k not in state}
        for k in A:
            if k not in state:
                self.env[k] = POISON
        r = self.block(rest, kont)
        cond = f'(fun (({pat}) : {ty}) => {"!brk && " if has_brk else ""}decide {c})'
        return self.wrap(pre, f'(Py.while? {cond} {fn} while_fuel {init}).bind fun (({pat}) : {ty}) =>\n{r}')

    def for_lift(self, s, rest, kont):
        if s.orelse:
            raise Untranslatable('for ... else')
        it = s.iter
        prefix = ''
        if (isinstance(s.target, ast.Tuple) and len(s.target.elts) == 2 and all(isinstance(x, ast.Name) for x in s.target.elts)
                and isinstance(it, ast.Call) and isinstance(it.func, ast.Attribute) and it.func.attr == 'items' and not it.args and not it.keywords):
            xs, lt = self.unopt(self.expr(it.func.value), 'args')          # None.items() raises
            if lt != ARGS:
                raise Untranslatable(f'.items() of a {lt}')
            k, t = s.target.elts[0].id, s.target.elts[1].id
            x, xt = 'arg_item', 'Arg'
            prefix = f'let {lname(k)} : Nat := arg_item.name\nlet {lname(t)} : Py.Tl.TyS := Py.Tl.TyS.ofArg arg_item\n'
            loop_env = {k: NAME, t: TYS}
        elif isinstance(s.target, ast.Name) and isinstance(it, ast.Name) and self.env.get(it.id) == DYN and it.id not in self.facts:
            xs = self.hoist(f'Py.Tl.listItems? {lname(it.id)}', 'items')
            x, xt = s.target.id, DYN
            loop_env = {x: DYN}
        elif (isinstance(s.target, ast.Name) and isinstance(it, ast.Call) and isinstance(it.func, ast.Name) and it.func.id == 'range'
              and 'range' not in self.env and not it.keywords and len(it.args) == 1):
            xs = f'(List.range {self.index_nat(it.args[0], "range argument")})'
            x, xt = s.target.id, NAT
            loop_env = {x: NAT}
        else:
            raise Untranslatable(f'loop over {ast.unparse(it)[:40]}')
        for n in list(loop_env) + [x]:
            if self.env.get(n, POISON) != POISON or n in LEAN_RESERVED or n == 'H' or n.startswith('self_'):
                raise Untranslatable(f'loop variable {n} shadows a name')
        pre = self.take_pre()
        A = self.assigned(s.body)
        state = sorted(k for k in A if k in self.env and k not in loop_env)
        for k in state:
            if self.env[k] == POISON:
                raise Untranslatable(f'{k} is not defined on all paths reaching the loop that assigns it')
        env0, facts0 = dict(self.env), dict(self.facts)
        fn, pat, ty, init = self.loop_fn(s, state, env0, x, xt, loop_env, prefix, False)
        self.env = dict(env0)
        self.facts = {k: v for k, v in facts0.items() if k not in state}
        for k in A:
            if k not in state:
                self.env[k] = POISON
        for n in loop_env:
            self.env[n] = POISON
        r = self.block(rest, kont)
        return self.wrap(pre, f'(List.foldlM (m := Option) {fn} {init} {xs}).bind fun (({pat}) : {ty}) =>\n{r}')

    def for_(self, s, rest, kont):
        if self.lift:
            return self.for_lift(s, rest, kont)
        it = s.iter
        prefix = ''
        loop_env = {}
        if (isinstance(s.target, ast.Tuple) and len(s.target.elts) == 2 and all(isinstance(x, ast.Name) for x in s.target.elts)
                and isinstance(it, ast.Call) and isinstance(it.func, ast.Attribute) and it.func.attr == 'items' and not it.args and not it.keywords):
            xs, lt = self.expr(it.func.value)
            if lt != ARGS:
                raise Untranslatable(f'.items() of a {lt}')
            k, t = s.target.elts[0].id, s.target.elts[1].id
            x, xt = 'arg_item', 'Arg'
            prefix = f'let {lname(k)} : Nat := arg_item.name\nlet {lname(t)} : Py.Tl.TyS := Py.Tl.TyS.ofArg arg_item\n'
            loop_env = {k: NAME, t: TYS}
            names = [k, t]
        elif isinstance(s.target, ast.Name) and isinstance(it, ast.Name) and self.env.get(it.id) == DYN and it.id not in self.facts:
            xs = self.hoist(f'Py.Tl.listItems? {lname(it.id)}', 'items')
            x, xt = s.target.id, DYN
            loop_env = {x: DYN}
            names = [x]
        else:
            return super().for_(s, rest, kont)
        if s.orelse:
            raise Untranslatable('for ... else')
        for n in names + [x]:
            if self.env.get(n, POISON) != POISON or n in LEAN_RESERVED or n == 'H' or n.startswith('self_'):
                raise Untranslatable(f'loop variable {n} shadows a name')
        pre = self.take_pre()
        A = [k for k in self.assigned(s.body)]
        state = sorted(k for k in A if k in self.env and k not in loop_env)
        for k in state:
            if self.env[k] == POISON:
                raise Untranslatable(f'{k} is not defined on all paths reaching the loop that assigns it')
        env0, facts0 = dict(self.env), dict(self.facts)
        self.env.update(loop_env)
        for k in state:
            self.facts.pop(k, None)

        def pack():
            vals = []
            for k in state:
                if self.env.get(k) != env0[k]:
                    raise Untranslatable(f'{k} changes its type in the loop body ({env0[k]} -> {self.env.get(k)})')
                vals.append(lname(k))
            return 'some (' + ', '.join(vals) + ')' if vals else 'some ()'
        self.loops.append(pack)
        try:
            body = self.block(list(s.body), pack)
        finally:
            self.loops.pop()
        self.env = dict(env0)
        self.facts = {k: v for k, v in facts0.items() if k not in state}
        for k in A:
            if k not in state:
                self.env[k] = POISON
        for n in names:
            self.env[n] = POISON
        r = self.block(rest, kont)
        pat = ', '.join(lname(k) for k in state) if state else '_u'
        ty = ' × '.join(tpar(self.prog.lean_ty(env0[k])) for k in state) if state else 'Unit'
        init = '(' + ', '.join(lname(k) for k in state) + ')' if state else '()'
        return self.wrap(pre, f'(List.foldlM (m := Option) (fun (({pat}) : {ty}) ({lname(x)} : {self.prog.lean_ty(xt)}) =>\n{indent(prefix + body)}) {init} {xs}).bind '
                              f'fun (({pat}) : {ty}) =>\n{r}')

    def ret(self, s):
        if isinstance(s.value, ast.Tuple) and len(s.value.elts) == 2:
            a, b = self.expr(s.value.elts[0]), self.expr(s.value.elts[1])
            pre = self.take_pre()
            if self.ret_type not in (None, 'Pair'):
                raise Untranslatable('returns of different types')
            self.ret_type = 'Pair'
            return self.wrap(pre, f'some ({inject(*a)}, {self.as_nat(b, "the second component of the returned pair")})')
        return super().ret(s)

    def translate(self):
        body = self.block(list(self.fn.body), self.end)
        if self.ctor is not None:
            rt = self.ctor_struct
        elif not self.has_value_return or self.ret_type is None:
            raise Untranslatable(f'{self.fn.name}: no returned value')
        else:
            rt = self.prog.lean_ty(self.ret_type)
        ctx = self.iface.get('context', [])
        recs = [(f'rec_{n}', self.iface['rec'][n]) for n in self.iface.get('rec', {}) if n in self.used_rec]
        ps = [f'({n} : {t})' for n, t in ctx if n != 'H' or self.uses_H]
        for ln, d in recs:
            fty = ' → '.join([tpar(self.prog.lean_ty(t)) for _, t in d['params']] + [f'Option {tpar(self.prog.lean_ty(d["ret"]))}'])
            ps.append(f'({ln} : {fty})')
        if self.lift:
            # the context, the recursive callees, the loop budget and the attributes of self are the common parameters of the method
            # and of the definitions lifted out of it
            attrs = sorted((x for x in self.sig if x[0] == 'attr'), key=lambda x: x[2])
            common = ps + (['(while_fuel : Nat)'] if self.uses_while else []) + [f'({ln} : {self.prog.lean_ty(t)})' for _, _, ln, t in attrs]
            names = [n for n, _ in ctx if n != 'H' or self.uses_H] + [ln for ln, _ in recs] + (['while_fuel'] if self.uses_while else []) + [ln for _, _, ln, _ in attrs]
            fill = lambda txt: txt.replace('⟪PD⟫', ' '.join(common)).replace('⟪PA⟫', ' '.join(names))
            args = [f'({ln} : {self.prog.lean_ty(t)})' for k, _, ln, t in self.sig if k != 'attr']
            doc = pybytes.doc_of(self.fn, f'{self.prog.src}: {self.owner}.{self.fn.name}')
            text = fill(f'{doc}def {self.lean} {" ".join(common + args)} : Option ({rt}) :=\n{indent(body)}\n')
            return dict(lean=self.lean, sig=self.sig, ret=self.ret_type, mutated=[], text=text, rec=[n for n, _ in recs],
                        lifted=[(n, fill(t)) for n, t in self.lifted], common=names)
        sig = [x for x in self.sig if x[0] != 'attr'] + sorted((x for x in self.sig if x[0] == 'attr'), key=lambda x: x[2])   # canonical order
        ps += [f'({ln} : {self.prog.lean_ty(t)})' for k, _, ln, t in sig]
        doc = pybytes.doc_of(self.fn, f'{self.prog.src}: {self.owner}.{self.fn.name}')
        text = f'{doc}def {self.lean} {" ".join(ps)} : Option ({rt}) :=\n{indent(body)}\n'
        return dict(lean=self.lean, sig=self.sig, ret=self.ret_type, mutated=[], text=text, rec=[n for n, _ in recs])
