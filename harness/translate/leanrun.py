"""One shared way to run a Lean EVALUATION subprocess (translator validation, regenerated-vs-model search): under an address-space cap and
a wall-clock timeout.  A regenerated definition of a MUTATED source may allocate without bound (e.g. a header parser that lost a length check
builds a root list of 2^56 entries); that must end as a failed validation (tie lost / broken obligation), never as an out-of-memory of the
machine.  Exceeding the cap makes Lean abort (no `VAL` lines -> the callers raise RuntimeError); exceeding the timeout raises
subprocess.TimeoutExpired; both are caught by the callers' `except Exception` and reported as validation failures."""
import os
import resource
import subprocess

MEM_CAP = int(os.environ.get('VERIF_LEAN_MEM_CAP', 6 * 1024 ** 3))      # bytes of address space
TIMEOUT = int(os.environ.get('VERIF_LEAN_TIMEOUT', 300))                # seconds


def _limit():
    try:
        resource.setrlimit(resource.RLIMIT_AS, (MEM_CAP, MEM_CAP))
    except (ValueError, OSError):
        pass


def run_lean(file, cwd, timeout=None, mem_cap=True):
    """`lake env lean <file>` in `cwd` -> CompletedProcess (capture_output, text)."""
    # `-j 1`: every Lean worker thread reserves its stack in the address space; with the default thread count the cap would have to be > 8 GiB
    return subprocess.run(['lake', 'env', 'lean', '-j', '1', file], cwd=cwd, capture_output=True, text=True, timeout=timeout or TIMEOUT,
                          preexec_fn=_limit if mem_cap else None)
