"""Round-2 groups of source-regenerated decision lines (C09, C11, C12, C13, C14, C15, C17, C19).

Registers its GROUPS in `arith.GROUPS` (same machinery: one Generated/<Group>.lean per group, per-run translator validation,
`search_points`).  Importing this module is enough; `regenerator` / `search_points` are re-exported for the property files.
See design/translators.md, section "Round 2".
"""
from . import arith
from .arith import T, N, Z, B

BY = 'Bytes'

WEIGHTS = sorted(set(list(range(0, 13)) + [2 ** 63 - 1, 2 ** 63, 2 ** 64 - 1, 2 ** 64, 3 * 2 ** 63, 2 ** 65 - 2, 2 ** 65 - 1]))
FLAG = [False, True]

H1, H2 = bytes(range(32)), bytes([7] * 32)
HASHES = [H1, H2, H1[:31], H1 + b'\x00', b'']
PROOF_DATA = [b'', b'\x03' + H1 + b'\x00\x05', b'\x03' + H1 + b'\x05\x00', b'\x03' + H2 + b'\x00\x05', b'\x04' + H1 + b'\x00\x05',
              b'\x03' + H1 + b'\x00\x05\x00', b'\x03' + H1 + b'\x00', b'\x03' + H1 + b'\x01\x00', H1 + b'\x03\x00\x05']
UPDATE_DATA = [b'', b'\x04' + H2 + H1 + b'\x00\x01\x00\x02', b'\x04' + H1 + H2 + b'\x00\x01\x00\x02', b'\x04' + H2 + H1, b'\x04' + H2 + H1[:31],
               b'\x04' + H1 + H1 + b'\x00\x01\x00\x02', H2 + H1 + b'\x04\x00\x01\x00\x02']
KINDS = [-1, 0, 1, 2, 3, 4, 5]
TL_DATA = [b'', b'\x00', b'\x03abc', b'\x05abcde\x00\x00', b'\xfe\x00\x01\x00' + bytes(256), b'\xfe\x02\x00\x00ab\x00\x00', b'\xfe', b'\xfe\x01',
           b'\xfd' + bytes(range(253)) + b'\x00\x00', b'zz\xfe\x05\x00\x00hello\x00\x00\x00', b'q\x02hi\x00', b'\x01\xfe\xfe\x01\x00\x00\x09']
CP = 'pytoniq_core/proof/check_proof.py'

GROUPS2 = {
    # ------------------------------------------------------------------ C12
    'SigCheck': dict(
        src='pytoniq_core/proof/check_proof.py', imports=[], ref_imports=[],
        targets=[
            T('sigAccept', None, 'check_block_signatures', ('match', 'if __X__:\n    return'),
              {'signed_weight': ('signed', N), 'total_weight': ('total', N)}, ['signed', 'total'], ret='Bool',
              ref='decide (signed * 3 > total * 2)', grid={'signed': WEIGHTS, 'total': WEIGHTS}),
            T('sigUnknown', None, 'check_block_signatures', ('raise_if', 'cannot find node_id_short'),
              {'node is None': ('missing', B)}, ['missing'], ret='Bool', ref='missing', grid={'missing': FLAG}),
            T('sigDuplicate', None, 'check_block_signatures', ('raise_if', 'duplicate signature'),
              {'node_id in seen': ('seen', B)}, ['seen'], ret='Bool', ref='seen', grid={'seen': FLAG}),
            T('sigInvalid', None, 'check_block_signatures', ('raise_if', 'invalid signature'),
              {'result': ('ok', B)}, ['ok'], ret='Bool', ref='(!ok)', grid={'ok': FLAG}),
        ]),
    # ------------------------------------------------------------------ C11
    'ProofChecks': dict(
        src=CP, imports=['TonVerif.PyBytes2'], ref_imports=[],
        targets=[
            T('cellTypeMerkleProof', 'CellTypes', None, ('class_attr', 'merkle_proof'), {}, [], ref='3', file='pytoniq_core/boc/exotic.py'),
            T('cellTypeMerkleUpdate', 'CellTypes', None, ('class_attr', 'merkle_update'), {}, [], ref='4', file='pytoniq_core/boc/exotic.py'),
            T('proofWrongType', None, 'check_proof', ('raise_if', 'Expected Merkle proof Cell'),
              {'cell.type_': ('ty', Z), 'CellTypes.merkle_proof': ('mp', N)}, ['ty', 'mp'], ret='Bool',
              ref='decide (ty ≠ (mp : Int))', grid={'ty': KINDS, 'mp': [3, 4]}),
            T('proofWrongStoredHash', None, 'check_proof', ('raise_if', 'Provided invalid hash'),
              {'cell.data': ('data', BY), 'hash_': ('h', BY)}, ['data', 'h'], ret='Bool',
              ref='decide (Model.pySlice data 1 33 ≠ h)', grid={'data': PROOF_DATA, 'h': HASHES}),
            T('proofWrongChildHash', None, 'check_proof', ('raise_if', 'Merkle proof is invalid'),
              {'cell[0].get_hash(0)': ('h0', BY), 'hash_': ('h', BY)}, ['h0', 'h'], ret='Bool',
              ref='decide (h0 ≠ h)', grid={'h0': HASHES, 'h': HASHES}),
            T('proofMalformed', None, 'check_proof', ('raise_if', 'Malformed Merkle proof cell'),
              {'len(cell.refs)': ('refs', N), 'len(cell.bits)': ('bits', N), 'cell.data': ('data', BY), 'hash_': ('h', BY),
               'cell[0].get_depth(0)': ('d0', N)}, ['refs', 'bits', 'data', 'h', 'd0'], ret='Bool',
              ref='decide (refs ≠ 1 ∨ bits ≠ 280 ∨ data ≠ [3] ++ h ++ natToBE 2 d0)', guard='d0 < 65536',
              # <= 300 points, so that the per-run translator validation sees every one of them
              grid={'refs': [0, 1, 2], 'bits': [277, 280, 281], 'data': PROOF_DATA[1:6], 'h': HASHES[:2], 'd0': [5, 1280, 65536]}),
            T('hdrWrongHash', None, 'check_block_header_proof', ('raise_if', 'hashes unmatch'),
              {'root_hash': ('rh', BY), 'block_hash': ('bh', BY)}, ['rh', 'bh'], ret='Bool',
              ref='decide (rh ≠ bh)', grid={'rh': HASHES, 'bh': HASHES}),
            T('hdrStateUncommitted', None, 'check_block_header_proof', ('raise_if', 'does not commit to the state hash'),
              {'state_update.type_': ('ty', Z), 'CellTypes.merkle_update': ('mu', N), 'state_update.data': ('data', BY), 'state_hash': ('sh', BY)},
              ['ty', 'mu', 'data', 'sh'], ret='Bool',
              ref='decide (ty ≠ (mu : Int) ∨ Model.pySlice data 33 65 ≠ sh)', grid={'ty': KINDS, 'mu': [3, 4], 'data': UPDATE_DATA, 'sh': HASHES}),
            T('acctWrongRootCount', None, 'check_account_proof', ('raise_if', 'expected 2 root cells'),
              {'len(proof_cells)': ('n', N)}, ['n'], ret='Bool', ref='decide (n ≠ 2)', grid={'n': list(range(0, 8))}),
            T('acctStateMismatch', None, 'check_account_proof', ('raise_if', 'state hashes mismatch'),
              {'state_cell[0].get_hash(0)': ('h0', BY), 'state_hash': ('sh', BY)}, ['h0', 'sh'], ret='Bool',
              ref='decide (h0 ≠ sh)', grid={'h0': HASHES, 'sh': HASHES}),
            T('acctWrongAccount', None, 'check_account_proof', ('raise_if', 'account state proof invalid'),
              {'account_state_root_proved[0].get_hash(0)': ('h0', BY), 'account_state_root.hash': ('ah', BY)}, ['h0', 'ah'], ret='Bool',
              ref='decide (h0 ≠ ah)', grid={'h0': HASHES, 'ah': HASHES}),
            T('shardSame', None, 'check_shard_proof', ('early_return',), {'blk == shrd_blk': ('same', B)}, ['same'], ret='Bool',
              ref='same', grid={'same': FLAG}),
            T('shardNotMasterchain', None, 'check_shard_proof', ('raise_if', 'expected masterchain block'),
              {'blk.workchain': ('wc', Z)}, ['wc'], ret='Bool', ref='decide (wc ≠ -1)', grid={'wc': [-2, -1, 0, 1, 255]}),
            T('shardWrongRootCount', None, 'check_shard_proof', ('raise_if', 'expected 2 root cells'),
              {'len(shard_proof_cells)': ('n', N)}, ['n'], ret='Bool', ref='decide (n ≠ 2)', grid={'n': list(range(0, 8))}),
            T('shardStateMismatch', None, 'check_shard_proof', ('raise_if', 'mc state hashes mismatch'),
              {'mc_state_hash': ('mh', BY), 'state_hash': ('sh', BY)}, ['mh', 'sh'], ret='Bool',
              ref='decide (mh ≠ sh)', grid={'mh': HASHES, 'sh': HASHES}),
        ]),
    # ------------------------------------------------------------------ C13
    'AddrTags': dict(
        src='pytoniq_core/boc/address.py', imports=[], ref_imports=[],
        targets=[
            T('addrTag', 'Address', 'to_str', ('stmts', 'tag = __ANY1__', 'if is_test_only:\n    ...', 'tag'),
              {'is_bounceable': ('bounceable', B), 'is_test_only': ('testOnly', B)}, ['bounceable', 'testOnly'],
              ref='(if testOnly then (if bounceable then 0x11 else 0x51) ||| 0x80 else (if bounceable then 0x11 else 0x51))',
              grid={'bounceable': FLAG, 'testOnly': FLAG}),
            T('b64TestOnly', 'Address', 'is_b64', ('stmts', 'tag = __ANY1__', 'if __ANY2__:\n    self.is_bounceable = True', 'self.is_test_only'),
              {'decoded[0]': ('tag0', N), 'self.is_test_only': ('t0', B), 'self.is_bounceable': ('b0', B)}, ['tag0', 't0', 'b0'], ret='Bool',
              ref='(t0 || (tag0 &&& 0x80) != 0)', grid={'tag0': list(range(256)), 't0': FLAG, 'b0': [False]}),
            T('b64Bounceable', 'Address', 'is_b64', ('stmts', 'tag = __ANY1__', 'if __ANY2__:\n    self.is_bounceable = True', 'self.is_bounceable'),
              {'decoded[0]': ('tag0', N), 'self.is_test_only': ('t0', B), 'self.is_bounceable': ('b0', B)}, ['tag0', 't0', 'b0'], ret='Bool',
              ref='(b0 || (if (tag0 &&& 0x80) != 0 then tag0 ^^^ 0x80 else tag0) == 0x11)', grid={'tag0': list(range(256)), 't0': [False], 'b0': FLAG}),
        ]),
    # ------------------------------------------------------------------ C09
    'DictKey': dict(
        src='pytoniq_core/boc/hashmap/hashmap.py', imports=[], ref_imports=[],
        targets=[
            T('keyRejected', 'HashMap', 'set_int_key', ('raise_if', 'Key sizes must be the same'),
              {'int_key': ('key', Z), 'self.size': ('size', N)}, ['key', 'size'], ret='Bool',
              ref='decide (key < 0 ∨ Model.bitLength key.natAbs > size)',
              grid={'key': [v for v in arith.SIGNED if abs(v) < 2 ** 70][:140], 'size': [0, 1, 2, 3, 7, 8, 9, 16, 31, 32, 33, 63, 64, 65, 256, 257, 1023]}),
        ]),
    # ------------------------------------------------------------------ C17
    'VmStackTests': dict(
        src='pytoniq_core/tlb/vm_stack.py', imports=[], ref_imports=[],
        targets=[
            T('tinyIntFits', 'VmStackValue', 'serialize', ('match', "if __X__:\n    builder.store_bytes(b'\\x01')\n    ...\nelse:\n    ..."),
              {'value': ('value', Z)}, ['value'], ret='Bool',
              ref='decide (-(2 ^ 63 : Int) ≤ value ∧ value < (2 ^ 63 : Int))',
              grid={'value': [v for v in arith.SIGNED if 2 ** 60 <= abs(v) + 2 < 2 ** 67] + [0, 1, -1, 2 ** 256, -2 ** 256]}),
            T('cellSliceBitsBad', 'VmCellSlice', 'deserialize', ('raise_if', 'st_bits'),
              {'st_bits': ('st', N), 'end_bits': ('en', N)}, ['st', 'en'], ret='Bool', ref='decide (¬ st ≤ en)',
              grid={'st': [0, 1, 2, 511, 512, 1022, 1023], 'en': [0, 1, 2, 511, 512, 1022, 1023]}),
            T('cellSliceRefsBad', 'VmCellSlice', 'deserialize', ('raise_if', 'st_ref'),
              {'st_ref': ('sr', N), 'end_ref': ('er', N)}, ['sr', 'er'], ret='Bool', ref='decide (¬ sr ≤ er)',
              grid={'sr': list(range(8)), 'er': list(range(8))}),
        ]),
    # ------------------------------------------------------------------ C14 / C19
    'TlFraming': dict(
        src='pytoniq_core/tl/generator.py', imports=['TonVerif.PyBytes2'], ref_imports=['TonVerif.Model.Tl'],
        targets=[
            # --- serialize_field, bytes / string
            T('tlShortLen', 'TlSchemas', 'serialize_field',
              ('match', "if __X__:\n    temp += __ANY1__\nelse:\n    temp += __ANY2__"),
              {'bytes_len': ('n', N)}, ['n'], ret='Bool', ref='decide (n ≤ 253)', grid={'n': arith.LENS}),
            T('tlShortHeader', 'TlSchemas', 'serialize_field', ('match', "if __ANY0__:\n    temp += __X__\nelse:\n    temp += __ANY1__"),
              {'bytes_len': ('n', N)}, ['n'], ret=BY, ref='Spec.Tl.natToLE 1 n', guard='n < 256', grid={'n': arith.LENS}),
            T('tlLongHeader', 'TlSchemas', 'serialize_field', ('match', "if __ANY0__:\n    temp += __ANY1__\nelse:\n    temp += __X__"),
              {'bytes_len': ('n', N)}, ['n'], ret=BY, ref='254 :: Spec.Tl.natToLE 3 n', guard='n < 16777216',
              grid={'n': arith.LENS + [2 ** 16 - 1, 2 ** 16 + 5, 2 ** 24 - 1, 2 ** 24]}),
            T('tlPad', 'TlSchemas', 'serialize_field', ('stmts', "if __ANY0__:\n    temp += __ANY1__", "if __ANY0__:\n    temp += __ANY1__", 'temp'),
              {'temp': ('temp', BY)}, ['temp'], ret=BY,
              ref='(if temp.length % 4 ≠ 0 then temp ++ List.replicate (4 - temp.length % 4) 0 else temp)',
              grid={'temp': [bytes(range(1, k + 1)) for k in range(0, 14)] + [bytes(254), bytes(255), bytes(256), bytes(257)]}),
            # --- deserialize, bytes / string: header (long/short form), then the skip over content and padding
            T('tlHdrLong', 'TlSchemas', 'deserialize', ('match', "if __X__:\n    byte_len = int.from_bytes(__ANY1__, 'little')\n    ...\nelse:\n    ..."),
              {'data': ('data', BY), 'i': ('i', N)}, ['data', 'i'], ret='Bool',
              ref='decide (Model.pySlice data i (i + 1) = [254])', grid={'data': TL_DATA, 'i': [0, 1, 2, 3, 4, 5, 9]}),
            T('tlHdrLen', 'TlSchemas', 'deserialize', ('stmts', "if __ANY0__:\n    byte_len = int.from_bytes(__ANY1__, 'little')\n    ...\nelse:\n    ...",
                                                       "if __ANY0__:\n    byte_len = int.from_bytes(__ANY1__, 'little')\n    ...\nelse:\n    ...", 'byte_len'),
              {'data': ('data', BY), 'i': ('i', N)}, ['data', 'i'],
              ref='(Model.Tl.readFrame (data.drop i)).2.1', grid={'data': TL_DATA, 'i': [0, 1, 2, 3, 4, 5, 9]}),
            T('tlHdrAttach', 'TlSchemas', 'deserialize', ('stmts', "if __ANY0__:\n    byte_len = int.from_bytes(__ANY1__, 'little')\n    ...\nelse:\n    ...",
                                                          "if __ANY0__:\n    byte_len = int.from_bytes(__ANY1__, 'little')\n    ...\nelse:\n    ...", 'attach_len'),
              {'data': ('data', BY), 'i': ('i', N)}, ['data', 'i'],
              ref='(if Model.pySlice data i (i + 1) = [254] then 4 else 1)', grid={'data': TL_DATA, 'i': [0, 1, 2, 3, 4, 5, 9]}),
            T('tlHdrNext', 'TlSchemas', 'deserialize', ('stmts', "if __ANY0__:\n    byte_len = int.from_bytes(__ANY1__, 'little')\n    ...\nelse:\n    ...",
                                                        "if __ANY0__:\n    byte_len = int.from_bytes(__ANY1__, 'little')\n    ...\nelse:\n    ...", 'i'),
              {'data': ('data', BY), 'i': ('i', N)}, ['data', 'i'],
              ref='(i + (if Model.pySlice data i (i + 1) = [254] then 4 else 1))', grid={'data': TL_DATA, 'i': [0, 1, 2, 3, 4, 5, 9]}),
            T('tlSkip', 'TlSchemas', 'deserialize', ('stmts', 'i += byte_len', "if __ANY1__:\n    ...", 'i'),
              {'i': ('i', N), 'byte_len': ('n', N), 'attach_len': ('a', N)}, ['i', 'n', 'a'],
              ref='(i + n + (if (n + a) % 4 ≠ 0 then 4 - (n + a) % 4 else 0))',
              grid={'i': [0, 1, 4, 5, 100], 'n': list(range(0, 14)) + [253, 254, 255, 256, 65535, 65536], 'a': [0, 1, 2, 3, 4, 5]}),
            # --- deserialize, vector: the length guard of fix 110bf4a (Python ints: `len(data) - i` may be negative)
            T('tlVecTooLong', 'TlSchemas', 'deserialize', ('raise_if', 'vector length'),
              {'length': ('length', N), 'len(data)': ('total', Z), 'i': ('i', Z)}, ['length', 'total', 'i'], ret='Bool',
              ref='decide ((length : Int) > total - i)', grid={'length': [0, 1, 2, 3, 4, 5, 8, 2 ** 22, 2 ** 32 - 1], 'total': [0, 1, 3, 4, 5, 8, 12, 2 ** 22 + 4],
                                                              'i': [0, 1, 4, 5, 8, 9, 12, 13, 16]}),
        ]),
    # ------------------------------------------------------------------ C15
    'MsgLayout': dict(
        src='pytoniq_core/tlb/transaction.py', imports=[], ref_imports=[],
        targets=[
            T('msgInitInline', 'MessageAny', 'serialize',
              ('stmts', 'bits_left = __ANY1__', 'body_fits = __ANY2__',
               ('match', "if __X__:\n    builder.store_bit(0)\n    builder.store_cell(init_cell)\nelse:\n    ...")),
              {'builder.available_bits': ('ab', Z), 'builder.available_refs': ('ar', Z), 'len(init_cell.bits)': ('ib', N),
               'len(init_cell.refs)': ('ir', N), 'len(self.body.bits)': ('bb', N), 'self.body.refs': ('br', N), 'len(self.body.refs)': ('br', N)},
              ['ab', 'ar', 'ib', 'ir', 'bb', 'br'], ret='Bool',
              ref='(decide (ab - 2 - (ib : Int) ≥ 0) && (decide (ar - (ir : Int) ≥ 1) || (decide (ar - (ir : Int) = 0) && decide (br = 0) && '
                  'decide ((bb : Int) ≤ ab - 2 - (ib : Int)))))',
              grid={'ab': [0, 1, 2, 3, 10, 11, 12, 500, 1021, 1022], 'ar': [0, 1, 2, 3, 4], 'ib': [0, 1, 5, 8, 9, 10, 498, 1021], 'ir': [0, 1, 2, 3, 4],
                    'bb': [0, 1, 2, 3, 4, 5, 6, 1023], 'br': [0, 1, 4]}),
            T('msgBodyInline', 'MessageAny', 'serialize',
              ('match', "if __X__:\n    builder.store_bit(0)\n    builder.store_cell(self.body)\nelse:\n    ..."),
              {'builder.available_bits': ('ab', Z), 'builder.available_refs': ('ar', Z), 'len(self.body.bits)': ('bb', N),
               'len(self.body.refs)': ('br', N)}, ['ab', 'ar', 'bb', 'br'], ret='Bool',
              ref='(decide ((bb : Int) ≤ ab - 1) && decide ((br : Int) ≤ ar))',
              grid={'ab': [0, 1, 2, 3, 500, 1021, 1022], 'ar': [0, 1, 2, 3, 4], 'bb': [0, 1, 2, 3, 499, 500, 1020, 1021, 1022, 1023], 'br': [0, 1, 2, 3, 4]}),
        ]),
}

arith.GROUPS.update(GROUPS2)

regenerator = arith.regenerator
search_points = arith.search_points
