"""Round-2 groups of source-regenerated decision lines (C09, C11, C12, C13, C14, C15, C17, C19).

Registers its GROUPS in `arith.GROUPS` (same machinery: one Generated/<Group>.lean per group, per-run translator validation,
`search_points`).  Importing this module is enough; `regenerator` / `search_points` are re-exported for the property files.
See design/translators.md, section "Round 2".
"""
from . import arith
from .arith import T, N, Z, B

BY = 'Bytes'

WEIGHTS = sorted(set(list(range(0, 13)) + [2 ** 63 - 1, 2 ** 63, 2 ** 64 - 1, 2 ** 64, 3 * 2 ** 63, 2 ** 65 - 2, 2 ** 65 - 1]))
FLAG = [False, True]

GROUPS2 = {
    # ------------------------------------------------------------------ C12
    'SigCheck': dict(
        src='pytoniq_core/proof/check_proof.py', imports=[], ref_imports=[],
        targets=[
            T('sigAccept', None, 'check_block_signatures', ('match', 'if __X__:\n    return'),
              {'signed_weight': ('signed', N), 'total_weight': ('total', N)}, ['signed', 'total'], ret='Bool',
              ref='decide (signed * 3 > total * 2)', grid={'signed': WEIGHTS, 'total': WEIGHTS}),
            T('sigUnknown', None, 'check_block_signatures', ('raise_if', 'cannot find node_id_short'),
              {'node is None': ('missing', B)}, ['missing'], ret='Bool', ref='missing', grid={'missing': FLAG}),
            T('sigDuplicate', None, 'check_block_signatures', ('raise_if', 'duplicate signature'),
              {'node_id in seen': ('seen', B)}, ['seen'], ret='Bool', ref='seen', grid={'seen': FLAG}),
            T('sigInvalid', None, 'check_block_signatures', ('raise_if', 'invalid signature'),
              {'result': ('ok', B)}, ['ok'], ret='Bool', ref='(!ok)', grid={'ok': FLAG}),
        ]),
}

arith.GROUPS.update(GROUPS2)

regenerator = arith.regenerator
search_points = arith.search_points
