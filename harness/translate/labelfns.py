"""Regenerates lean/TonVerif/Generated/LabelFns.lean from /repo/pytoniq_core/boc/hashmap/utils.py.

Translated functions (the label-length / label-kind decision of the dictionary serialiser):
    label_short_length, label_long_length, label_same_length, is_same, detect_label_type

Python subset (anything else raises Untranslatable):
  parameters : a parameter named `src` is a label = '0'/'1' string  -> List Bool; every other one is an int -> Nat
  statements : NAME = expr | return expr | if test: <stmts> [else: <stmts>]
               | for NAME in <bits expr>: if test: return CONST      (early-exit search loop)
               | docstrings
  expressions: non-negative int literals, True/False, the strings 'short'/'long'/'same' (-> LabelKind),
               names, a + b, len(x), x.bit_length(), x[INT], x[INT:], calls of the other translated functions,
               comparisons < <= > >= == !=, and / or / not
Python ints are unbounded and the subset has no subtraction, so Nat arithmetic is exact.
`x[i]` on a label becomes `x.getD i false`: the theorems only rely on it under the guards of the code.
"""
import ast
import os

from .pyexpr import Untranslatable
from .crc import write_if_changed
from ..paths import REPO, LEAN

FUNCS = ['label_short_length', 'label_long_length', 'label_same_length', 'is_same', 'detect_label_type']
RET = {'label_short_length': 'Nat', 'label_long_length': 'Nat', 'label_same_length': 'Nat', 'is_same': 'Bool',
       'detect_label_type': 'LabelKind'}
KINDS = {'short': 'LabelKind.short', 'long': 'LabelKind.long', 'same': 'LabelKind.same'}
CMP = {ast.Lt: '<', ast.LtE: '≤', ast.Gt: '>', ast.GtE: '≥'}


def tr(e):
    if isinstance(e, ast.Constant):
        if isinstance(e.value, bool):
            return 'true' if e.value else 'false'
        if isinstance(e.value, int):
            if e.value < 0:
                raise Untranslatable('negative literal')
            return str(e.value)
        if isinstance(e.value, str):
            if e.value in KINDS:
                return KINDS[e.value]
            raise Untranslatable(f'string constant {e.value!r}')
        raise Untranslatable('constant')
    if isinstance(e, ast.Name):
        return e.id
    if isinstance(e, ast.BinOp) and isinstance(e.op, ast.Add):
        return f'({tr(e.left)} + {tr(e.right)})'
    if isinstance(e, ast.BoolOp):
        op = ' || ' if isinstance(e.op, ast.Or) else ' && '
        return '(' + op.join(tr(v) for v in e.values) + ')'
    if isinstance(e, ast.UnaryOp) and isinstance(e.op, ast.Not):
        return f'(!{tr(e.operand)})'
    if isinstance(e, ast.Compare) and len(e.ops) == 1:
        a, b, op = tr(e.left), tr(e.comparators[0]), e.ops[0]
        if type(op) in CMP:
            return f'decide ({a} {CMP[type(op)]} {b})'
        if isinstance(op, ast.Eq):
            return f'({a} == {b})'
        if isinstance(op, ast.NotEq):
            return f'({a} != {b})'
        raise Untranslatable('comparison operator')
    if isinstance(e, ast.Call) and not e.keywords:
        if isinstance(e.func, ast.Name) and e.func.id == 'len' and len(e.args) == 1:
            return f'({tr(e.args[0])}).length'
        if isinstance(e.func, ast.Attribute) and e.func.attr == 'bit_length' and not e.args:
            return f'(bitLength {tr(e.func.value)})'
        if isinstance(e.func, ast.Name) and e.func.id in FUNCS:
            return '(' + ' '.join([e.func.id] + [tr(a) for a in e.args]) + ')'
        raise Untranslatable(f'call {ast.dump(e.func)[:60]}')
    if isinstance(e, ast.Subscript):
        s = e.slice
        if isinstance(s, ast.Constant) and isinstance(s.value, int) and s.value >= 0:
            return f'(({tr(e.value)}).getD {s.value} false)'
        if (isinstance(s, ast.Slice) and s.upper is None and s.step is None and isinstance(s.lower, ast.Constant)
                and isinstance(s.lower.value, int) and s.lower.value >= 0):
            return f'(({tr(e.value)}).drop {s.lower.value})'
        raise Untranslatable('subscript')
    raise Untranslatable(f'expression {ast.dump(e)[:80]}')


def has_return(stmts):
    for s in stmts:
        if isinstance(s, ast.Return):
            return True
        if isinstance(s, ast.If) and (has_return(s.body) or has_return(s.orelse)):
            return True
        if isinstance(s, ast.For):
            return True
    return False


def assigned(stmts, out=None):
    out = [] if out is None else out
    for s in stmts:
        if isinstance(s, ast.Assign):
            if len(s.targets) != 1 or not isinstance(s.targets[0], ast.Name):
                raise Untranslatable('assignment target')
            if s.targets[0].id not in out:
                out.append(s.targets[0].id)
        elif isinstance(s, ast.If):
            assigned(s.body, out)
            assigned(s.orelse, out)
        elif isinstance(s, ast.Expr) and isinstance(s.value, ast.Constant):
            pass
        else:
            raise Untranslatable(f'statement {type(s).__name__} in a branch')
    return out


def tup(vs):
    return vs[0] if len(vs) == 1 else '(' + ', '.join(vs) + ')'


def lets(stmts, defined, final):
    """straight-line statements without return, ending in the expression `final`"""
    if not stmts:
        return final
    s, rest = stmts[0], stmts[1:]
    if isinstance(s, ast.Expr) and isinstance(s.value, ast.Constant):
        return lets(rest, defined, final)
    if isinstance(s, ast.Assign):
        n = s.targets[0].id
        return f'(let {n} := {tr(s.value)}; {lets(rest, defined | {n}, final)})'
    if isinstance(s, ast.If):
        vs = [v for v in assigned(s.body + s.orelse) if v in defined]
        if not vs:
            return lets(rest, defined, final)
        t = tup(vs)
        return (f'(let {t} := (if {tr(s.test)} then {lets(s.body, defined, t)} else {lets(s.orelse, defined, t)}); '
                f'{lets(rest, defined, final)})')
    raise Untranslatable(f'statement {type(s).__name__}')


def block(stmts, defined):
    """statements that end by returning"""
    if not stmts:
        raise Untranslatable('function may fall off its end')
    s, rest = stmts[0], stmts[1:]
    if isinstance(s, ast.Expr) and isinstance(s.value, ast.Constant):
        return block(rest, defined)
    if isinstance(s, ast.Return):
        if s.value is None:
            raise Untranslatable('bare return')
        return tr(s.value)
    if isinstance(s, ast.Assign):
        if len(s.targets) != 1 or not isinstance(s.targets[0], ast.Name):
            raise Untranslatable('assignment target')
        n = s.targets[0].id
        return f'(let {n} := {tr(s.value)};\n    {block(rest, defined | {n})})'
    if isinstance(s, ast.If):
        if has_return(s.body) or has_return(s.orelse):
            if not (s.body and isinstance(s.body[-1], ast.Return)):
                raise Untranslatable('if-branch with a return must end in return')
            return f'(if {tr(s.test)} then {block(s.body, defined)}\n    else {block(s.orelse + rest, defined)})'
        vs = [v for v in assigned(s.body + s.orelse) if v in defined]
        if not vs:
            return block(rest, defined)
        t = tup(vs)
        return (f'(let {t} := (if {tr(s.test)} then {lets(s.body, defined, t)} else {lets(s.orelse, defined, t)});\n'
                f'    {block(rest, defined)})')
    if isinstance(s, ast.For):
        ok = (isinstance(s.target, ast.Name) and not s.orelse and len(s.body) == 1 and isinstance(s.body[0], ast.If)
              and not s.body[0].orelse and len(s.body[0].body) == 1 and isinstance(s.body[0].body[0], ast.Return)
              and s.body[0].body[0].value is not None)
        if not ok:
            raise Untranslatable('for loop shape (only: for x in bits: if test: return expr)')
        found = tr(s.body[0].body[0].value)
        return (f'(if ({tr(s.iter)}).any (fun {s.target.id} => {tr(s.body[0].test)}) then {found}\n'
                f'    else {block(rest, defined)})')
    raise Untranslatable(f'statement {type(s).__name__}')


def translate_fn(fn):
    if fn.args.vararg or fn.args.kwarg or fn.args.kwonlyargs or fn.args.defaults:
        raise Untranslatable('parameter list')
    params = [a.arg for a in fn.args.args]
    sig = ' '.join(f'({p} : {"List Bool" if p == "src" else "Nat"})' for p in params)
    body = block(fn.body, set(params))
    return f'def {fn.name} {sig} : {RET[fn.name]} :=\n    {body}\n'


def generate():
    path = os.path.join(REPO, 'pytoniq_core/boc/hashmap/utils.py')
    tree = ast.parse(open(path).read())
    fns = {n.name: n for n in tree.body if isinstance(n, ast.FunctionDef)}
    out = ['/- GENERATED from pytoniq_core/boc/hashmap/utils.py by harness/translate/labelfns.py; do not edit. -/',
           'import TonVerif.Spec.Hashmap',
           'namespace TonVerif.Generated.LabelFns',
           'open TonVerif.Model TonVerif.Spec.Hashmap', 'set_option linter.unusedVariables false', '']
    info = {}
    for name in FUNCS:
        if name not in fns:
            raise Untranslatable(f'function {name} missing')
        out.append(translate_fn(fns[name]))
        info[name] = 'ok'
    out.append('end TonVerif.Generated.LabelFns')
    return '\n'.join(out) + '\n', info


def regenerate():
    text, info = generate()
    changed = write_if_changed(os.path.join(LEAN, 'TonVerif/Generated/LabelFns.lean'), text)
    return changed, info
