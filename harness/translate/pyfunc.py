"""Python -> Lean translator for whole TOP-LEVEL FUNCTIONS (and plain methods used as functions) over declared object types:
the checkers of proof/check_proof.py (`check_block_signatures`, `check_proof`, `check_block_header_proof`, `check_account_proof`,
`check_shard_proof`).  Extension of the object-program translator pyobj.py (loops as `List.foldlM`, early `return`, `continue`,
`raise` = `none`, hoisted partial expressions); no knowledge of pytoniq: classes, attribute paths, externals and local
container types are DECLARED by the caller (sigfull.py, prooffull.py) and checked against the source there.

Every translated function becomes ONE Lean definition

    def <function> [(H : Bytes → Bytes)] <declared external binders>... (<python parameter> : T)... : Option R

`none` = the Python code raises (which exception is not distinguished), R = the type of the returned value (`Unit` for a
function that only returns `None`).

ADDED SUBSET (everything of pyobj.py / pybytes.py stays)
  types       struct objects `obj:C` (a declared Lean structure / inductive; attribute PATHS `node.public_key.pubkey`, constant
              string items `sig['signature']`, `c[i]` = element of a declared list attribute, declared total / raising methods),
              `Option (T)` (a value that may be `None`: result of `d.get(k)`), `dict:K|V` (a dict used as a finite map; Lean:
              association list, newest binding first, `List.lookup` = last write wins), `set:K` (Lean: list, newest first),
              `hex` (a `str` holding hex text; only `bytes.fromhex(x)` may read it: the text is represented by the bytes it denotes).
  expressions {} | dict() | set()           (the container type is declared by the caller per local)
              d.get(k) -> d.lookup k : Option V          d[k] -> lookup, KeyError = none          k in s | k not in s  (set / dict)
              x is None | x is not None  on an Option value;  `if x is None: ... ` NARROWS x to its value in the other branch
              (`match x with | none => .. | some x => ..`)
              bytes.fromhex(e) for e : hex               helper(x..) a top-level function of the same module, translated as its own
              definition and hoisted (`Option.bind`)     extern(x.., kw=..) a declared external: a binder of the definition
              (total or raising); keyword arguments are matched to the declared parameter names
              f(.., True) for a helper whose parameter is declared CONSTANT: the helper is specialised to that constant (an `if`
              on it is resolved statically) and gets the suffix `_True` / `_False`
  statements  d[k] = v | s.add(x) | `from m import N` inside a function (N may then only occur in annotations) | NAME: T (no value)
              a loop variable / loop-local name may be re-used as a local of a later loop
  value-or-None result   a function with `return <value>` on some paths and a bare `return` on others: R = `Option T`, the bare
              return is `some none`, `return v` is `some (some v)` (`none` stays "raises")
  return inside a loop   `for x in xs: ... return e ...`: the loop becomes `Py.loop?` (PyBytes.lean: a fold that stops at the first
              `break`) over the state `(ret_, <loop-carried variables>)` with `ret_ : Option R`; `return e` = set `ret_ := some e` and stop;
              after the loop `match ret_ with | some r => some r | none => <rest of the function>`
  raising attribute      a declared attribute path whose evaluation can raise (`shard.custom.shard_hashes` when `custom` is None):
              hoisted like a raising call;  `optlist:C` = a list whose elements may be None (loop variable : Option C, narrowed
              by `x is not None and ...`);  `a == b` on two struct objects with a declared `eq`
Everything else raises `Untranslatable` (the caller records the tie as 'lost'; never a violation by itself).
"""
import ast
import copy

from . import pybytes, pyobj
from .pybytes import BTr, NAT, INT, PROP, BOOL, BYTES, NATLIST, NONE, POISON, OPT, is_opt, opt_of, lname, par, indent
from .pyobj import MTr, BITS, BYTESLIST, HASHER, OBJ, LISTOF, falls_through, nested_jump, tpar
from .pyexpr import Untranslatable

HEX = 'hex'


def DICT(k, v):
    return f'dict:{k}|{v}'


def SET(k):
    return f'set:{k}'


def is_dict(t):
    return isinstance(t, str) and t.startswith('dict:')


def is_set(t):
    return isinstance(t, str) and t.startswith('set:')


def dict_kv(t):
    k, v = t[5:].split('|', 1)
    return k, v


class FProgram(pyobj.Program):
    """classes: as pyobj.Program, plus kind='struct':
         lean=<Lean type>, attrs={dotted attribute path: (lean projection text with `{}` for the receiver, type)},
         items={constant string key: (projection, type)}, getitem=(projection of a list, element type) | None,
         methods={name: dict(lean=<text with {} for the receiver>, args=[types], ret=type, raises=bool)}
       functions: the module's top-level FunctionDefs by name
       externs:   python name (or dotted call text) -> dict(lean=, params=[names], args=[types], ret=type, raises=bool, binder=<Lean binder text>)
       local_types: {function name: {local: container type}}
       const_params: {function name: {parameter: True}}  parameters that must be passed a literal constant (specialisation)"""

    def __init__(self, classes, functions, externs=None, local_types=None, const_params=None, defaults=None, **kw):
        self.type_params = list(kw.pop('type_params', ()))
        super().__init__(classes, **kw)
        self.functions = functions
        self.externs = externs or {}
        self.local_types = local_types or {}
        self.const_params = const_params or {}
        self.defaults = defaults or {}
        self.used_externs = []

    def lean_ty(self, t):
        if is_opt(t):
            return f'Option {tpar(self.lean_ty(opt_of(t)))}'
        if is_dict(t):
            k, v = dict_kv(t)
            return f'List ({self.lean_ty(k)} × {self.lean_ty(v)})'
        if is_set(t):
            return f'List {tpar(self.lean_ty(t[4:]))}'
        if t == HEX:
            return 'Bytes'
        if isinstance(t, str) and t.startswith('optlist:'):
            return f'List (Option {tpar(self.classes[t[8:]]["lean"])})'
        return super().lean_ty(t)

    def function(self, name, argtypes, consts=None):
        """consts = {parameter name: python constant} for the specialised parameters (their argtypes entry is ignored)"""
        consts = dict(consts or {})
        fn = self.functions.get(name)
        if fn is None:
            raise Untranslatable(f'function {name} not found')
        if fn.decorator_list:
            raise Untranslatable(f'{name} is decorated')
        key = (None, name, tuple(argtypes), tuple(sorted(consts.items())))
        if key in self.done:
            return self.done[key]
        if (None, name) in self.stack:
            raise Untranslatable(f'recursive function {name}')
        lean = lname(name) + ''.join(f'_{v}' for _, v in sorted(consts.items()))
        if self.names.get(lean, key) != key:
            raise Untranslatable(f'{name} is used with different argument types')
        self.names[lean] = key
        self.stack.append((None, name))
        try:
            tr = FTr(self, specialise(fn, consts), list(argtypes), lean, consts)
            info = tr.translate()
        finally:
            self.stack.pop()
        self.done[key] = info
        self.defs.append((lean, info['text']))
        return info


def specialise(fn, consts):
    """a copy of the function with the constant parameters removed and every `if <that parameter>:` resolved; statements after
    a `return` / `raise` of the same block are dropped"""
    if not consts:
        return fn
    fn = copy.deepcopy(fn)
    names = [a.arg for a in fn.args.args]
    for c in consts:
        if c not in names:
            raise Untranslatable(f'{fn.name} has no parameter {c}')
    for n in ast.walk(fn):
        if isinstance(n, ast.Name) and n.id in consts and isinstance(n.ctx, (ast.Store, ast.Del)):
            raise Untranslatable(f'the constant parameter {n.id} is assigned')

    def prune(stmts):
        out = []
        for s in stmts:
            if isinstance(s, ast.If):
                s.body, s.orelse = prune(s.body), (prune(s.orelse) if s.orelse else [])
                t = s.test
                neg = False
                if isinstance(t, ast.UnaryOp) and isinstance(t.op, ast.Not):
                    t, neg = t.operand, True
                if isinstance(t, ast.Name) and t.id in consts:
                    out += s.body if bool(consts[t.id]) != neg else s.orelse
                    if out and isinstance(out[-1], (ast.Return, ast.Raise)):
                        break
                    continue
            elif isinstance(s, ast.For):
                s.body = prune(s.body)
            out.append(s)
            if isinstance(s, (ast.Return, ast.Raise)):
                break
        return out or [ast.Pass()]
    fn.body = prune(fn.body)
    for n in ast.walk(fn):
        if isinstance(n, ast.Name) and n.id in consts:
            raise Untranslatable(f'the constant parameter {n.id} is used other than as the test of an `if`')
    nd = len(fn.args.defaults)
    defaults = dict(zip(names[len(names) - nd:], fn.args.defaults))
    keep = [a for a in fn.args.args if a.arg not in consts]
    fn.args.args = keep
    fn.args.defaults = [defaults[a.arg] for a in keep if a.arg in defaults]
    return fn


class FTr(MTr):
    def __init__(self, prog, fn, argtypes, lean, consts=None):
        BTr.__init__(self, [])
        self.prog, self.cls, self.owner, self.fn, self.lean, self.ctor = prog, None, None, fn, lean, None
        self.ctor_struct = None
        self.decl = {'attrs': {}, 'derived': {}}
        a = fn.args
        if a.vararg or a.kwarg or a.kwonlyargs or a.posonlyargs:
            raise Untranslatable(f'{fn.name}: parameter list')
        names = [x.arg for x in a.args]
        if names and names[0] == 'self':
            raise Untranslatable(f'{fn.name} is a method')
        if len(names) != len(argtypes):
            raise Untranslatable(f'{fn.name}: called with {len(argtypes)} arguments, has {len(names)} parameters')
        self.sig = []
        for n, t in zip(names, argtypes):
            if n == 'H' or n.startswith('self_') or n in prog.externs:
                raise Untranslatable(f'parameter name {n}')
            self.env[n] = t
            self.sig.append(('arg', n, lname(n), t))
        self.py_params = set(names)
        self.uses_H = False
        self.loops = []
        self.ret_type = None
        self.has_value_return = any(isinstance(n, ast.Return) and n.value is not None and not
                                    (isinstance(n.value, ast.Constant) and n.value.value is None) for n in ast.walk(fn))
        bare = any(isinstance(n, ast.Return) and (n.value is None or (isinstance(n.value, ast.Constant) and n.value.value is None))
                   for n in ast.walk(fn))
        self.mixed = self.has_value_return and bare          # value-or-None result: R = Option T
        self.mutated = []
        self.mut_names = self.mutated_names(fn)
        self.local_types = prog.local_types.get(fn.name, {})
        self.imported = set()
        self.ext_used = []
        for n in ast.walk(fn):
            if isinstance(n, (ast.FunctionDef, ast.Lambda, ast.Global, ast.Nonlocal, ast.While, ast.Try, ast.With, ast.Break, ast.Yield,
                              ast.YieldFrom, ast.Await, ast.Delete, ast.NamedExpr, ast.Starred)) and n is not fn:
                raise Untranslatable(f'{fn.name}: {type(n).__name__}')
            if isinstance(n, ast.Name) and isinstance(n.ctx, ast.Store) and (n.id == 'H' or n.id.startswith('self_') or n.id == 'self'
                                                                              or n.id in prog.externs or n.id in prog.functions):
                raise Untranslatable(f'local name {n.id}')

    # ------------------------------------------------------------------ names
    @staticmethod
    def mutated_names(fn):
        out = MTr.mutated_names(fn)
        for n in ast.walk(fn):
            if isinstance(n, ast.Assign):
                for t in n.targets:
                    if isinstance(t, ast.Subscript):
                        out.add(ast.unparse(t.value))
        return out

    def attr_type(self, attr):
        raise Untranslatable(f'self.{attr} in a function')

    def struct(self, t):
        d = self.prog.classes.get(t[4:]) if t.startswith('obj:') else None
        return d if d is not None and d.get('kind') == 'struct' else None

    # ------------------------------------------------------------------ expressions
    def truth(self, et):
        e, t = et
        if is_dict(t) or is_set(t):
            return f'({e} ≠ [])'
        if is_opt(t) or t == HEX:
            raise Untranslatable(f'{t} value used as a condition')
        return super().truth(et)

    def expr(self, e):
        if isinstance(e, ast.Name) and e.id in self.imported:
            raise Untranslatable(f'{e.id} (imported inside the function) is used as a value')
        if isinstance(e, ast.Dict) and not e.keys:
            raise Untranslatable('a dict literal outside `NAME = {}` for a local with a declared type')
        if isinstance(e, ast.Compare) and len(e.ops) == 1:
            op, c = e.ops[0], e.comparators[0]
            if isinstance(op, (ast.Is, ast.IsNot)):
                if not (isinstance(c, ast.Constant) and c.value is None):
                    raise Untranslatable('`is` with something else than None')
                v, t = self.expr(e.left)
                if t == NONE:
                    return ('True' if isinstance(op, ast.Is) else 'False'), PROP
                if not is_opt(t):
                    # a value of a type that is never None
                    if t in (HEX,) or t == POISON:
                        raise Untranslatable(f'`is None` on a {t}')
                    return ('False' if isinstance(op, ast.Is) else 'True'), PROP
                return (f'({v} = none)' if isinstance(op, ast.Is) else f'({v} ≠ none)'), PROP
            if isinstance(op, (ast.In, ast.NotIn)) and not isinstance(c, (ast.Tuple, ast.List)):
                cv, ct = self.expr(c)
                kv, kt = self.expr(e.left)
                if is_set(ct) and ct[4:] == kt:
                    txt = f'({kv} ∈ {cv})'
                elif is_dict(ct) and dict_kv(ct)[0] == kt:
                    txt = f'(({cv}.lookup {kv}).isSome = true)'
                else:
                    raise Untranslatable(f'`in` of a {kt} in a {ct}')
                return (txt if isinstance(op, ast.In) else f'(¬ {txt})'), PROP
            if isinstance(op, (ast.Eq, ast.NotEq)):
                f0, pre0 = self.fresh, list(self.pre)
                l, r = self.expr(e.left), self.expr(c)
                for t in (l[1], r[1]):
                    if is_opt(t) or is_dict(t) or is_set(t) or t == HEX:
                        raise Untranslatable(f'comparison of a {t}')
                d = self.struct(l[1])
                if d is not None and l[1] == r[1] and d.get('eq'):
                    txt = d['eq'].format(par(l[0]), par(r[0]))
                    return (txt if isinstance(op, ast.Eq) else f'(¬ {txt})'), PROP
                self.fresh, self.pre = f0, pre0
        return super().expr(e)

    def attribute(self, e):
        # the longest declared attribute path of a struct object: node.public_key.pubkey
        path = [e.attr]
        v = e.value
        chain = [(v, list(path))]
        while isinstance(v, ast.Attribute):
            path.insert(0, v.attr)
            v = v.value
            chain.append((v, list(path)))
        for base, p in reversed(chain):          # shortest base first = longest path
            if isinstance(base, ast.Name) and base.id not in self.env:
                continue
            try:
                f0, pre0 = self.fresh, list(self.pre)
                bv, bt = self.expr(base)
            except Untranslatable:
                self.fresh, self.pre = f0, pre0
                continue
            d = self.struct(bt)
            if d is None:
                self.fresh, self.pre = f0, pre0
                continue
            hit = d['attrs'].get('.'.join(p))
            if hit is None and '.'.join(p) in d.get('raising_attrs', {}):
                hit = d['raising_attrs']['.'.join(p)]           # an attribute path that can raise (a None in the middle): hoisted
                self.use_ext(hit[2:])
                return self.hoist(hit[0].format(par(bv)), p[-1]), hit[1]
            if hit is None:
                self.fresh, self.pre = f0, pre0
                continue
            proj, t = hit[0], hit[1]
            self.use_ext(hit[2:])
            txt = proj.format(par(bv))
            return (f'({txt} = true)', PROP) if t == BOOL else (f'({txt})' if ' ' in txt else txt, t)
        base, bt = None, None
        try:
            f0, pre0 = self.fresh, list(self.pre)
            base, bt = self.expr(e.value)
        except Untranslatable:
            self.fresh, self.pre = f0, pre0
        if bt is not None and self.struct(bt) is not None:
            raise Untranslatable(f'attribute .{e.attr} of a {bt[4:]} is not declared')
        if bt is not None and is_opt(bt):
            raise Untranslatable(f'attribute .{e.attr} of a value that may be None')
        return super().attribute(e)

    def subscript(self, e):
        s = e.slice
        if not isinstance(s, ast.Slice):
            f0, pre0 = self.fresh, list(self.pre)
            base, bt = self.expr(e.value)
            d = self.struct(bt)
            if d is not None:
                if isinstance(s, ast.Constant) and isinstance(s.value, str):
                    hit = d.get('items', {}).get(s.value)
                    if hit is None:
                        raise Untranslatable(f'item {s.value!r} of a {bt[4:]} is not declared')
                    txt = hit[0].format(par(base))
                    return (f'({txt} = true)', PROP) if hit[1] == BOOL else (txt, hit[1])
                if isinstance(s, ast.Constant) and isinstance(s.value, int) and not isinstance(s.value, bool) and s.value in d.get('tupleitems', {}):
                    hit = d['tupleitems'][s.value]          # element of a tuple of known length: cannot raise
                    self.use_ext(hit[2:])
                    txt = hit[0].format(par(base))
                    return (f'({txt})' if ' ' in txt else txt), hit[1]
                lk = d.get('lookup')
                if lk is not None:                           # a mapping with a declared (raising) lookup
                    kv, kt = self.expr(s)
                    if kt != lk['key']:
                        raise Untranslatable(f'key of type {kt}, declared {lk["key"]}')
                    self.use_ext(lk.get('ext', ()))
                    return self.hoist(lk['lean'].format(par(base), par(kv)), 'item'), lk['ret']
                gi = d.get('getitem')
                if gi is None:
                    raise Untranslatable(f'subscript of a {bt[4:]}')
                i = self.index_nat(s, 'index')
                return self.hoist(f'{gi[0].format(par(base))}[{i}]?', 'item'), gi[1]
            if is_dict(bt):
                k, vt = dict_kv(bt)
                kv, kt = self.expr(s)
                if kt != k:
                    raise Untranslatable(f'dict key of type {kt}, declared {k}')
                return self.hoist(f'{base}.lookup {par(kv)}', 'item'), vt
            if is_opt(bt):
                raise Untranslatable('subscript of a value that may be None')
            self.fresh, self.pre = f0, pre0
        return super().subscript(e)

    def call(self, e, key):
        f = e.func
        if isinstance(f, ast.Name) and f.id not in self.env:
            if f.id == 'set' and not e.args and not e.keywords:
                raise Untranslatable('set() outside `NAME = set()` for a local with a declared type')
            if f.id in self.prog.externs:
                return self.extern_call(f.id, e)
            if f.id in self.prog.functions:
                return self.helper_call(f.id, e)
        if key_of_call(f) in self.prog.externs and root_name(f) not in self.env:
            return self.extern_call(key_of_call(f), e)
        if (isinstance(f, ast.Attribute) and isinstance(f.value, ast.Name) and f.value.id == 'bytes' and f.attr == 'fromhex'
                and 'bytes' not in self.env and len(e.args) == 1 and not e.keywords):
            v, t = self.expr(e.args[0])
            if t != HEX:
                raise Untranslatable(f'bytes.fromhex of a {t}')
            return v, BYTES
        if isinstance(f, ast.Attribute) and f.attr == 'get' and len(e.args) == 1 and not e.keywords:
            f0, pre0 = self.fresh, list(self.pre)
            try:
                base, bt = self.expr(f.value)
            except Untranslatable:
                base, bt = None, ''
                self.fresh, self.pre = f0, pre0
            if is_dict(bt):
                k, vt = dict_kv(bt)
                kv, kt = self.expr(e.args[0])
                if kt != k:
                    raise Untranslatable(f'dict key of type {kt}, declared {k}')
                return f'({base}.lookup {par(kv)})', OPT(vt)
            self.fresh, self.pre = f0, pre0
        if isinstance(f, ast.Attribute) and not is_self_like(f.value):
            f0, pre0 = self.fresh, list(self.pre)
            try:
                base, bt = self.expr(f.value)
            except Untranslatable:
                base, bt = None, ''
            d = self.struct(bt) if bt else None
            if d is not None:
                m = d.get('methods', {}).get(f.attr)
                if m is None:
                    raise Untranslatable(f'method .{f.attr} of a {bt[4:]} is not declared')
                if e.keywords or len(e.args) != len(m['args']):
                    raise Untranslatable(f'{bt[4:]}.{f.attr}: call shape')
                args = []
                for a, pt in zip(e.args, m['args']):
                    x, t = self.expr(a)
                    if t == PROP and pt == NAT:
                        x, t = self.num((x, t))
                    if t != pt:
                        raise Untranslatable(f'{f.attr}: argument of type {t}, expected {pt}')
                    args.append(par(x))
                term = m['lean'].format(par(base), *args)
                self.use_ext(m.get('ext', ()))
                if m.get('raises'):
                    return self.hoist(term, f.attr.strip('_') or 'call'), m['ret']
                return (f'({term} = true)', PROP) if m['ret'] == BOOL else (f'({term})', m['ret'])
            self.fresh, self.pre = f0, pre0
        return super().call(e, key)

    def use_ext(self, names):
        for n in names:
            if n not in self.prog.externs:
                raise Untranslatable(f'external {n} is not declared')
            if n not in self.ext_used:
                self.ext_used.append(n)

    def extern_call(self, name, e):
        x = self.prog.externs[name]
        if x.get('params') is None:
            raise Untranslatable(f'{name} is not callable')
        vals = {}
        if len(e.args) > len(x['params']):
            raise Untranslatable(f'{name}: too many arguments')
        for p, a in zip(x['params'], e.args):
            vals[p] = a
        for k in e.keywords:
            if k.arg is None or k.arg not in x['params'] or k.arg in vals:
                raise Untranslatable(f'{name}: argument {k.arg}')
            vals[k.arg] = k.value
        if set(vals) != set(x['params']):
            raise Untranslatable(f'{name}: call shape outside the declared interface')
        # Python evaluates positional arguments, then keyword arguments, in source order
        order = list(e.args) + [k.value for k in e.keywords]
        done = {}
        for a in order:
            v, t = self.expr(a)
            if t == PROP:
                v, t = f'(decide {v})', BOOL
            done[id(a)] = (v, t)
        args = []
        for p, pt in zip(x['params'], x['args']):
            v, t = done[id(vals[p])]
            if t != pt:
                raise Untranslatable(f'{name}: argument {p} of type {t}, expected {pt}')
            args.append(par(v))
        if name not in self.ext_used:
            self.ext_used.append(name)
        term = f'{x["lean"]} {" ".join(args)}'.rstrip()
        if x.get('raises'):
            return self.hoist(term, x['lean']), x['ret']
        return (f'({term} = true)', PROP) if x['ret'] == BOOL else (f'({term})', x['ret'])

    def helper_call(self, name, e):
        fn = self.prog.functions[name]
        pnames = [a.arg for a in fn.args.args]
        nd = len(fn.args.defaults)
        defaults = dict(zip(pnames[len(pnames) - nd:], fn.args.defaults))
        vals = {}
        if len(e.args) > len(pnames):
            raise Untranslatable(f'{name}: too many arguments')
        for p, a in zip(pnames, e.args):
            vals[p] = a
        for k in e.keywords:
            if k.arg is None or k.arg not in pnames or k.arg in vals:
                raise Untranslatable(f'{name}: argument {k.arg}')
            vals[k.arg] = k.value
        cps = self.prog.const_params.get(name, {})
        consts = {}
        for p in pnames:
            if p not in vals:
                if p in defaults and p in cps:
                    vals[p] = defaults[p]
                else:
                    raise Untranslatable(f'{name}: parameter {p} is not passed (defaults are only read for declared constant parameters)')
            if p in cps:
                a = vals[p]
                if not (isinstance(a, ast.Constant) and isinstance(a.value, (bool, int)) and not isinstance(a.value, bytes)):
                    raise Untranslatable(f'{name}: the constant parameter {p} is not passed a literal')
                consts[p] = a.value
        order = [a for a in list(e.args) + [k.value for k in e.keywords]]
        done = {}
        for a in order:
            if any(vals[p] is a for p in consts):
                continue
            v, t = self.expr(a)
            if t == PROP:
                v, t = f'(decide {v})', BOOL
            done[id(a)] = (v, t)
        plain = [p for p in pnames if p not in consts]
        info = self.prog.function(name, [done[id(vals[p])][1] for p in plain], consts)
        actual = []
        it = iter(plain)
        for kind, py, ln, t in info['sig']:
            if kind == 'H':
                self.uses_H = True
                actual.append('H')
            elif kind == 'tparam':
                continue
            elif kind == 'ext':
                if py not in self.ext_used:
                    self.ext_used.append(py)
                actual.append(ln)
            else:
                actual.append(par(done[id(vals[next(it)])][0]))
        term = f'{info["lean"]} {" ".join(actual)}'.rstrip()
        if info['ret'] is None:
            return self.hoist(term, 'call'), NONE
        return self.hoist(term, 'call'), info['ret']

    # ------------------------------------------------------------------ statements
    def assigned(self, stmts):
        out = super().assigned(stmts)
        for s in stmts:
            for n in ast.walk(s):
                if isinstance(n, ast.Assign):
                    for t in n.targets:
                        if isinstance(t, ast.Subscript) and isinstance(t.value, ast.Name) and t.value.id not in out:
                            out.append(t.value.id)
        return out

    def block_(self, stmts, kont):
        if stmts:
            s, rest = stmts[0], stmts[1:]
            if isinstance(s, ast.ImportFrom):
                for a in s.names:
                    n = a.asname or a.name
                    if n in self.env or n in self.prog.externs or n in self.prog.functions:
                        raise Untranslatable(f'import of {n} inside the function shadows a name')
                    self.imported.add(n)
                return self.block(rest, kont)
            if isinstance(s, ast.Assign) and len(s.targets) == 1:
                tg, v = s.targets[0], s.value
                if isinstance(tg, ast.Name) and tg.id in self.local_types:
                    t = self.local_types[tg.id]
                    empty = (isinstance(v, ast.Dict) and not v.keys and is_dict(t)) or \
                            (isinstance(v, ast.Call) and isinstance(v.func, ast.Name) and v.func.id in ('dict', 'set')
                             and v.func.id not in self.env and not v.args and not v.keywords and
                             (is_dict(t) if v.func.id == 'dict' else is_set(t)))
                    if empty:
                        if tg.id in self.py_params:
                            raise Untranslatable(f'parameter {tg.id} is rebound')
                        return self.let([], tg.id, '[]', t, rest, kont)
                if isinstance(tg, ast.Subscript) and isinstance(tg.value, ast.Name) and not isinstance(tg.slice, ast.Slice):
                    d = tg.value.id
                    t = self.env.get(d)
                    if t is None or not is_dict(t):
                        raise Untranslatable(f'item assignment to {d}')
                    if d in self.py_params:
                        raise Untranslatable(f'parameter {d} is mutated')
                    k, vt = dict_kv(t)
                    # Python evaluates the value, then the container and the key
                    xv, xt = self.stored(self.expr(v))
                    kv, kt = self.expr(tg.slice)
                    if kt != k or xt != vt:
                        raise Untranslatable(f'{d}[{kt}] = {xt}; declared {t}')
                    pre = self.take_pre()
                    return self.let(pre, d, f'(({kv}, {xv}) :: {lname(d)})', t, rest, kont)
        return super().block(stmts, kont)

    def let(self, pre, name, v, t, rest, kont):
        want = self.local_types.get(name)
        if want is not None and t != want and not (is_opt(want) and (t == NONE or opt_of(want) == t)):
            raise Untranslatable(f'{name} is assigned a {t}, declared {want}')
        return super().let(pre, name, v, t, rest, kont)

    def call_stmt(self, c, rest, kont):
        f = c.func
        if isinstance(f, ast.Attribute) and isinstance(f.value, ast.Name) and f.attr == 'add' and len(c.args) == 1 and not c.keywords:
            s = f.value.id
            t = self.env.get(s)
            if t is not None and is_set(t):
                if s in self.py_params:
                    raise Untranslatable(f'parameter {s} is mutated')
                x, xt = self.expr(c.args[0])
                if xt != t[4:]:
                    raise Untranslatable(f'{s}.add of a {xt}; declared {t}')
                pre = self.take_pre()
                return self.let(pre, s, f'({x} :: {lname(s)})', t, rest, kont)
        # a helper / external called for its checks only: `check_proof(cell, h)`
        if isinstance(f, ast.Name) and f.id not in self.env and (f.id in self.prog.functions or f.id in self.prog.externs):
            v, t = self.expr(c)
            pre = self.take_pre()
            return self.wrap(pre, self.block(rest, kont))
        return super().call_stmt(c, rest, kont)

    def narrowing(self, test):
        """`x is None` / `x is not None` on a local of Option type -> (name, True if the test holds for None)"""
        neg = False
        while isinstance(test, ast.UnaryOp) and isinstance(test.op, ast.Not):
            test, neg = test.operand, not neg
        if (isinstance(test, ast.Compare) and len(test.ops) == 1 and isinstance(test.ops[0], (ast.Is, ast.IsNot))
                and isinstance(test.left, ast.Name) and isinstance(test.comparators[0], ast.Constant) and test.comparators[0].value is None
                and is_opt(self.env.get(test.left.id, ''))):
            return test.left.id, isinstance(test.ops[0], ast.Is) != neg
        return None

    def if_(self, s, rest, kont):
        nw = self.narrowing(s.test)
        if nw is None:
            t = s.test
            neg = False
            while isinstance(t, ast.UnaryOp) and isinstance(t.op, ast.Not):
                t, neg = t.operand, not neg
            if isinstance(t, ast.BoolOp) and len(t.values) > 1:
                saved = (dict(self.env), self.fresh, list(self.pre), list(self.ext_used))
                try:
                    return super().if_(s, rest, kont)
                except Untranslatable as e:
                    if 'conditionally' not in str(e) and 'may be None' not in str(e):
                        raise
                self.env, self.fresh, self.pre, self.ext_used = saved
                # `if a or b: S else: T` = `if a: S else: (if b: S else: T)` (and dually for `and`): the later operands, which can
                # raise, are evaluated exactly where Python evaluates them
                body, orelse = (s.orelse, s.body) if neg else (s.body, s.orelse)
                body, orelse = list(body) or [ast.Pass()], list(orelse)
                is_or = isinstance(t.op, ast.Or)
                node = None
                for v in reversed(t.values):
                    if node is None:
                        node = ast.If(test=v, body=body, orelse=orelse)
                    elif is_or:
                        node = ast.If(test=v, body=body, orelse=[node])
                    else:
                        node = ast.If(test=v, body=[node], orelse=orelse)
                return self.if_(ast.copy_location(node, s), rest, kont)
            return super().if_(s, rest, kont)
        x, none_first = nw
        t = opt_of(self.env[x])
        env0 = dict(self.env)
        on_none, on_some = (s.body, s.orelse) if none_first else (s.orelse, s.body)

        def branch(stmts, xt):
            self.env = dict(env0)
            self.env[x] = xt
            return par(self.block(list(stmts) + (list(rest) if falls_through(stmts) else []), kont))
        a = branch(on_none, NONE)
        b = branch(on_some, t)
        return f'match {lname(x)} with\n| none =>\n{indent(a)}\n| some {lname(x)} =>\n{indent(b)}'

    def for_(self, s, rest, kont):
        # a name that is only defined inside an earlier loop (loop variable, loop-local) may be re-used as a fresh local
        x = s.target.id if isinstance(s.target, ast.Name) else None
        dropped = {}
        for k in list(self.env):
            if self.env[k] == POISON and (k == x or k in self.assigned(s.body)) and not k.startswith('self_'):
                dropped[k] = self.env.pop(k)
        if any(isinstance(n, ast.Return) for st in s.body for n in ast.walk(st)):
            return self.for_with_return(s, rest, kont)
        return super().for_(s, rest, kont)

    RET = '⟪R⟫'                    # the result type of the function, filled in by translate()

    def for_with_return(self, s, rest, kont):
        """a loop whose body contains `return`: Py.loop? over (ret_, loop-carried variables); `return e` sets ret_ and stops"""
        if s.orelse:
            raise Untranslatable('for ... else')
        if not isinstance(s.target, ast.Name):
            raise Untranslatable('loop target')
        if self.loops:
            raise Untranslatable('return inside a nested loop')
        x = s.target.id
        if self.env.get(x, POISON) != POISON or x in pybytes.LEAN_RESERVED or x in ('H', 'ret_') or x.startswith('self_'):
            raise Untranslatable(f'loop variable {x} shadows a name')
        if 'ret_' in self.env:
            raise Untranslatable('a local named ret_')
        it = s.iter
        if ast.unparse(it) in self.mut_names:
            raise Untranslatable('loop over a list that the function mutates')
        xs, lt = self.expr(it)
        if lt.startswith('optlist:'):
            xt = OPT(OBJ(lt[8:]))
        elif lt.startswith('list:'):
            xt = OBJ(lt[5:])
        elif lt in (NATLIST, BYTES):
            xt = NAT
        elif lt == BYTESLIST:
            xt = BYTES
        else:
            raise Untranslatable(f'loop over a {lt}')
        pre = self.take_pre()
        A = self.assigned(s.body)
        state = sorted(k for k in A if k in self.env)
        for k in state:
            if self.env[k] == POISON:
                raise Untranslatable(f'{k} is not defined on all paths reaching the loop that assigns it')
        env0 = dict(self.env)
        self.env[x] = xt

        def tup(first):
            vals = [first]
            for k in state:
                if self.env.get(k) != env0[k]:
                    raise Untranslatable(f'{k} changes its type in the loop body ({env0[k]} -> {self.env.get(k)})')
                vals.append(lname(k))
            return '(' + ', '.join(vals) + ')' if len(vals) > 1 else vals[0]

        def pack():                      # the end of the body / continue: go on
            return f'some ({tup("none")}, false)'

        self.loops.append(pack)
        self.loop_ret = lambda v: f'some ({tup(f"some {par(v)}")}, true)'
        try:
            body = self.block(list(s.body), pack)
        finally:
            self.loops.pop()
            self.loop_ret = None
        self.env = dict(env0)
        for k in A:
            if k not in state:
                self.env[k] = POISON
        self.env[x] = POISON
        r = self.block(rest, kont)
        pat = ', '.join(['ret_'] + [lname(k) for k in state])
        ty = ' × '.join([f'Option ({self.RET})'] + [tpar(self.prog.lean_ty(env0[k])) for k in state])
        init = '(' + ', '.join(['none'] + [lname(k) for k in state]) + ')' if state else 'none'
        return self.wrap(pre, f'(Py.loop? {xs} {init} (fun ({lname(x)} : {self.prog.lean_ty(xt)}) (({pat}) : {ty}) =>\n{indent(body)})).bind '
                              f'fun (({pat}) : {ty}) =>\nmatch ret_ with\n| some ret_ => some ret_\n| none =>\n{indent(r)}')

    loop_ret = None

    def ret_value(self, s):
        """(hoists, Lean text of the function result R) of a return statement"""
        bare = s.value is None or (isinstance(s.value, ast.Constant) and s.value.value is None)
        if bare:
            if self.has_value_return and not self.mixed:
                raise Untranslatable('a function that returns a value on some paths and None on others')
            return [], ('none' if self.mixed else '()')
        v, t = self.stored(self.expr(s.value))
        pre = self.take_pre()
        if self.ret_type is None:
            self.ret_type = t
        elif self.ret_type != t:
            raise Untranslatable(f'returns of different types ({self.ret_type}, {t})')
        return pre, (f'(some {par(v)})' if self.mixed else v)

    def block(self, stmts, kont):
        if stmts and isinstance(stmts[0], ast.Return) and self.loops:
            if self.loop_ret is None:
                raise Untranslatable('return inside a loop')
            pre, v = self.ret_value(stmts[0])
            return self.wrap(pre, self.loop_ret(v))
        return self.block_(stmts, kont)

    def ret(self, s):
        if self.mixed:
            pre, v = self.ret_value(s)
            return self.wrap(pre, f'some {par(v)}')
        return super().ret(s)

    def end(self):
        if self.mixed:
            return 'some none'
        if self.has_value_return:
            raise Untranslatable('control reaches the end of a function that returns a value elsewhere')
        return 'some ()'

    def translate(self):
        body = self.block(list(self.fn.body), self.end)
        if self.has_value_return:
            if self.ret_type is None:
                raise Untranslatable(f'{self.fn.name}: no path returns a value')
            rt = self.prog.lean_ty(self.ret_type)
            if self.mixed:
                rt = f'Option {tpar(rt)}'
        else:
            rt = 'Unit'
        body = body.replace(self.RET, rt)
        ext = [('ext', n, self.prog.externs[n]['lean'], None) for n in self.prog.externs if n in self.ext_used]
        tps = []
        for _, n, _, _ in ext:
            for tp in self.prog.externs[n].get('tparams', ()):
                if tp not in tps:
                    tps.append(tp)
        for _, _, _, t in self.sig:
            for tp in self.prog.type_params:
                if t is not None and tp in self.prog.lean_ty(t).split() and tp not in tps:
                    tps.append(tp)
        tps = [tp for tp in self.prog.type_params if tp in tps]
        sig = [('tparam', tp, tp, None) for tp in tps] + ([('H', 'H', 'H', None)] if self.uses_H else []) + ext + self.sig
        ps = []
        for k, py, ln, t in sig:
            if k == 'H':
                ps.append('(H : Bytes → Bytes)')
            elif k == 'tparam':
                ps.append(f'{{{ln} : Type}}')
            elif k == 'ext':
                ps.append(self.prog.externs[py]['binder'])
            else:
                ps.append(f'({ln} : {self.prog.lean_ty(t)})')
        doc = pybytes.doc_of(self.fn, f'{self.prog.src}: {self.fn.name}')
        text = f'{doc}def {self.lean} {" ".join(ps)} : Option ({rt}) :=\n{indent(body)}\n'
        ret = (OPT(self.ret_type) if self.mixed else self.ret_type) if self.has_value_return else None
        return dict(lean=self.lean, sig=sig, ret=ret, mutated=[], text=text)


def is_self_like(e):
    return pyobj.is_self(e) or pyobj.is_super(e)


def key_of_call(f):
    try:
        return ast.unparse(f)
    except Exception:
        return None


def root_name(f):
    while isinstance(f, (ast.Attribute, ast.Subscript, ast.Call)):
        f = f.value if not isinstance(f, ast.Call) else f.func
    return f.id if isinstance(f, ast.Name) else None


def module_functions(tree):
    out = {}
    for n in tree.body:
        if isinstance(n, ast.FunctionDef):
            if n.name in out:
                raise Untranslatable(f'{n.name} is defined twice')
            out[n.name] = n
    return out
