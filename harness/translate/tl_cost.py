"""Regenerates lean/TonVerif/Generated/TlCostTable.lean: the bundled TL schemas of /repo in the syntax of the C19 cost
model (Model/Cost.lean §5, `Tl.Table`).

The table is produced by `harness.props.C19.TlEnv(full=True)` -- the very object whose `.table` string the check
sends to the driver for the full-table TL cases (the library's TlGenerator output, every field classified with the
string tests of `TlSchemas.deserialize`).  Properties/C19.lean proves the side conditions of `c19_tl_total`
(`Ids4`, `NoBareCycle`) for this table by kernel evaluation, so a schema change that introduces a bare cycle breaks
the build.
"""
import os

from .crc import write_if_changed
from .pyexpr import Untranslatable
from ..paths import LEAN

CHUNK = 60


def lean_ty(t):
    k, rest = t[0], t[1:]
    if k == 'f':
        return f'.fixed {int(rest)} 0'
    if k == 'F':
        return f'.fixed {int(rest)} 1'
    if k == 'U':
        return f'.fixed {int(rest)} 2'
    if t == 'b1':
        return '.bytes true'
    if t == 'b0':
        return '.bytes false'
    if k == 'v':
        return '.vec none' if rest == 'x' else f'.vec (some {int(rest)})'
    if k == 's':
        return '.sub none' if rest == 'x' else f'.sub (some {int(rest)})'
    raise Untranslatable(f'field type {t!r} outside the cost-model syntax')


def lean_field(f):
    if '?' in f:
        c, t = f.split('?')
        if not c.startswith('c'):
            raise Untranslatable(f'condition {c!r}')
        return f'⟨some {int(c[1:])}, {lean_ty(t)}⟩'
    return f'⟨none, {lean_ty(f)}⟩'


def generate():
    from ..props.C19 import TlEnv
    env = TlEnv(full=True)
    names = [s.name for s in env.lst] + [f'(pseudo schema of a vector of {t})' for t, _ in sorted(env.pseudo.items(), key=lambda kv: kv[1])]
    rows = []
    specs = env.table.split('|')
    if len(specs) != len(names):
        raise Untranslatable('table rows and schema list differ in length')
    for name, spec in zip(names, specs):
        idh, fs = spec.split(':')
        idb = ', '.join(str(b) for b in bytes.fromhex(idh))
        fields = [] if fs == '-' else [lean_field(f) for f in fs.split(';')]
        rows.append(f'  ⟨[{idb}], [{", ".join(fields)}]⟩  -- {len(rows)} {name}')
    out = ['/- GENERATED from pytoniq_core/tl/schemas/*.tl through pytoniq_core/tl/generator.py by harness/translate/tl_cost.py '
           '(= harness.props.C19.TlEnv(full=True).table); do not edit. -/',
           'import TonVerif.Model.Cost', 'namespace TonVerif.Generated.TlCost', 'open TonVerif.Model.Cost.Tl', '']
    nchunks = (len(rows) + CHUNK - 1) // CHUNK
    for k in range(nchunks):
        body = rows[k * CHUNK:(k + 1) * CHUNK]
        # the comma goes before the trailing comment
        lines = []
        for j, r in enumerate(body):
            code, _, comment = r.partition('  -- ')
            lines.append(code + (',' if j + 1 < len(body) else '') + '  -- ' + comment)
        out.append(f'def chunk{k} : List Schema := [\n' + '\n'.join(lines) + '\n]\n')
    out.append('/-- the bundled schema table as the cost model sees it -/')
    out.append('def table : Table := [' + ', '.join(f'chunk{k}' for k in range(nchunks)) + '].flatten\n')
    out.append(f'def numSchemas : Nat := {len(rows)}\n')
    out.append('end TonVerif.Generated.TlCost')
    depth = _bare_depth(specs)
    info = dict(schemas=len(rows), chunks=nchunks, pseudo=len(env.pseudo), base_vec=env.base_vec, nat_unsigned=env.nat_unsigned,
                max_fields=max(0 if s.endswith(':-') else len(s.split(':')[1].split(';')) for s in specs), bare_depth=depth)
    return '\n'.join(out) + '\n', info


def _bare_depth(specs):
    """longest chain of bare references (None = cyclic); informational only -- Lean decides NoBareCycle itself"""
    g = []
    for s in specs:
        fs = s.split(':')[1]
        refs = []
        for f in ([] if fs == '-' else fs.split(';')):
            t = f.split('?')[-1]
            if t[0] in 'sv' and t[1:] != 'x':
                refs.append(int(t[1:]))
        g.append(refs)
    memo = {}

    def go(v, stack):
        if v in stack:
            raise RecursionError
        if v not in memo:
            memo[v] = 1 + max([go(c, stack | {v}) for c in g[v] if c < len(g)] + [-1])
        return memo[v]
    try:
        return max(go(v, frozenset()) for v in range(len(g)))
    except RecursionError:
        return None


def regenerate():
    text, info = generate()
    changed = write_if_changed(os.path.join(LEAN, 'TonVerif/Generated/TlCostTable.lean'), text)
    return changed, info
