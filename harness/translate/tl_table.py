"""Regenerates lean/TonVerif/Generated/TlTable.lean from the bundled .tl schemas of /repo.

Two views are computed and must agree, otherwise the translation fails (tie lost):
  (1) the repo's own TlGenerator/TlRegistrator output (name, class, id, ordered args) with every field
      type classified twice by replaying the string tests of serialize_field and of deserialize;
  (2) an independent parse of the same files following the TL grammar (declaration = name[#id] args* '=' Type;
      arg = name:type | {X:Type} | # | [ t ] | n*[ t ] | ?), which also produces the *normalised
      declaration text* whose CRC-32 the Lean side recomputes.
All names are interned to integers (the Lean table is purely numeric so the kernel can evaluate it).
"""
import os
import re

from .crc import write_if_changed
from .pyexpr import Untranslatable
from ..paths import LEAN

BASE = {'int': 'int', 'long': 'long', '#': 'nat', 'int128': 'int128', 'int256': 'int256', 'Bool': 'bool',
        'bytes': 'bytes', 'string': 'string'}
CHUNK = 40


def _lib():
    import pytoniq_core.tl.generator as g
    return g


# ----------------------------------------------------------------------------- independent parse

def independent_parse(path):
    """-> list of dict(name, id_hex|None, cls, args=[(field, type)], params=bool, decl=normalised text)."""
    out = []
    text = open(path).read()
    lines = []
    for line in text.split('\n'):
        line = line.split('//')[0].strip()
        if not line or line.startswith('---'):
            continue
        lines.append(line)
    for decl in ' '.join(lines).split(';'):
        toks = decl.split()
        if not toks:
            continue
        if '=' not in toks:
            raise Untranslatable(f'declaration without "=": {decl[:60]}')
        eq = toks.index('=')
        head, body, res = toks[0], toks[1:eq], toks[eq + 1:]
        name, _, idhex = head.partition('#')
        args, params, depth, cur = [], False, 0, []
        for t in body:
            cur.append(t)
            depth += t.count('(') - t.count(')')
            if depth:
                continue
            item, cur = ' '.join(cur), []
            if item.startswith('{'):
                params = True
            elif ':' in item:
                f, _, ty = item.partition(':')
                args.append((f, ty))
            # '?', '#', '[', 't', ']', '4*[' : builtin layouts, no named field
        norm = ' '.join(toks)
        for ch in '(){}':
            norm = norm.replace(ch, '')
        out.append(dict(name=name, id_hex=idhex or None, cls=res[0], res_params=res[1:], args=args, params=params, decl=norm))
    return out


COND = re.compile(r'^([A-Za-z_][A-Za-z_0-9]*)\.(\d+)\?(.+)$')


def independent_type(ty, names, classes):
    """TL grammar view of a field type -> (cond|None, vec, ety) with ety = ('base', x)|('bare', n)|('boxed', c)|('unsup',)"""
    cond = None
    m = COND.match(ty)
    if m:
        cond = (m.group(1), int(m.group(2)))
        ty = m.group(3)

    def elem(t):
        if t in BASE:
            return ('base', BASE[t])
        if '<' in t or '}' in t or '{' in t:
            return ('unsup',)
        last = t.split('.')[-1]
        if last[:1].isupper():
            return ('boxed', t) if t in classes else ('unsup',)
        return ('bare', t) if t in names else ('unsup',)
    m = re.match(r'^\(\s*vector\s+(\S+)\s*\)$', ty)
    if m:
        return cond, True, elem(m.group(1))
    return cond, False, elem(ty)


# ----------------------------------------------------------------------------- the code's view

def code_views(s, t):
    """Replays the string tests of serialize()/serialize_field() and of deserialize() on a type string."""
    base = s.base_types
    # --- serialisation side
    scond = ('mode' in t or 'flags' in t)
    st = t.split('?')[1] if scond else t

    def ser_elem(x):
        if x in base:
            return ('base', BASE[x]) if x in BASE else ('unsup',)
        if s.get_by_class_name(x):
            return ('boxed', x)
        if x.startswith('('):
            return ('unsup',)
        return ('bare', x) if s.get_by_name(x) is not None else ('unsup',)
    if st not in base and not s.get_by_class_name(st) and st.startswith('('):
        sub = st.split()[1][:-1]
        sview = (scond, 'vector' in st, ser_elem(sub))
    else:
        sview = (scond, False, ser_elem(st))
    # --- parsing side
    dcond = '?' in t
    idx = None
    if dcond:
        idx = int(t[t.find('.') + 1: t.find('?')])
    dt = t.split('?')[-1] if dcond else t

    def de_elem(x, in_vec):
        if x in base and (in_vec or True):
            return ('base', BASE[x]) if x in BASE else ('unsup',)
        if s.get_by_name(x) is not None:
            return ('bare', x)
        return ('any',)
    if dt in base:
        dview = (dcond, False, de_elem(dt, False))
    elif dt.startswith('('):
        sub = dt.split()[1][:-1]
        dview = (dcond, 'vector' in dt, de_elem(sub, True))
    else:
        dview = (dcond, False, de_elem(dt, False))
    return sview, dview, idx


def agree(sview, dview):
    if sview[0] != dview[0] or sview[1] != dview[1]:
        return False
    a, b = sview[2], dview[2]
    if a[0] in ('boxed', 'unsup'):
        return b[0] == 'any' or (a[0] == 'unsup' and b[0] == 'unsup')
    return a == b


# ----------------------------------------------------------------------------- emit

class Intern:
    def __init__(self):
        self.ids = {}
        self.list = []

    def __call__(self, s):
        if s not in self.ids:
            self.ids[s] = len(self.list)
            self.list.append(s)
        return self.ids[s]


def build(repo=None, lenient=False):
    """-> (ctors, strings, meta); ctors: list of dicts with interned numbers + readable fields.
    lenient (used by the HARNESS world, never for the Lean table): where the library's registry disagrees with the independent
    reading of the .tl text about a constructor's fields or their kinds, the GRAMMAR's view is taken and the disagreement is
    recorded in meta['disagreements'] - the oracle then exercises that constructor and reports the concrete value on which the
    library's wire image is wrong (instead of the translator merely refusing)."""
    disagreements = []
    g = _lib()
    sdir = os.path.join(os.path.dirname(g.__file__), 'schemas')
    files = [f for f in os.listdir(sdir)]
    gen = g.TlGenerator.with_default_schemas()
    schemas = gen.generate()
    # the same order as TlGenerator.generate (os.listdir)
    indep = []
    for f in files:
        indep += [dict(d, file=f) for d in independent_parse(os.path.join(sdir, f))]
    if len(indep) != len(schemas.list):
        raise Untranslatable(f'registrator has {len(schemas.list)} constructors, independent parse {len(indep)}')
    names = {d['name'] for d in indep}
    classes = {d['cls'] for d in indep}
    I = Intern()
    k_mode, k_flags = I('mode'), I('flags')
    ctors = []
    class_div = []
    for sc, d in zip(schemas.list, indep):
        if sc.is_empty() or len(sc.id) != 4:
            raise Untranslatable(f'empty schema / id length: {d["name"]}')
        # the registrator reads the class as the last blank-separated word: parametrised results ('= Vector t' -> 't') and a
        # declaration followed by '; // comment' (-> '') come out differently; the table keeps the code's value and reports it
        if sc.name != d['name']:
            raise Untranslatable(f'names differ: code {sc.name}, grammar {d["name"]}')
        if sc.class_name != d['cls']:
            class_div.append((sc.name, sc.class_name, d['cls']))
        code_args = list(sc.args.items())
        # the registrator turns '{t:Type}' into a field '{t' of type 'Type}' – the only accepted difference
        code_cmp = [(f, t) for f, t in code_args if not f.startswith('{')]
        if code_cmp != d['args']:
            if not lenient:
                raise Untranslatable(f'argument lists differ for {sc.name}: code {code_cmp} grammar {d["args"]}')
            disagreements.append(f'argument lists differ for {sc.name}: code {code_cmp} grammar {d["args"]}')
            code_args = list(d['args'])
        args = []
        for f, t in code_args:
            sview, dview, idx = code_views(schemas, t)
            if f.startswith('{'):
                args.append(dict(field=f, type=t, cond=None, vec=False, ety=('unsup',)))
                continue
            icond, ivec, iety = independent_type(t, names, classes)
            if not agree(sview, dview):
                if not lenient:
                    raise Untranslatable(f'serialize and deserialize classify {sc.name}.{f}:{t} differently: {sview} vs {dview}')
                disagreements.append(f'serialize and deserialize classify {sc.name}.{f}:{t} differently: {sview} vs {dview}')
                args.append(dict(field=f, type=t, cond=icond, vec=ivec, ety=iety))
                continue
            ety = sview[2]
            if (icond is not None) != sview[0] or ivec != sview[1] or iety != ety or (icond and icond[1] != idx):
                if not lenient:
                    raise Untranslatable(f'code and TL grammar classify {sc.name}.{f}:{t} differently: {sview}/{idx} vs {(icond, ivec, iety)}')
                disagreements.append(f'code and TL grammar classify {sc.name}.{f}:{t} differently: {sview}/{idx} vs {(icond, ivec, iety)}')
                ety = iety
            args.append(dict(field=f, type=t, cond=icond, vec=ivec, ety=ety))
        fnames = [a['field'] for a in args]
        if len(set(fnames)) != len(fnames) or '@type' in fnames:
            raise Untranslatable(f'duplicate field names in {sc.name}')
        ctors.append(dict(name=sc.name, cls=sc.class_name, id=int.from_bytes(sc.id, 'big'), args=args, decl=d['decl'],
                          explicit=d['id_hex'], file=d['file'], params=d['params']))
    for c in ctors:
        c['n'] = I(c['name'])
        c['c'] = I('=' + c['cls'])          # classes live in their own name space
        for a in c['args']:
            a['f'] = I(a['field'])
    untouch = sorted((I(n), I(f)) for n, fs in schemas.untouchables.items() for f in fs)
    meta = dict(class_div=class_div, files=files, k_mode=k_mode, k_flags=k_flags, untouch=untouch, intern=I, disagreements=disagreements)
    return ctors, I, meta


def lean_ety(e, I):
    if e[0] == 'base':
        return '.' + e[1]
    if e[0] == 'bare':
        return f'.bare {I(e[1])}'
    if e[0] == 'boxed':
        return f'.boxed {I("=" + e[1])}'
    return '.unsup'


def lean_arg(a, I):
    cond = 'none' if a['cond'] is None else f'some ({I(a["cond"][0])}, {a["cond"][1]})'
    return f'⟨{a["f"]}, {cond}, {"true" if a["vec"] else "false"}, {lean_ety(a["ety"], I)}⟩'


def generate():
    ctors, I, meta = build()
    # intern everything first so the strings table is complete
    rows = []
    for c in ctors:
        args = ', '.join(lean_arg(a, I) for a in c['args'])
        db = c['decl'].encode()
        # the declaration text packed into little-endian 8-byte words (fast to elaborate, unpacked by the kernel)
        words = ', '.join(f'0x{int.from_bytes(db[i:i + 8], "little"):x}' for i in range(0, len(db), 8))
        rows.append(f'  -- {c["decl"]}\n  ⟨{c["n"]}, {c["c"]}, 0x{c["id"]:08x}, [{args}], unpackLE {len(db)} [{words}]⟩')
    out = ['/- GENERATED from pytoniq_core/tl/schemas/*.tl and pytoniq_core/tl/generator.py by harness/translate/tl_table.py; do not edit. -/',
           'import TonVerif.Spec.Tl', 'namespace TonVerif.Generated.Tl', 'open TonVerif.Spec.Tl', '']
    nchunks = (len(rows) + CHUNK - 1) // CHUNK
    for k in range(nchunks):
        out.append(f'def chunk{k} : List Ctor := [\n' + ',\n'.join(rows[k * CHUNK:(k + 1) * CHUNK]) + '\n]\n')
    out.append('def chunks : List (List Ctor) := [' + ', '.join(f'chunk{k}' for k in range(nchunks)) + ']\n')
    out.append('def ctors : List Ctor := chunks.flatten\n')
    ut = ', '.join(f'({a}, {b})' for a, b in meta['untouch'])
    out.append(f'def table : Table := {{ ctors := ctors, modeKey := {meta["k_mode"]}, flagsKey := {meta["k_flags"]}, untouch := [{ut}] }}\n')
    out.append(f'def numChunks : Nat := {nchunks}')
    out.append(f'def numCtors : Nat := {len(rows)}\n')
    strs = ',\n'.join('  ' + ', '.join('"' + s.replace('\\', '\\\\').replace('"', '\\"') + '"' for s in I.list[i:i + 8]) for i in range(0, len(I.list), 8))
    out.append('/-- interned names: constructor names, field names, classes (prefixed with `=`) -/')
    out.append(f'def strings : Array String := #[\n{strs}\n]\n')
    out.append('end TonVerif.Generated.Tl')
    info = dict(constructors=len(ctors), files=meta['files'], strings=len(I.list), chunks=nchunks,
                explicit_ids=[c['name'] for c in ctors if c['explicit']],
                class_divergences=meta['class_div'])
    return '\n'.join(out) + '\n', info


def regenerate():
    text, info = generate()
    changed = write_if_changed(os.path.join(LEAN, 'TonVerif/Generated/TlTable.lean'), text)
    return changed, info
