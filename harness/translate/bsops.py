"""Regenerates lean/TonVerif/Generated/BuilderOps.lean and SliceOps.lean from the current source of the METHODS of
pytoniq_core/boc/builder.py (`Builder.store_*`), slice.py (`Slice.load_* / preload_* / skip_bits`) and tvm_bitarray.py
(`TvmBitarray.check_overflow / check_underflow / extend / append / frombytes / __delitem__`) with the stateful-method
translator pymeth.py, validates the translation against the running library (the same op scripts as the C06 / C07
harness), and evaluates regenerated methods vs hand model on op scripts (search hook).

Theorems about the regenerated definitions: Proofs/SrcBuilder.lean (`src_store_*_eq`), Proofs/SrcSlice.lean
(`src_load_*_eq`, `src_preload_*_eq`): for ALL arguments and states the regenerated method equals the hand model's
operation (`Model.BOp.*` / `Model.SOp.*`: same decision to raise, same state afterwards - partial writes included -, same
returned value); referenced by Properties/C06.lean `c06_src_*` and Properties/C07.lean `c07_src_*`.
"""
import ast
import hashlib
import os
import re
import subprocess

from . import pymeth, pyobj, pybytes
from .pymeth import NONE, ANY, SProgram, STATE, REF, REFS, SLICE, NAT, INT, BOOL, BYTES, BITS, OPT, OBJ, STR, PLAINBITS, INTLIST, ITER
from .pyexpr import Untranslatable
from .arith import write_if_changed, _lake_build
from ..paths import REPO, LEAN

BUILDER = 'pytoniq_core/boc/builder.py'
SLICE_SRC = 'pytoniq_core/boc/slice.py'
BITARR = 'pytoniq_core/boc/tvm_bitarray.py'

# ---- the declared interface (trusted; every line that can be checked against the source is checked in `program()`)
# state of a Builder = Model.Builder R (bits, refs); of a Slice = Py.SliceSt R (bits, refs, ref_offset); a TvmBitarray IS its bit list
BUILDER_ATTRS = {'_bits': STATE('TvmBitarray'), '_refs': REFS}
BUILDER_FIELDS = {'_bits': 'bits', '_refs': 'refs'}
SLICE_ATTRS = {'bits': STATE('TvmBitarray'), 'refs': REFS, 'ref_offset': NAT}
SLICE_FIELDS = {'bits': 'bits', 'refs': 'refs', 'ref_offset': 'ref_offset'}
CELL_ATTRS = {'bits': BITS, 'refs': REFS}
POLY = {('TvmBitarray', 'append'), ('TvmBitarray', '__delitem__'), ('Builder', 'store_address')}
ADDRESS_SRC = 'pytoniq_core/boc/address.py'
ADDRESS_ATTRS = {'wc': INT, 'hash_part': BYTES, 'anycast': OPT(OBJ('Anycast'))}
ANYCAST_ATTRS = {'depth': NAT, 'rewrite_pfx': INT}
EXT_ATTRS = {'external_address': INT, 'len': NAT}
UNIONS = {'Addr': dict(lean='Py.AddrR', of={NONE: 'Py.AddrR.none', OBJ('ExternalAddress'): 'Py.AddrR.ext', OBJ('Address'): 'Py.AddrR.std'})}
# argument types of internal methods that are called with both a length (Nat) and a difference (Int)
SIGS = {('TvmBitarray', 'check_underflow'): [INT], ('TvmBitarray', 'check_overflow'): [NAT]}

GROUPS = {
    'BuilderOps': dict(
        main='Builder', files=[BUILDER, BITARR, SLICE_SRC, ADDRESS_SRC], ns='TonVerif.Generated.BuilderOps',
        entries=[('store_uint', [INT, NAT]), ('store_int', [INT, NAT]), ('store_bits', [BITS]), ('store_bit', [NAT]), ('store_bit_int', [NAT]),
                 ('store_bool', [BOOL]), ('store_bytes', [BYTES]), ('store_ref', [REF]), ('store_maybe_ref', [OPT(REF)]), ('store_dict', [OPT(REF)]),
                 ('store_var_uint', [INT, NAT]), ('store_var_int', [INT, NAT]), ('store_coins', [INT]),
                 ('store_cell', [OBJ('Cell')]), ('store_slice', [OBJ('Slice')]), ('store_string', [STR]),
                 ('store_address', [NONE]), ('store_address', [OBJ('Address')]), ('store_address', [OBJ('ExternalAddress')])]),
    'SliceOps': dict(
        main='Slice', files=[SLICE_SRC, BITARR, ADDRESS_SRC], ns='TonVerif.Generated.SliceOps',
        entries=[('preload_bit', []), ('load_bit', []), ('preload_bool', []), ('load_bool', []), ('skip_bits', [NAT]), ('preload_bits', [NAT]),
                 ('load_bits', [NAT]), ('preload_uint', [NAT]), ('load_uint', [NAT]), ('preload_int', [NAT]), ('load_int', [NAT]),
                 ('preload_bytes', [NAT]), ('load_bytes', [NAT]), ('preload_var_uint', [NAT]), ('load_var_uint', [NAT]),
                 ('preload_var_int', [NAT]), ('load_var_int', [NAT]), ('preload_coins', []), ('load_coins', []),
                 ('load_ref', []), ('preload_maybe_ref', []), ('load_maybe_ref', []), ('preload_ref', [NAT]),
                 ('preload_string', [NAT]), ('load_string', [NAT]), ('load_address', []), ('preload_address', []),
                 ('load_dict', [NAT, ANY, ANY]), ('preload_dict', [NAT, ANY, ANY])]),
    # the snake strings (loops with loop-carried cells; `while True` with a declared iteration bound).  Here a `Cell` built by
    # `end_cell` is used as a REFERENCE (`store_ref(tail)`): `mk : Bits → List R → Option R`; `<ref>.begin_parse()` reads `view <ref>`.
    # Definitions that do not involve the cell constructor are the ones of BuilderOps / SliceOps (not emitted again).
    'SnakeOps': dict(
        main='Builder', files=[BUILDER, SLICE_SRC, BITARR, ADDRESS_SRC, 'pytoniq_core/boc/cell.py'], ns='TonVerif.Generated.SnakeOps', cell_as_ref=True,
        reuse=['BuilderOps', 'SliceOps'],
        entries=[('store_snake_bytes', [BYTES]), ('store_snake_string', [STR, BOOL]),
                 ('Slice', 'load_snake_bytes', []), ('Slice', 'load_snake_string', [])]),
    # the ARGUMENT FORMS of store_bit / store_bits (bool, str, TvmBitarray, a plain bitarray, a list / tuple of ints, an iterator) and
    # store_address(str): `Address(<str>)` is the declared interface function `addrOfStr` (a parameter; Model.Address.parse, tied by C15)
    'ArgForms': dict(
        main='Builder', files=[BUILDER, BITARR, SLICE_SRC, ADDRESS_SRC], ns='TonVerif.Generated.ArgForms', reuse=['BuilderOps'], forms=True,
        entries=[('store_bit', [BOOL]), ('store_bit', [STR]), ('store_bit', [BITS]), ('store_bit', [PLAINBITS]), ('store_bit', [INTLIST]),
                 ('store_bits', [STR]), ('store_bits', [INTLIST]), ('store_bits', [PLAINBITS]), ('store_bits', [ITER]),
                 ('store_address', [STR])]),
}
FORMS_POLY = {('Builder', 'store_bit'), ('Builder', 'store_bits'), ('TvmBitarray', 'extend')}


def _entries(g):
    """[(class, method, argument types)]"""
    return [((g['main'],) + tuple(e)) if len(e) == 2 else tuple(e) for e in g['entries']]


def head(group):
    g = GROUPS[group]
    if g.get('reuse'):
        return ['/- GENERATED by harness/translate/bsops.py (pymeth.py) from the current source of',
                f'   {", ".join(g["files"])}; do not edit.',
                '   Shape of a method: see Generated/BuilderOps.lean.  `mk` = `Cell(bits, refs, type_)` as `end_cell` calls it, its result used as a',
                '   reference; `view c` = what `c.begin_parse()` reads of a referenced cell; `fuel` = the declared bound on the iterations of',
                '   `while True:` (exhausted = raise).  Methods that do not build cells are the definitions of BuilderOps / SliceOps. -/',
                'import TonVerif.Generated.BuilderOps', 'import TonVerif.Generated.SliceOps',
                'set_option linter.unusedVariables false', f'namespace {g["ns"]}', 'open TonVerif TonVerif.Model', 'variable {R : Type}', '']
    if False:
        pass
    return ['/- GENERATED by harness/translate/bsops.py (pymeth.py) from the current source of',
            f'   {", ".join(g["files"])}; do not edit.',
            '   A method is  args → self → (self after the call, returned value);  `none` = the Python code raised (the state is the one',
            '   reached at that point).  A Builder is a `Model.Builder R` (bits, refs), a Slice a `Py.SliceSt R` (bits, refs, ref_offset),',
            '   a TvmBitarray its bit list; `R` = the type of cell references.  Built-ins: lean/TonVerif/PyBits.lean. -/',
            'import TonVerif.PyInt', 'import TonVerif.PyBytes', 'import TonVerif.PyObj', 'import TonVerif.PyBits', 'import TonVerif.Model.Builder',
            'set_option linter.unusedVariables false', f'namespace {g["ns"]}', 'open TonVerif TonVerif.Model', 'variable {R : Type}', '']


def _tree(file):
    return ast.parse(open(os.path.join(REPO, file)).read())


def _class(tree, name, file):
    cs = [n for n in tree.body if isinstance(n, ast.ClassDef) and n.name == name]
    if len(cs) != 1:
        raise Untranslatable(f'class {name} not found in {file}')
    return cs[0]


def _no_magic(c, allow=()):
    for n in c.body:
        if isinstance(n, ast.FunctionDef) and n.name in ('__getattr__', '__getattribute__', '__setattr__', '__init_subclass__', '__len__', '__getitem__',
                                                         '__iter__', '__bool__', '__add__', '__iadd__') and n.name not in allow:
            raise Untranslatable(f'{c.name} defines {n.name}')
        if isinstance(n, (ast.Assign, ast.AnnAssign)):
            raise Untranslatable(f'{c.name} has class-level attributes')


def program(group):
    """parses the sources, checks the declared interface against them -> SProgram"""
    bt, st, at = _tree(BUILDER), _tree(SLICE_SRC), _tree(BITARR)
    builder, slice_, tvm = _class(bt, 'Builder', BUILDER), _class(st, 'Slice', SLICE_SRC), _class(at, 'TvmBitarray', BITARR)
    if [ast.unparse(b) for b in tvm.bases] != ['bitarray'] or pybytes.imported_from(at, 'bitarray') != ('bitarray', 0):
        raise Untranslatable('TvmBitarray is not `class TvmBitarray(bitarray)` over `from bitarray import bitarray`')
    for tree, file in ((bt, BUILDER), (st, SLICE_SRC)):
        if pybytes.imported_from(tree, 'TvmBitarray') != ('tvm_bitarray', 1):
            raise Untranslatable(f'TvmBitarray is not imported from .tvm_bitarray in {file}')
    if pybytes.imported_from(bt, 'int2ba') != ('bitarray.util', 0) or pybytes.imported_from(st, 'ba2int') != ('bitarray.util', 0):
        raise Untranslatable('int2ba / ba2int are not imported from bitarray.util')
    if [ast.unparse(b) for b in builder.bases] != ['NullCell'] or [ast.unparse(b) for b in slice_.bases] != ['NullCell']:
        raise Untranslatable('Builder / Slice are not subclasses of NullCell only')
    for c in (builder, slice_, tvm):
        _no_magic(c)
    # the attributes hold what is declared: Builder.__init__ creates an empty TvmBitarray and an empty list; Slice.__init__ stores
    # its (TvmBitarray) bits, refs and ref_offset = 0; nothing else of the translated classes assigns them except the listed setters
    if pybytes.imported_from(bt, 'Cell') != ('cell', 1):
        raise Untranslatable(f'Cell is not imported from .cell in {BUILDER}')
    init = [n for n in builder.body if isinstance(n, ast.FunctionDef) and n.name == '__init__']
    if len(init) != 1 or not {'self._bits = TvmBitarray(size)', 'self._refs = []'} <= {ast.unparse(s) for s in init[0].body}:
        raise Untranslatable('Builder.__init__ does not create `_bits = TvmBitarray(size)` and `_refs = []`')
    sinit = [n for n in slice_.body if isinstance(n, ast.FunctionDef) and n.name == '__init__']
    if len(sinit) != 1 or not {'self.bits = bits', 'self.refs = refs', 'self.ref_offset = 0'} <= {ast.unparse(s) for s in sinit[0].body}:
        raise Untranslatable('Slice.__init__ does not store bits, refs and ref_offset = 0')
    cp = [n for n in tvm.body if isinstance(n, ast.FunctionDef) and n.name == 'copy']
    if len(cp) != 1 or [ast.unparse(x) for x in cp[0].body] != ['res = self.__new__(TvmBitarray)', 'res.extend(self)', 'return res']:
        raise Untranslatable('TvmBitarray.copy is not "a new TvmBitarray extended by self"')
    classes = {
        'TvmBitarray': dict(kind='state', node=tvm, value=BITS, attrs={}, fields={}, base=None, src=BITARR),
        'Builder': dict(kind='state', node=builder, state='Builder R', lean='Builder R', attrs=BUILDER_ATTRS, fields=BUILDER_FIELDS, base=None, src=BUILDER,
                        ctor=dict(shape='args', fields=[], rest={'bits': '[]', 'refs': '[]'})),
        'Slice': dict(kind='state', node=slice_, state='Py.SliceSt R', lean='Py.SliceSt R', attrs=SLICE_ATTRS, fields=SLICE_FIELDS, base=None, src=SLICE_SRC,
                      ctor=dict(shape='args', fields=[('bits', BITS), ('refs', REFS), None], rest={'ref_offset': '0'})),
        # `Cell(bits, refs, type_)` as end_cell calls it is the PARAMETER `mk` of the translation (the constructor may raise: depth)
        'Cell': dict(kind='object', lean='Py.CellV R', attrs=CELL_ATTRS, fields={'bits': 'bits', 'refs': 'refs'},
                     ctor=dict(shape='args', fields=[('bits', BITS), ('refs', REFS), None], via='mk')),
        # an internal address as store_address reads it: wc, hash_part, anycast (None | Anycast(depth, rewrite_pfx))
        'Address': dict(kind='object', lean='Py.AddrV', attrs=ADDRESS_ATTRS, fields={k: k for k in ADDRESS_ATTRS}, isinstance={OBJ('Address')},
                        ctor=dict(shape='tuple', fields=[('wc', INT), ('hash_part', BYTES)], rest={'anycast': 'none'}),
                        setters={'set_anycast': dict(args=[NAT, INT], field='anycast', value='some ⟨{0}, {1}⟩')}),
        'Anycast': dict(kind='object', lean='Py.AnycastV', attrs=ANYCAST_ATTRS, fields={k: k for k in ANYCAST_ATTRS}, isinstance={OBJ('Anycast')}),
        'ExternalAddress': dict(kind='object', lean='Py.ExtAddrV', attrs=EXT_ATTRS, fields={k: k for k in EXT_ATTRS}, isinstance={OBJ('ExternalAddress')},
                                node=_class(_tree(ADDRESS_SRC), 'ExternalAddress', ADDRESS_SRC), src=ADDRESS_SRC,
                                ctor=dict(shape='args', fields=[('external_address', INT), ('len', NAT)])),
    }
    adt = _tree(ADDRESS_SRC)
    addr, anyc = _class(adt, 'Address', ADDRESS_SRC), _class(adt, 'Anycast', ADDRESS_SRC)
    _class(adt, 'ExternalAddress', ADDRESS_SRC)
    if [ast.unparse(x) for x in anyc.body] != ['depth: int', 'rewrite_pfx: int'] or [ast.unparse(d) for d in anyc.decorator_list] != ['dataclass']:
        raise Untranslatable('Anycast is not the dataclass (depth: int, rewrite_pfx: int)')
    ainit = [n for n in addr.body if isinstance(n, ast.FunctionDef) and n.name == '__init__']
    if len(ainit) != 1 or not {'self.anycast = None'} <= {ast.unparse(x) for x in ainit[0].body} or \
            [ast.unparse(x) for n in addr.body if isinstance(n, ast.FunctionDef) and n.name == 'set_anycast' for x in n.body] != ['self.anycast = Anycast(depth, rewrite_pfx)']:
        raise Untranslatable('Address.anycast is not None / Anycast(depth, rewrite_pfx) set by set_anycast')
    for c in (addr,):
        for n in c.body:
            if isinstance(n, ast.FunctionDef) and n.name in ('__getattr__', '__getattribute__', '__setattr__') or \
                    isinstance(n, ast.FunctionDef) and n.name in ADDRESS_ATTRS:
                raise Untranslatable(f'{c.name} defines {n.name}')
    # the declared constructors: Address((wc, hash_part)) stores the pair and leaves anycast None; ExternalAddress(int, int) stores both
    tup = [x for x in ainit[0].body if isinstance(x, ast.If) and ast.unparse(x.test) == 'isinstance(address, tuple)']
    if len(tup) != 1 or [ast.unparse(x) for x in tup[0].body if not isinstance(x, ast.Expr)] != [
            'self.wc = address[0]', "assert isinstance(address[1], bytes), 'expected bytes address hash part'", 'self.hash_part = address[1]', 'return'] \
            or ainit[0].body.index(tup[0]) != max(i for i, x in enumerate(ainit[0].body) if isinstance(x, (ast.Assign, ast.AnnAssign))) + 1:
        raise Untranslatable('Address.__init__: the tuple branch does not just store (wc, hash_part)')
    ext = _class(adt, 'ExternalAddress', ADDRESS_SRC)
    einit = [n for n in ext.body if isinstance(n, ast.FunctionDef) and n.name == '__init__']
    if len(einit) != 1 or [a.arg for a in einit[0].args.args] != ['self', 'address', 'length'] or [ast.unparse(x) for x in einit[0].body] != [
            'if isinstance(address, str):\n    address = bytes.fromhex(address)', "if isinstance(address, bytes):\n    address = int.from_bytes(address, 'big')",
            'if length is None:\n    length = address.bit_length()', 'self.external_address = address', 'self.len = length']:
        raise Untranslatable('ExternalAddress.__init__ does not just store (address, length) for an int address and an int length')
    for name in ('Address', 'ExternalAddress'):
        if pybytes.imported_from(st, name) != ('address', 1):
            raise Untranslatable(f'{name} is not imported from .address in {SLICE_SRC}')
    for name in ('Address', 'ExternalAddress'):
        if pybytes.imported_from(bt, name) != ('address', 1):
            raise Untranslatable(f'{name} is not imported from .address in {BUILDER}')
    g = GROUPS[group]
    sigs = dict(SIGS)
    externs = {'int2ba': True, 'ba2int': True, 'str=utf8': True, 'unions': UNIONS, 'copy=value': True, 'ref_functions': {'HashMap': 'parse'},
               'mk': 'Bits → List R → Option (Py.CellV R)'}
    reuse = None
    if g.get('cell_as_ref'):
        # a cell built by `end_cell` is only used as a reference; `<ref>.begin_parse()` = Slice(view.bits, view.refs), ref_offset 0
        classes['Cell'] = dict(classes['Cell'], ctor=dict(classes['Cell']['ctor'], type=REF))
        externs.update({'mk': 'Bits → List R → Option R', 'view': 'R → Py.CellV R',
                        'ref_methods': {'begin_parse': dict(cls='Slice', lean='({{ bits := (view {0}).bits, refs := (view {0}).refs, ref_offset := 0 }} : Py.SliceSt R)')}})
        cb = _class(_tree('pytoniq_core/boc/cell.py'), 'Cell', 'pytoniq_core/boc/cell.py')
        bp = [n for n in cb.body if isinstance(n, ast.FunctionDef) and n.name == 'begin_parse']
        if len(bp) != 1 or [ast.unparse(x) for x in bp[0].body if not (isinstance(x, ast.Expr) and isinstance(x.value, ast.Constant))][-1:] != ['return Slice(self.bits.copy(), self.refs.copy(), self.type_)']:
            raise Untranslatable('Cell.begin_parse is not `return Slice(self.bits.copy(), self.refs.copy(), self.type_)`')
        sigs[('Builder', 'store_ref')] = [REF]
    if g.get('reuse'):
        others = []
        for og in g['reuse']:
            op = program(og)
            for cls, name, argtypes in _entries(GROUPS[og]):
                op.method(cls, name, argtypes)
                if (cls, name) not in POLY:
                    sigs.setdefault((cls, name), argtypes)
            others.append((GROUPS[og]['ns'], op))

        def reuse(owner, name, argtypes):
            for ns, op in others:
                info = op.done.get((owner, name, tuple(argtypes)))
                if info is not None and not info.get('mk') and 'Cell' not in str(argtypes) + str(info['ret']):
                    return dict(info, lean=f'{ns}.{info["lean"]}', text=None)
            return None
    poly = set(POLY)
    if g.get('forms'):
        poly |= FORMS_POLY
        # declared: `Address(<str>)` (the parser of the textual forms, address.py `is_hex / is_b64`) is the interface function `addrOfStr`
        classes['Address'] = dict(classes['Address'], ctor=dict(classes['Address']['ctor'], of={STR: ('addrOfStr', 'Bytes → Option Py.AddrV')}))
        for k in [k for k in sigs if k[0] == 'Builder' and k[1] in ('store_bit', 'store_bits', 'store_address')]:
            del sigs[k]
    else:
        for cls, name, argtypes in _entries(g):
            sigs[(cls, name)] = argtypes
    return SProgram(classes, main=g['main'], poly=poly, externs=externs, src=g['files'][0], sigs=sigs, reuse=reuse)


def translate_all(group):
    """-> {lean definition name: text}; raises Untranslatable"""
    prog = program(group)
    g = GROUPS[group]
    for cls, name, argtypes in _entries(g):
        prog.method(cls, name, argtypes)
    return dict(prog.defs)


def out_path(group):
    return f'TonVerif/Generated/{group}.lean'


def committed_text(group):
    try:
        r = subprocess.run(['git', '-C', os.path.dirname(LEAN), 'show', f'HEAD:lean/{out_path(group)}'], capture_output=True, text=True, timeout=20)
        if r.returncode == 0 and r.stdout.startswith('/- GENERATED') and f'namespace {GROUPS[group]["ns"]}' in r.stdout:
            return r.stdout
    except Exception:
        pass
    return None


def generate(group, old=None):
    """-> (text, info, lost).  The methods depend on each other (signatures): the file is regenerated as a whole or not at all."""
    try:
        defs = translate_all(group)
    except Exception as e:       # outside the subset (or a source shape the translator does not anticipate): keep the clean tree's translation
        keep = committed_text(group) or old
        if keep is None:
            raise Untranslatable(f'{e} (and no previous translation to keep)')
        return keep, {}, {group: f'{type(e).__name__}: {e}'}
    out = head(group)
    for name, text in defs.items():
        out += [f'-- BEGIN {name}', text.rstrip('\n'), f'-- END {name}', '']
    out.append(f'end {GROUPS[group]["ns"]}')
    return '\n'.join(out) + '\n', {n: 'regenerated' for n in defs}, {}



def regenerator(group):
    def regenerate():
        path = os.path.join(LEAN, out_path(group))
        try:
            old = open(path).read()
        except FileNotFoundError:
            old = None
        text, info, lost = generate(group, old=old)
        changed = write_if_changed(path, text)
        h = hashlib.sha256(text.encode())
        for f in GROUPS[group]['files']:
            h.update(open(os.path.join(REPO, f), 'rb').read())
        for f in (__file__, pymeth.__file__, pyobj.__file__, pybytes.__file__, pybytes.pyarith.__file__, os.path.join(LEAN, 'TonVerif/PyBits.lean'),
                  os.path.join(LEAN, 'TonVerif/PyBytes.lean')):
            h.update(open(f, 'rb').read())
        stamp = os.path.join(LEAN, '.lake', f'srcval_{group}.stamp')
        try:
            cached = open(stamp).read() == h.hexdigest()
        except OSError:
            cached = False
        n = 0
        if not cached and not lost:
            bad, n = validate(group)
            if bad:                      # the translation does not compute what Python computes: do not keep it
                keep = committed_text(group) or old
                if keep is None:
                    raise Untranslatable(bad)
                changed = write_if_changed(path, keep) or changed
                lost = {group: bad}
            else:
                try:
                    with open(stamp, 'w') as f:
                        f.write(h.hexdigest())
                except OSError:
                    pass
        if lost:
            raise Untranslatable(f'kept the previous translation: {lost} (file changed: {changed})')
        return changed, {'definitions': sorted(info), 'validated': 'cached' if cached else f'Lean evaluation = the library on {n} op scripts'}
    regenerate.__name__ = f'regenerate_{group}'
    return regenerate


# ---------------------------------------------------------------------------- scripts (tokens as in harness/gen/scripts.py, a subset + bool / bi)

CTX_DAG = [(-1, '1011', ()), (-1, '', ()), (-1, '11110000', (0, 1)), (-1, '1' * 100, (2, 2, 0)), (-1, '0' * 1023, (0, 1, 2, 3)), (-1, '10', (0,)),
           (-1, '', (0, 1))]
BUILDER_TOKS = ('u', 'i', 'vu', 'vi', 'c', 'b', 'by', 'bit', 'bool', 'bi', 'r', 'mr', 'd', 'cell', 'sl')
SLICE_TOKS = ('la', 'pa', 'ld', 'pd', 'ls', 'ps', 'pr', 'lu', 'li', 'pu', 'pi', 'lb', 'pb', 'lby', 'pby', 'bit', 'pbit', 'lbool', 'pbool', 'sk', 'lr', 'lmr', 'pmr', 'lvu', 'pvu', 'lvi', 'pvi',
              'lc', 'pc')


def builder_scripts():
    """[(prefill bits, prefill refs, [tokens])]: every regenerated store at the value / capacity boundaries (deterministic)"""
    import random
    rng = random.Random(20240929)
    out = []
    singles = []
    for n in (0, 1, 2, 7, 8, 9, 32, 64, 256, 257):
        for v in (0, 1, -1, (1 << n) - 1, 1 << n, 1 << max(n - 1, 0), (1 << max(n - 1, 0)) - 1, -(1 << max(n - 1, 0)), -(1 << max(n - 1, 0)) - 1):
            singles += [f'u:{v}:{n}', f'i:{v}:{n}']
    for k in (0, 1, 3, 4, 5):
        for v in (0, 1, -1, 127, 128, 255, 256, -128, -129, 32767, 32768, -32768, -32769, (1 << 56) - 1, 1 << 56, (1 << 120) - 1, 1 << 120, -(1 << 119), -(1 << 119) - 1):
            singles += [f'vu:{v}:{k}', f'vi:{v}:{k}']
    singles += [f'c:{v}' for v in (0, 1, 255, 256, 10 ** 9, (1 << 120) - 1, 1 << 120, -7)]
    singles += ['b:-', 'b:1', 'b:10110', 'b:' + '1' * 100, 'by:-', 'by:00', 'by:ff01', 'by:' + 'ab' * 127, 'by:' + 'ab' * 128,
                'bit:0', 'bit:1', 'bit:2', 'bit:7', 'bool:0', 'bool:1', 'bi:0', 'bi:1', 'bi:3', 'r:0', 'r:3', 'mr:-', 'mr:2', 'd:-', 'd:1',
                's:-', 's:61', 's:' + 'c3a9' * 63, 's:' + '61' * 127, 's:' + '61' * 128, 'a:n', 'a:e:0:0', 'a:e:0:5', 'a:e:1:1', 'a:e:1:2', 'a:e:9:300', 'a:e:9:-1', 'a:e:511:' + str((1 << 511) - 1), 'a:e:512:1', 'a:e:3:8',
                'a:s:0:' + '00' * 32, 'a:s:-1:' + 'ab' * 32, 'a:s:127:' + '11' * 32,
                'a:s:128:' + '00' * 32, 'a:s:-128:' + 'ff' * 32, 'a:s:-129:' + '00' * 32, 'a:s:0:' + '22' * 32 + ':1:1', 'a:s:0:' + '22' * 32 + ':30:5',
                'a:s:0:' + '22' * 32 + ':31:5', 'a:s:0:' + '22' * 32 + ':32:5', 'a:s:0:' + '22' * 32 + ':3:8', 'a:s:0:' + '22' * 32 + ':0:0', 'a:s:5:' + '33' * 31,
                'a:s:5:-', 'cell:0', 'cell:2', 'cell:3', 'cell:4', 'cell:5', 'cell:6', 'sl:3:0:0', 'sl:3:50:1', 'sl:3:100:3', 'sl:4:1000:2', 'sl:4:0:0', 'sl:6:0:1', 'sl:2:3:2']
    for fb in (0, 1, 500, 1015, 1016, 1019, 1020, 1021, 1022, 1023):
        for fr in (0, 2, 3, 4):
            toks = rng.sample(singles, 14)
            out.append((fb, fr, toks))
    for i in range(0, len(singles), 12):
        out.append((0, 0, singles[i:i + 12]))
        out.append((1010, 3, singles[i:i + 12]))
    return out


def slice_scripts():
    """[(bits, refs (indices into CTX_DAG), [tokens])]"""
    import random
    rng = random.Random(20240930)
    out = []
    ops = [f'{k}:{n}' for k in ('lu', 'li', 'pu', 'pi', 'lb', 'pb', 'sk') for n in (0, 1, 2, 3, 7, 8, 9, 16, 17, 64, 257, 1023)]
    ops += [f'{k}:{n}' for k in ('lby', 'pby') for n in (0, 1, 2, 3, 127, 128)]
    ops += [f'{k}:{n}' for k in ('lvu', 'pvu', 'lvi', 'pvi') for n in (0, 1, 2, 3, 4, 5)]
    ops += ['bit', 'pbit', 'lbool', 'pbool', 'lr', 'pr', 'lmr', 'pmr', 'lc', 'pc'] * 3
    ops += [f'{k}:{n}' for k in ('ls', 'ps') for n in (0, 1, 2, 5, 127)]
    for n in (0, 1, 2, 3, 5, 8, 9, 16, 17, 40, 100, 300, 1023):
        for nrefs in (0, 1, 2, 4):
            for rep in range(3):
                bits = ''.join(rng.choice('01') for _ in range(n))
                if rep == 1 and n >= 8:
                    bits = format(rng.randrange(0, 4), '04b') + bits[4:]          # a small length prefix
                if rep == 2 and n:
                    bits = '1' + bits[1:]
                out.append((bits, tuple(rng.randrange(0, 4) for _ in range(nrefs)), rng.sample(ops, 8)))
    # structured: TL-B encodings (independent encoder of harness/gen/scripts.py) followed by a tail, peeked then loaded
    from ..gen import scripts as S
    cells = _lib_cells()
    toks = ['u:5:3', 'u:0:1', 'i:-1:8', 'i:-128:8', 'i:127:8', 'vu:0:4', 'vu:255:4', 'vu:65536:4', 'vi:-129:4', 'vi:-1:3', 'vi:32767:5', 'c:0', 'c:1000000000',
            'c:' + str((1 << 120) - 1), 'by:00ff10', 's:68c3a96c6c6f', 'bit:1', 'bit:0', 'mr:-', 'mr:2', 'd:-', 'd:1', 'a:n', 'a:e:0:0', 'a:e:1:1', 'a:e:9:300',
            'a:e:511:' + str((1 << 511) - 1), 'a:s:0:' + '00' * 32, 'a:s:-1:' + 'ab' * 32, 'a:s:127:' + 'cd' * 32 + ':1:1', 'a:s:-128:' + 'ef' * 32 + ':30:' + str((1 << 30) - 1),
            'a:s:5:' + '12' * 32 + ':31:7']
    for t in toks:
        e = S.enc_tok(t, cells)
        nref = 1 if e[1] else 0
        for tail in ('', '1', '0110'):
            out.append((e[0] + tail, (2, 1)[:nref + 1], [e[4], e[2], 'pbit', e[4]]))
        if len(e[0]) > 1:
            out.append((e[0][:-1], (2,), [e[4], e[2]]))                    # one bit short
    # address forms the library refuses / special cases: anycast depth 0, tag 11, extern with short payload, std cut short
    for bits in ('10' + '1' + '00000' + '0' * 300, '11' + '0' * 300, '01' + '000001000' + '1' * 7, '10' + '0' + '0' * 100, '10' + '1' + '00011' + '101' + '0' * 263,
                 '10' + '1' + '00011' + '101' + '0' * 264 + '11', '01' + '000000000', '0', '', '1', '100', '1000000000'):
        out.append((bits, (), ['pa', 'la', 'pbit']))
    return out


def _lib_cells():
    from ..gen import cells as G
    return G.lib_build(CTX_DAG)


def py_builder(cells, fb, fr, toks):
    """the library on one builder script -> 'flags|bits|refs'"""
    from pytoniq_core.boc.builder import Builder
    from bitarray import bitarray
    from ..gen import scripts as S
    from pytoniq_core.boc.tvm_bitarray import TvmBitarray
    b = Builder()
    b._bits = TvmBitarray(1023, bitarray('0' * fb))      # set directly: the prefill must not depend on the methods under test
    b._refs = [cells[0]] * fr
    flags = ''
    for tok in toks:
        p = tok.split(':')
        k = p[0]
        try:
            if k == 'u':
                b.store_uint(int(p[1]), int(p[2]))
            elif k == 'i':
                b.store_int(int(p[1]), int(p[2]))
            elif k == 'vu':
                b.store_var_uint(int(p[1]), int(p[2]))
            elif k == 'vi':
                b.store_var_int(int(p[1]), int(p[2]))
            elif k == 'c':
                b.store_coins(int(p[1]))
            elif k == 'b':
                b.store_bits(bitarray('' if p[1] == '-' else p[1]))
            elif k == 'by':
                b.store_bytes(bytes.fromhex(p[1].replace('-', '')))
            elif k == 'bit':
                b.store_bit(int(p[1]))
            elif k == 'bool':
                b.store_bool(p[1] == '1')
            elif k == 'bi':
                b.store_bit_int(int(p[1]))
            elif k == 's':
                b.store_string(bytes.fromhex(p[1].replace('-', '')).decode())
            elif k == 'a':
                b.store_address(S.mk_addr(p[1:]))
            elif k == 'r':
                b.store_ref(cells[int(p[1])])
            elif k == 'mr':
                b.store_maybe_ref(None if p[1] == '-' else cells[int(p[1])])
            elif k == 'd':
                b.store_dict(None if p[1] == '-' else cells[int(p[1])])
            elif k == 'cell':
                b.store_cell(cells[int(p[1])])
            elif k in ('bitf', 'bitsf'):
                arg = '' if p[2] == '-' else p[2]
                if p[1] == 'bool':
                    x = arg == '1'
                elif p[1] == 'str':
                    x = bytes.fromhex(arg).decode()
                elif p[1] == 'tvm':
                    x = TvmBitarray(1023, bitarray(arg))
                elif p[1] == 'ba':
                    x = bitarray(arg)
                elif p[1] in ('ints', 'tuple'):
                    x = [int(v) for v in arg.split('.')] if arg else []
                    x = tuple(x) if p[1] == 'tuple' else x
                else:
                    x = iter([int(c) for c in arg])
                (b.store_bit if k == 'bitf' else b.store_bits)(x)
            elif k == 'as':
                b.store_address(bytes.fromhex(p[1].replace('-', '')).decode())
            elif k == 'sn':
                b.store_snake_bytes(bytes.fromhex(p[1].replace('-', '')))
            elif k == 'sns':
                b.store_snake_string(bytes.fromhex(p[1].replace('-', '')).decode(), p[2] == '1')
            elif k == 'sl':
                from pytoniq_core.boc.slice import Slice
                from pytoniq_core.boc.tvm_bitarray import TvmBitarray
                c = cells[int(p[1])]               # built directly: the argument must not depend on the methods under test
                sl = Slice(TvmBitarray(1023, bitarray(c.bits.to01()[int(p[2]):])), list(c.refs))
                sl.ref_offset = int(p[3])
                b.store_slice(sl)
            else:
                raise KeyError(tok)
            flags += '1'
        except KeyError:
            raise
        except Exception:
            flags += '0'
    return f'{flags or "-"}|{S.show_bits(b.bits)}|{S.show_refs(b.refs)}'


def py_slice(cells, bits, refs, toks):
    """the library on one slice script -> 'r1;r2;..|bits|remaining refs'"""
    from pytoniq_core.boc.slice import Slice
    from pytoniq_core.boc.tvm_bitarray import TvmBitarray
    from bitarray import bitarray
    from ..gen import scripts as S
    s = Slice(TvmBitarray(1023, bitarray(bits)), [cells[i] for i in refs])
    out = []
    for tok in toks:
        p = tok.split(':')
        k = p[0]
        try:
            if k in ('lu', 'li', 'pu', 'pi', 'lvu', 'pvu', 'lvi', 'pvi'):
                f = {'lu': s.load_uint, 'li': s.load_int, 'pu': s.preload_uint, 'pi': s.preload_int, 'lvu': s.load_var_uint,
                     'pvu': s.preload_var_uint, 'lvi': s.load_var_int, 'pvi': s.preload_var_int}[k]
                r = str(int(f(int(p[1]))))
            elif k in ('lb', 'pb'):
                r = S.show_bits((s.load_bits if k == 'lb' else s.preload_bits)(int(p[1])))
            elif k in ('lby', 'pby'):
                r = (s.load_bytes if k == 'lby' else s.preload_bytes)(int(p[1])).hex() or '-'
            elif False:
                pass
            elif k in ('bit', 'pbit', 'lbool', 'pbool'):
                r = str(int({'bit': s.load_bit, 'pbit': s.preload_bit, 'lbool': s.load_bool, 'pbool': s.preload_bool}[k]()))
            elif k == 'sk':
                s.skip_bits(int(p[1]))
                r = 'ok'
            elif k == 'lr':
                r = s.load_ref().hash.hex()
            elif k == 'pr':
                r = s.preload_ref().hash.hex()
            elif k in ('ls', 'ps'):
                r = (s.load_string if k == 'ls' else s.preload_string)(int(p[1])).encode().hex() or '-'
            elif k in ('lmr', 'pmr'):
                x = (s.load_maybe_ref if k == 'lmr' else s.preload_maybe_ref)()
                r = 'none' if x is None else x.hash.hex()
            elif k in ('la', 'pa'):
                r = S.show_addr((s.load_address if k == 'la' else s.preload_address)())
            elif k in ('ld', 'pd'):
                ro, bit = s.ref_offset, (s.bits[0] if len(s.bits) else None)
                try:
                    x = (s.load_dict if k == 'ld' else s.preload_dict)(int(p[1]))
                except Exception:
                    if bit != 1 or ro >= len(s.refs):
                        raise
                    x = 'cell'        # the dictionary parser raised on this cell (C09's subject): the cell was handed over
                r = 'none' if x is None else s.refs[ro].hash.hex()
            elif k in ('lc', 'pc'):
                r = str(int((s.load_coins if k == 'lc' else s.preload_coins)()))
            elif k == 'lsn':
                r = s.load_snake_bytes().hex() or '-'
            elif k == 'lss':
                r = s.load_snake_string().encode().hex() or '-'
            else:
                raise KeyError(tok)
        except KeyError:
            raise
        except UnicodeDecodeError as e:          # str <-> UTF-8 is outside the model: the result is the bytes before .decode()
            r = bytes(e.object).hex() or '-'
        except Exception:
            r = 'x'
        out.append(r)
    return f'{";".join(out) or "-"}|{S.show_bits(s.bits)}|{S.show_refs(s.refs[s.ref_offset:])}'


LEAN_EVAL = """import TonVerif.Drv.Builder
import TonVerif.Generated.BuilderOps
import TonVerif.Generated.SliceOps
open TonVerif TonVerif.Model TonVerif.Drv
namespace BsEval
abbrev GB := Builder RCell → Builder RCell × Option Unit
/-- `Cell(bits, refs, -1)` as `end_cell` calls it: the driver's constructor (C01's model) -/
def mkV (bits : Bits) (refs : List RCell) : Option (Py.CellV RCell) := (mkCell bits refs).map fun c => ⟨c.bits, c.refs⟩
def flagOf (r : Builder RCell × Bool) : Builder RCell × Option Unit := (r.1, if r.2 then some () else none)
/-- the regenerated method and the hand model's operation of a builder token -/
def gop (ctx : Array (Option RCell)) (tok : String) : Option (GB × GB) :=
  let node (s : String) : Option RCell := s.toNat?.bind (fun i => (ctx[i]?).join)
  let m (f : BOp RCell) : GB := fun b => flagOf (f b)
  match tok.splitOn ":" with
  | ["u", v, n] => do let v ← v.toInt?; let n ← n.toNat?; pure (Generated.BuilderOps.store_uint v n, m (BOp.storeUint v n))
  | ["i", v, n] => do let v ← v.toInt?; let n ← n.toNat?; pure (Generated.BuilderOps.store_int v n, m (BOp.storeInt v n))
  | ["vu", v, k] => do let v ← v.toInt?; let k ← k.toNat?; pure (Generated.BuilderOps.store_var_uint v k, m (BOp.storeVarUint v k))
  | ["vi", v, k] => do let v ← v.toInt?; let k ← k.toNat?; pure (Generated.BuilderOps.store_var_int v k, m (BOp.storeVarInt v k))
  | ["c", v] => do let v ← v.toInt?; pure (Generated.BuilderOps.store_coins v, m (BOp.storeCoins v))
  | ["b", bs] => do let bs ← parseBits bs; pure (Generated.BuilderOps.store_bits bs, m (BOp.storeBits bs))
  | ["by", h] => do let h ← hexArg h; pure (Generated.BuilderOps.store_bytes h, m (BOp.storeBytes h))
  | ["bit", b] => do let v ← b.toNat?; pure (Generated.BuilderOps.store_bit v, if v < 2 then m (BOp.storeBit (v == 1)) else fun b => (b, none))
  | ["bi", b] => do let v ← b.toNat?; pure (Generated.BuilderOps.store_bit_int v, if v < 2 then m (BOp.storeBit (v == 1)) else fun b => (b, none))
  | ["bool", b] => some (Generated.BuilderOps.store_bool (b == "1"), m (BOp.storeBit (b == "1")))
  | ["s", h] => do let h ← hexArg h; pure (Generated.BuilderOps.store_string h, m (BOp.storeString h))
  | ["a", "n"] => some (Generated.BuilderOps.store_address_none (), m (BOp.storeAddress Addr.none))
  | ["a", "e", l, v] => do
      let l ← l.toNat?; let v ← v.toInt?
      pure (Generated.BuilderOps.store_address_externaladdress mkV ⟨v, l⟩, m (BOp.storeAddress (Addr.ext l v)))
  | ["a", "s", wc, h] => do
      let wc ← wc.toInt?; let h ← hexArg h
      pure (Generated.BuilderOps.store_address_address ⟨wc, h, none⟩, m (BOp.storeAddress (Addr.std none wc h)))
  | ["a", "s", wc, h, d, px] => do
      let wc ← wc.toInt?; let h ← hexArg h; let d ← d.toNat?; let px ← px.toInt?
      pure (Generated.BuilderOps.store_address_address ⟨wc, h, some ⟨d, px⟩⟩, m (BOp.storeAddress (Addr.std (some (d, px)) wc h)))
  | ["r", n] => do let c ← node n; pure (Generated.BuilderOps.store_ref c, m (BOp.storeRef c))
  | ["mr", n] => if n == "-" then some (Generated.BuilderOps.store_maybe_ref none, m (BOp.storeMaybeRef none))
      else do let c ← node n; pure (Generated.BuilderOps.store_maybe_ref (some c), m (BOp.storeMaybeRef (some c)))
  | ["d", n] => if n == "-" then some (Generated.BuilderOps.store_dict none, m (BOp.storeDict none))
      else do let c ← node n; pure (Generated.BuilderOps.store_dict (some c), m (BOp.storeDict (some c)))
  | ["cell", n] => do let c ← node n; pure (Generated.BuilderOps.store_cell ⟨c.bits, c.refs⟩, m (BOp.storeCell c.bits c.refs))
  | ["sl", n, sb, sr] => do
      let c ← node n; let sb ← sb.toNat?; let sr ← sr.toNat?
      pure (Generated.BuilderOps.store_slice ⟨c.bits.drop sb, c.refs, sr⟩, m (BOp.storeSlice (c.bits.drop sb) (c.refs.drop sr)))
  | _ => none
def showB (r : Builder RCell × Option Unit) : String := s!"{if r.2.isSome then "1" else "0"}/{showBits r.1.bits}/{showRefs r.1.refs}"
/-- `<fill bits>,<fill refs>,<tok;tok;...>`; mode val: the regenerated methods run as a history -> flags|bits|refs;
    mode diff: per op "same" / "DIFF": regenerated method vs hand model on the state reached by the hand model -/
def runBWith (gp : Array (Option RCell) → String → Option (GB × GB)) (ctx : Array (Option RCell)) (mode : String) (w : String) : String :=
  match w.splitOn "," with
  | [fb, fr, ops] =>
    match fb.toNat?, fr.toNat?, (ctx[0]?).join, (if ops == "-" then some [] else (ops.splitOn ";").mapM (gp ctx)) with
    | some fb, some fr, some c0, some fs =>
      let b0 : Builder RCell := ⟨List.replicate fb false, List.replicate fr c0⟩
      if mode == "val" then
        let (b, flags) := fs.foldl (fun (acc : Builder RCell × String) f =>
          let r := f.1 acc.1
          (r.1, acc.2 ++ (if r.2.isSome then "1" else "0"))) (b0, "")
        s!"{if flags.isEmpty then "-" else flags}|{showBits b.bits}|{showRefs b.refs}"
      else
        let (_, out) := fs.foldl (fun (acc : Builder RCell × List String) f =>
          let g := f.1 acc.1
          let h := f.2 acc.1
          (h.1, acc.2 ++ [if showB g == showB h then "same" else "DIFF"])) (b0, [])
        ";".intercalate out
    | _, _, _, _ => "bad"
  | _ => "bad"

abbrev GS := Py.SliceSt RCell → Py.SliceSt RCell × String
def viewS (s : Py.SliceSt RCell) : Slice RCell := ⟨s.bits, s.refs.drop s.ref_offset⟩
def showOptRef (o : Option RCell) : String := match o with | some c => c.hashHex | none => "none"
def bitS (b : Bool) : String := if b then "1" else "0"
def showAddrR : Py.AddrR → String
  | .none => "n"
  | .ext a => s!"e:{a.len}:{a.external_address}"
  | .std a => match a.anycast with
    | none => s!"s:{a.wc}:{dashHex a.hash_part}"
    | some c => s!"s:{a.wc}:{dashHex a.hash_part}:{c.depth}:{c.rewrite_pfx}"
/-- the regenerated method and the hand model's operation of a slice token, results rendered -/
def gsop (tok : String) : Option (GS × (Slice RCell → Slice RCell × String)) :=
  let fin {σ α : Type} (f : α → String) (r : σ × Option α) : σ × String := (r.1, match r.2 with | some a => f a | none => "x")
  let showI (i : Int) : String := toString i
  let showN (i : Nat) : String := toString i
  match tok.splitOn ":" with
  | ["lu", n] => do let n ← n.toNat?; pure (fun s => fin showN (Generated.SliceOps.load_uint n s), fun s => fin showI (SOp.loadUint n s))
  | ["li", n] => do let n ← n.toNat?; pure (fun s => fin showI (Generated.SliceOps.load_int n s), fun s => fin showI (SOp.loadInt n s))
  | ["pu", n] => do let n ← n.toNat?; pure (fun s => fin showN (Generated.SliceOps.preload_uint n s), fun s => fin showI (SOp.preloadUint n s))
  | ["pi", n] => do let n ← n.toNat?; pure (fun s => fin showI (Generated.SliceOps.preload_int n s), fun s => fin showI (SOp.preloadInt n s))
  | ["lb", n] => do let n ← n.toNat?; pure (fun s => fin showBits (Generated.SliceOps.load_bits n s), fun s => fin showBits (SOp.loadBits n s))
  | ["pb", n] => do let n ← n.toNat?; pure (fun s => fin showBits (Generated.SliceOps.preload_bits n s), fun s => fin showBits (SOp.peekBits n s))
  | ["lby", n] => do let n ← n.toNat?; pure (fun s => fin dashHex (Generated.SliceOps.load_bytes n s), fun s => fin dashHex (SOp.loadBytes n s))
  | ["pby", n] => do let n ← n.toNat?; pure (fun s => fin dashHex (Generated.SliceOps.preload_bytes n s), fun s => fin dashHex (SOp.preloadBytes n s))
  | ["bit"] => some (fun s => fin showN (Generated.SliceOps.load_bit s), fun s => fin bitS (SOp.loadBit s))
  | ["pbit"] => some (fun s => fin showN (Generated.SliceOps.preload_bit s), fun s => fin bitS (SOp.preloadBit s))
  | ["lbool"] => some (fun s => fin bitS (Generated.SliceOps.load_bool s), fun s => fin bitS (SOp.loadBit s))
  | ["pbool"] => some (fun s => fin bitS (Generated.SliceOps.preload_bool s), fun s => fin bitS (SOp.preloadBit s))
  | ["sk", n] => do let n ← n.toNat?; pure (fun s => fin (fun _ => "ok") (Generated.SliceOps.skip_bits n s), fun s => fin (fun _ => "ok") (SOp.skipBits n s))
  | ["lr"] => some (fun s => fin RCell.hashHex (Generated.SliceOps.load_ref s), fun s => fin RCell.hashHex (SOp.loadRef s))
  | ["pr"] => some (fun s => fin RCell.hashHex (Generated.SliceOps.preload_ref 0 s), fun s => fin RCell.hashHex (SOp.preloadRef s))
  | ["ls", n] => do let n ← n.toNat?; pure (fun s => fin dashHex (Generated.SliceOps.load_string n s), fun s => fin dashHex (SOp.loadString n s))
  | ["ps", n] => do let n ← n.toNat?; pure (fun s => fin dashHex (Generated.SliceOps.preload_string n s), fun s => fin dashHex (SOp.preloadString n s))
  | ["lmr"] => some (fun s => fin showOptRef (Generated.SliceOps.load_maybe_ref s), fun s => fin showOptRef (SOp.loadMaybeRef s))
  | ["pmr"] => some (fun s => fin showOptRef (Generated.SliceOps.preload_maybe_ref s), fun s => fin showOptRef (SOp.preloadMaybeRef s))
  | ["lvu", k] => do let k ← k.toNat?; pure (fun s => fin showN (Generated.SliceOps.load_var_uint k s), fun s => fin showI (SOp.loadVarUint k s))
  | ["pvu", k] => do let k ← k.toNat?; pure (fun s => fin showN (Generated.SliceOps.preload_var_uint k s), fun s => fin showI (SOp.preloadVarUint k s))
  | ["lvi", k] => do let k ← k.toNat?; pure (fun s => fin showI (Generated.SliceOps.load_var_int k s), fun s => fin showI (SOp.loadVarInt k s))
  | ["pvi", k] => do let k ← k.toNat?; pure (fun s => fin showI (Generated.SliceOps.preload_var_int k s), fun s => fin showI (SOp.preloadVarInt k s))
  | ["la"] => some (fun s => fin showAddrR (Generated.SliceOps.load_address s), fun s => fin showAddr (SOp.loadAddress s))
  | ["pa"] => some (fun s => fin showAddrR (Generated.SliceOps.preload_address s), fun s => fin showAddr (SOp.preloadAddress s))
  | ["ld", k] => do let k ← k.toNat?; pure (fun s => fin showOptRef (Generated.SliceOps.load_dict k () () s), fun s => fin showOptRef (SOp.loadDict s))
  | ["pd", k] => do let k ← k.toNat?; pure (fun s => fin showOptRef (Generated.SliceOps.preload_dict k () () s), fun s => fin showOptRef (SOp.preloadDict s))
  | ["lc"] => some (fun s => fin showN (Generated.SliceOps.load_coins s), fun s => fin showI (SOp.loadCoins s))
  | ["pc"] => some (fun s => fin showN (Generated.SliceOps.preload_coins s), fun s => fin showI (SOp.preloadCoins s))
  | _ => none
/-- `<bits>,<ref indices . separated | ->,<tok;tok;...>` -/
def runSWith (gp : String → Option (GS × (Slice RCell → Slice RCell × String))) (ctx : Array (Option RCell)) (mode : String) (w : String) : String :=
  match w.splitOn "," with
  | [bits, refs, ops] =>
    match parseBits bits, parseNatList refs, (if ops == "-" then some [] else (ops.splitOn ";").mapM gp) with
    | some bits, some ris, some fs =>
      match ris.mapM (fun i => (ctx[i]?).join) with
      | none => "bad"
      | some rs =>
        let s0 : Py.SliceSt RCell := ⟨bits, rs, 0⟩
        if mode == "val" then
          let (s, out) := fs.foldl (fun (acc : Py.SliceSt RCell × List String) f => let r := f.1 acc.1; (r.1, acc.2 ++ [r.2])) (s0, [])
          s!"{if out.isEmpty then "-" else ";".intercalate out}|{showBits s.bits}|{showRefs (s.refs.drop s.ref_offset)}"
        else
          let show1 (r : Slice RCell × String) : String := s!"{r.2}/{showBits r.1.bits}/{showRefs r.1.refs}"
          let (_, out) := fs.foldl (fun (acc : Py.SliceSt RCell × List String) f =>
            let g := f.1 acc.1
            let h := f.2 (viewS acc.1)
            -- advance with the hand model (re-embedded: consumed references stay consumed)
            let nxt : Py.SliceSt RCell := ⟨h.1.bits, acc.1.refs, acc.1.refs.length - h.1.refs.length⟩
            (nxt, acc.2 ++ [if show1 (viewS g.1, g.2) == show1 h then "same" else "DIFF"])) (s0, [])
          ";".intercalate out
    | _, _, _ => "bad"
  | _ => "bad"
def runB := runBWith gop
def runS := runSWith gsop
end BsEval
"""

# the snake methods (Generated/SnakeOps.lean): the same evaluators with the tokens sn / sns / lsn / lss added
LEAN_EVAL_SNAKE = """namespace BsEval
def viewV (c : RCell) : Py.CellV RCell := ⟨c.bits, c.refs⟩
def gopSn (ctx : Array (Option RCell)) (tok : String) : Option (GB × GB) :=
  match tok.splitOn ":" with
  | ["sn", h] => do let h ← hexArg h; pure (Generated.SnakeOps.store_snake_bytes mkCell h, fun b => flagOf (BOp.storeSnake mkCell h b))
  | ["sns", h, p] => do
      let h ← hexArg h
      pure (Generated.SnakeOps.store_snake_string mkCell h (p == "1"), fun b => flagOf (BOp.storeSnakeString mkCell h (p == "1") b))
  | _ => gop ctx tok
def gsopSn (tok : String) : Option (GS × (Slice RCell → Slice RCell × String)) :=
  let fin {σ α : Type} (f : α → String) (r : σ × Option α) : σ × String := (r.1, match r.2 with | some a => f a | none => "x")
  match tok.splitOn ":" with
  | ["lsn"] => some (fun s => fin dashHex (Generated.SnakeOps.Slice_load_snake_bytes viewV 3000 s),
                     fun s => fin dashHex (SOp.loadSnakeFuel (fun c => (c.bits, c.refs)) 3000 s))
  | ["lss"] => some (fun s => fin dashHex (Generated.SnakeOps.Slice_load_snake_string viewV 3000 s),
                     fun s => fin dashHex (SOp.loadSnakeStringFuel (fun c => (c.bits, c.refs)) 3000 s))
  | _ => gsop tok
def runBSn := runBWith gopSn
def runSSn := runSWith gsopSn
end BsEval
"""

# the argument forms (Generated/ArgForms.lean): tokens bitf:<form>:<arg> / bitsf:<form>:<arg> / as:<hex of the text>
LEAN_EVAL_FORMS = """namespace BsEval
def intsArg (s : String) : Option (List Int) := if s == "-" then some [] else (s.splitOn ".").mapM String.toInt?
def addrOfStr (bs : Bytes) : Option Py.AddrV :=
  (Model.Address.parse (bs.map Char.ofNat)).map fun a => ⟨a.wc, a.hash, none⟩
def gopF (ctx : Array (Option RCell)) (tok : String) : Option (GB × GB) :=
  let same (f : GB) : Option (GB × GB) := some (f, f)
  match tok.splitOn ":" with
  | ["bitf", "bool", v] => same (Generated.ArgForms.store_bit_bool (v == "1"))
  | ["bitf", "str", h] => do let h ← hexArg h; same (Generated.ArgForms.store_bit_str h)
  | ["bitf", "tvm", b] => do let b ← parseBits b; same (Generated.ArgForms.store_bit_bits b)
  | ["bitf", "ba", b] => do let b ← parseBits b; same (Generated.ArgForms.store_bit_bitarray b)
  | ["bitf", "ints", xs] => do let xs ← intsArg xs; same (Generated.ArgForms.store_bit_ints xs)
  | ["bitsf", "str", h] => do let h ← hexArg h; same (Generated.ArgForms.store_bits_str h)
  | ["bitsf", "ints", xs] => do let xs ← intsArg xs; same (Generated.ArgForms.store_bits_ints xs)
  | ["bitsf", "tuple", xs] => do let xs ← intsArg xs; same (Generated.ArgForms.store_bits_ints xs)
  | ["bitsf", "ba", b] => do let b ← parseBits b; same (Generated.ArgForms.store_bits_bitarray b)
  | ["bitsf", "iter", _] => same (Generated.ArgForms.store_bits_iter ())
  | ["as", h] => do let h ← hexArg h; same (Generated.ArgForms.store_address_str addrOfStr h)
  | _ => gop ctx tok
def runBF := runBWith gopF
end BsEval
"""


def forms_scripts():
    """[(prefill bits, prefill refs, [tokens])]: every argument form of store_bit / store_bits at accepted / refused arguments and at the
    capacity boundary, store_address(str) for hex and base64 texts"""
    hx = lambda t: t.encode().hex() or '-'
    bit_toks = ['bitf:bool:0', 'bitf:bool:1'] + [f'bitf:str:{hx(t)}' for t in ('0', '1', '2', ' 1 ', '+1', '-0', '-1', '01', '1_0', '', 'x', '1.0', '0b1', '\n1', '1_', '_1', '1__0', '10', '+', ' ')] \
        + [f'bitf:tvm:{b}' for b in ('1', '0', '10', '011', '-')] + [f'bitf:ba:{b}' for b in ('1', '01', '-')] + ['bitf:ints:1', 'bitf:ints:0.1', 'bitf:ints:-']
    bits_toks = [f'bitsf:str:{hx(t)}' for t in ('01', '0 1', '0_1', '0\n1', '\t1', '2', '01x', '', ' ', '_', '1\r0', '1\x0b0\x0c1', '1\x1c0', '1' * 30, ' 1' * 20, 'é', '0-1')] \
        + [f'bitsf:ints:{x}' for x in ('0.1', '1.1.0', '2', '0.1.2', '-1', '-', '1')] + ['bitsf:tuple:1.0', 'bitsf:tuple:0.3'] \
        + [f'bitsf:ba:{b}' for b in ('1', '0110', '-', '1' * 24)] + ['bitsf:iter:01', 'bitsf:iter:-']
    out = []
    for fb in (0, 5, 1000, 1019, 1022, 1023):
        for i in range(0, len(bit_toks), 9):
            out.append((fb, 0, bit_toks[i:i + 9]))
        for i in range(0, len(bits_toks), 8):
            out.append((fb, 1, bits_toks[i:i + 8]))
    from pytoniq_core.boc.address import Address
    a1, a2 = Address((0, bytes(range(32)))), Address((-1, bytes([255] * 32)))
    texts = [a1.to_str(is_user_friendly=False), a2.to_str(is_user_friendly=False), a1.to_str(), a2.to_str(is_bounceable=False), a2.to_str(is_test_only=True),
             a1.to_str(is_url_safe=False), '0:zz', 'nonsense', '', '0:' + '00' * 31, '-1:' + 'ab' * 32, a1.to_str()[:-1] + 'A']
    for fb in (0, 756, 757, 1000):
        out.append((fb, 0, [f'as:{hx(t)}' for t in texts]))
    return out


SNAKE_DAG = [(-1, '0110000101100010' * 5, ()), (-1, '01100011' * 127, (0,)), (-1, '01100100' * 127, (1,)), (-1, '101', ()),
             (-1, '01100101', (3,)), (-1, '0110011001100111', (0, 0)), (-1, '', ()), (-1, '', (6,)), (-1, '01101000' * 3, (7,))]


def snake_builder_scripts():
    """[(prefill bits, prefill refs, [tokens])] for store_snake_bytes / store_snake_string: chunk boundaries x fill levels x free refs"""
    out = []
    for fb in (0, 8, 3, 1000, 1015, 1016, 1023):
        for fr in (0, 3, 4):
            for n in (0, 1, 2, 126, 127, 128, 254, 255, 300):
                if (fb, fr) != (0, 0) and n in (2, 254):
                    continue
                data = bytes((i * 7 + n) % 251 for i in range(n)).hex() or '-'
                out.append((fb, fr, [f'sn:{data}']))
    for fb, fr in ((0, 0), (8, 1), (1016, 0), (1016, 4)):
        for n in (0, 1, 126, 127, 128, 260):
            data = bytes(97 + (i % 26) for i in range(n)).hex() or '-'
            out.append((fb, fr, [f'sns:{data}:0', 'bit:1']))
            out.append((fb, fr, [f'sns:{data}:1']))
    out.append((0, 0, ['sn:' + '61' * 130, 'sn:' + '62' * 3, 'sn:' + '63' * 200, 'sn:-', 'sn:' + '64' * 128, 'sn:' + '65' * 128]))
    return out


def snake_slice_scripts():
    """[(bits, refs (indices into SNAKE_DAG), [tokens])]: chains, a non-aligned cell in the chain / at the top, two references, consumed
    references (`ref_offset`), empty cells; after the read the remaining bits / references of `self` are compared as well"""
    out = []
    for i, (_, bits, refs) in enumerate(SNAKE_DAG):
        out.append((bits, refs, ['lsn', 'pbit']))
        out.append((bits, refs, ['lss']))
        out.append((bits + '1', refs, ['lsn']))
        out.append((bits, (i,) + tuple(refs), ['lr', 'lsn', 'lr']))       # a consumed reference in front
        out.append((bits, tuple(refs) + (2,), ['lsn']))
        out.append(('01111010' + bits, refs, ['lu:8', 'lsn', 'lsn']))
    out.append(('', (2,), ['lsn']))
    out.append(('', (8, 2), ['lr', 'lss']))
    out.append(('', (2, 8), ['lr', 'lr', 'lsn']))
    return out


def dag_word(nodes):
    return '|'.join(f"{k},{b or '-'},{'.'.join(map(str, r)) or '-'}" for k, b, r in nodes)


def b_word(fb, fr, toks):
    return f'{fb},{fr},{";".join(toks) or "-"}'


def s_word(bits, refs, toks):
    return f'{bits or "-"},{".".join(map(str, refs)) or "-"},{";".join(toks) or "-"}'


def lean_eval(kind, words, mode, snake=False, forms=False):
    """kind 'B' / 'S'; words = script words -> one output line per word"""
    fn = ('runB' if kind == 'B' else 'runS') + ('Sn' if snake else 'F' if forms else '')
    src = LEAN_EVAL
    if forms:
        src = LEAN_EVAL.replace('import TonVerif.Generated.SliceOps\n', 'import TonVerif.Generated.SliceOps\nimport TonVerif.Generated.ArgForms\nimport TonVerif.Model.Address\n') + LEAN_EVAL_FORMS
    if snake:
        src = LEAN_EVAL.replace('import TonVerif.Generated.SliceOps\n', 'import TonVerif.Generated.SliceOps\nimport TonVerif.Generated.SnakeOps\n') + LEAN_EVAL_SNAKE
    lines = [src, 'def ctxDag : String := "' + dag_word(SNAKE_DAG if snake else CTX_DAG) + '"', 'def inputs : String := "' + ' '.join(words) + '"',
             'def ctxA : Array (Option RCell) := match (ctxDag.splitOn "|").mapM parseNode with | some ns => evalRDag ns | none => #[]',
             f'#eval (do for w in inputs.splitOn " " do IO.println ("VAL " ++ BsEval.{fn} ctxA "{mode}" w) : IO Unit)']
    tmp = os.path.join(LEAN, f'.srcbs_{os.getpid()}.lean')
    with open(tmp, 'w') as f:
        f.write('\n'.join(lines) + '\n')
    try:
        _lake_build(['TonVerif.Generated.BuilderOps', 'TonVerif.Generated.SliceOps', 'TonVerif.Drv.Builder'] + (['TonVerif.Generated.SnakeOps'] if snake else []) + (['TonVerif.Generated.ArgForms', 'TonVerif.Model.Address'] if forms else []))
        p = subprocess.run(['lake', 'env', 'lean', tmp], cwd=LEAN, capture_output=True, text=True, timeout=900)
    finally:
        os.unlink(tmp)
    got = re.findall(r'^VAL (.*)$', p.stdout, re.M)
    if len(got) != len(words) or 'bad' in got:
        raise RuntimeError('lean evaluation failed: ' + (p.stdout + p.stderr)[-400:])
    return got


def validate(group):
    """Differential validation of the TRANSLATOR: the regenerated methods, evaluated by Lean on op scripts, must give what the library
    gives on the same scripts (per op returned / raised, the value, the state afterwards).  -> (None | reason, number of scripts)"""
    cells = _lib_cells()
    try:
        if group == 'ArgForms':
            scripts = forms_scripts()
            got = lean_eval('B', [b_word(*x) for x in scripts], 'val', forms=True)
            want = [py_builder(cells, *x) for x in scripts]
        elif group == 'SnakeOps':
            from ..gen import cells as G
            sc = G.lib_build(SNAKE_DAG)
            sb, ss = snake_builder_scripts(), snake_slice_scripts()
            scripts = sb + ss
            got = lean_eval('B', [b_word(*x) for x in sb], 'val', snake=True) + lean_eval('S', [s_word(*x) for x in ss], 'val', snake=True)
            want = [py_builder(sc, *x) for x in sb] + [py_slice(sc, *x) for x in ss]
        elif group == 'BuilderOps':
            scripts = builder_scripts()
            got = lean_eval('B', [b_word(*x) for x in scripts], 'val')
            want = [py_builder(cells, *x) for x in scripts]
        else:
            scripts = slice_scripts()
            got = lean_eval('S', [s_word(*x) for x in scripts], 'val')
            want = [py_slice(cells, *x) for x in scripts]
    except Exception as e:
        return f'validation: the regenerated definitions could not be evaluated: {type(e).__name__}: {e}', 0
    for x, g, w in zip(scripts, got, want):
        if g != w:
            return f'validation: on script {x!r:.300} Lean computes "{g[:160]}", the library computes "{w[:160]}"', len(scripts)
    return None, len(scripts)


def diff_scripts(ctx, kind, scripts, snake=False):
    """For harness search mode: scripts (as builder_scripts() / slice_scripts()) -> [(script, [indices of differing ops])] where the
    regenerated method and the hand model differ (evaluated by Lean; needs only the Generated files and the driver modules, not the
    proofs).  Never raises."""
    if not scripts:
        return []
    try:
        got = lean_eval(kind, [(b_word if kind == 'B' else s_word)(*x) for x in scripts], 'diff', snake=snake)
    except Exception as e:
        ctx.notes.append(f'source-diff search ({kind}) failed: {type(e).__name__}: {e}')
        return []
    found = []
    for x, g in zip(scripts, got):
        idx = [i for i, w in enumerate(g.split(';')) if w == 'DIFF']
        if idx:
            found.append((x, idx))
    ctx.notes.append(f'source-diff search: regenerated {"Builder" if kind == "B" else "Slice"} methods vs hand model on {len(scripts)} scripts: '
                     + (f'{len(found)} differ, e.g. ' + ', '.join(f'{x[2][i[0]]} at {x[0] if kind == "B" else len(x[0])} bits' for x, i in found[:4]) if found else 'no differing op'))
    return found


if __name__ == '__main__':
    import sys
    for grp in sys.argv[1:] or list(GROUPS):
        text, info, lost = generate(grp, old='')
        print(grp, sorted(info), lost)
        if not lost:
            print(write_if_changed(os.path.join(LEAN, out_path(grp)), text))
