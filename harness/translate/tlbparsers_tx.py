"""Regenerates lean/TonVerif/Generated/TlbParsersTx.lean from the `deserialize` classmethods of pytoniq_core/tlb/transaction.py
(and the two currency classes of block.py they read through) — property C16, second part of the source tie.

Extends harness/translate/tlbparsers.py (same symbolic execution, same Lean shape `Src….<Class> (sp : Bool) (slice : Frag) : Rd.R`)
without editing it.  Additions to the Python subset:

  reads       S.load_address()                                   -> Rd.loadAddress            (Model/TlbRdTx.lean)
              S.load_dict(N, value_deserializer=<lambda src: e>) -> Rd.loadDict N (fun sp src => do …) S
                (also a nested `def f(src): return e` passed by name: inlined as that lambda)
  pure        []                                                 -> Rd.list []
              [d[i] for i in sorted(d)]                          -> Rd.dictValuesSorted d
  recursion   Transaction <-> TransactionDescr <-> Transaction{Split,Merge}Install (through `prepare_transaction:^Transaction`):
              `Transaction` is defined by recursion on a nesting budget (`| 0 => raises | fuel+1 => body`) — the budget of the spec's
              `transactionF` — and the other classes of the cycle take the reader of the nested Transaction as a parameter
              `(rec_Transaction : Bool → Frag → Rd.R)`, exactly like the spec's `transactionDescrF tx`.  Python has no budget: the
              theorems are stated for every budget.  Classes outside the cycle that parse a Transaction (InMsg, OutMsg) take a
              budget parameter `(fuel : Nat)`.
  erased      the keyword argument `cell=` of `Transaction(…)` (a copy of the cell being parsed: bookkeeping, no schema field) is
              evaluated but not made part of the returned object (declared interface).

Classes already regenerated AND proved by the first part (Generated/TlbParsers.lean, namespace `Src`) are called there
(`Src.AccountStatus …`); everything else this file needs is emitted here (namespace `SrcTx`), including `TrActionPhase` and the
four simple `Transaction*` kinds, so that the proofs of this part depend only on the theorems of the first part, not on its text.
"""
import ast
import copy
import os
import re

from . import tlbparsers as TP
from .tlbparsers import V, S, C, Ctx, Fn, Translator, Untranslatable, const_int, is_name, lstr
from .crc import write_if_changed
from ..paths import REPO, LEAN

GEN = os.path.join(LEAN, 'TonVerif/Generated/TlbParsersTx.lean')

# classes of the first part that are called as `Src.<Class>` (they have a `refines_<Class>` theorem there)
BASE = [('utils', 'HashUpdate'), ('account', 'AccountStatus'), ('account', 'TickTock'), ('account', 'StateInit'),
        ('account', 'StorageUsedShort'),
        ('transaction', 'AccStatusChange'), ('transaction', 'ComputeSkipReason'), ('transaction', 'TrStoragePhase'),
        ('transaction', 'TrComputePhase'), ('transaction', 'TrBouncePhase'), ('transaction', 'SplitMergeInfo'),
        ('transaction', 'IntermediateAddress')]

# (python file, class) in dependency order
CLASSES = [
    ('block', 'ExtraCurrencyCollection'), ('block', 'CurrencyCollection'),
    ('transaction', 'TrActionPhase'), ('transaction', 'TrCreditPhase'), ('transaction', 'ImportFees'),
    ('transaction', 'InternalMsgInfo'), ('transaction', 'ExternalMsgInfo'), ('transaction', 'ExternalOutMsgInfo'),
    ('transaction', 'CommonMsgInfo'), ('transaction', 'MessageAny'),
    ('transaction', 'MsgMetadata'), ('transaction', 'MsgEnvelope'),
    ('transaction', 'TransactionOrdinary'), ('transaction', 'TransactionStorage'), ('transaction', 'TransactionTickTock'),
    ('transaction', 'TransactionSplitPrepare'), ('transaction', 'TransactionMergePrepare'),
    ('transaction', 'TransactionSplitInstall'), ('transaction', 'TransactionMergeInstall'),
    ('transaction', 'TransactionDescr'), ('transaction', 'Transaction'),
    ('transaction', 'InMsg'), ('transaction', 'OutMsg'),
]

HEAD = 'Transaction'                                                   # the class the budget is spent on
REC = {'TransactionSplitInstall', 'TransactionMergeInstall', 'TransactionDescr'}   # take `rec_Transaction`
FUELED = {'InMsg', 'OutMsg'}                                           # take `fuel` (parse a Transaction, are not in the cycle)
ERASED_KW = {('Transaction', 'cell')}


class FnTx(Fn):
    # ------------------------------------------------------------------ calls
    def deser_target(self, tname):
        """Lean head of a call of <tname>.deserialize from the class being translated"""
        ctx = self.ctx
        meta = ctx.tr.done[tname]
        if meta.get('base'):
            return f'Src.{tname}'
        if tname == HEAD:
            if ctx.cls in REC:
                return 'rec_Transaction'
            if ctx.cls in FUELED:
                return f'(Transaction fuel)'
            raise Untranslatable(f'{ctx.cls} parses a Transaction but is not declared REC / FUELED')
        if tname in REC:
            if ctx.cls == HEAD:
                return f'{tname} (Transaction fuel)'
            if ctx.cls in REC:
                return f'{tname} rec_Transaction'
            raise Untranslatable(f'{ctx.cls} calls {tname} outside the Transaction cycle')
        if tname in FUELED:
            if ctx.cls in FUELED:
                return f'{tname} fuel'
            raise Untranslatable(f'{ctx.cls} calls {tname} without a budget')
        return tname

    def reader_term(self, e, env, allow_sp=True):
        """e performs exactly ONE read of one slice variable and evaluates to its result -> (Lean term : Frag → Rd.R, S) | None"""
        if not (isinstance(e, ast.Call) and isinstance(e.func, ast.Attribute)):
            return None
        f, m = e.func, e.func.attr
        if isinstance(f.value, ast.Name) and isinstance(env.get(f.value.id), S) and not e.keywords:
            s = env[f.value.id]
            if m in TP.READS:
                prim, nargs = TP.READS[m]
                if len(e.args) != nargs:
                    return None
                ns = [const_int(a, env) for a in e.args]
                if any(k is None or k < 0 for k in ns):
                    return None
                return (f'({prim} ' + ' '.join(map(str, ns)) + ')') if ns else prim, s
            if m == 'load_address' and not e.args:
                return 'Rd.loadAddress', s
            return None
        if m == 'deserialize' and isinstance(f.value, ast.Name) and not e.keywords and len(e.args) == 1:
            tname = self.ctx.cls if f.value.id == 'cls' else f.value.id
            a = e.args[0]
            if tname not in self.ctx.tr.done and not (tname == HEAD and self.ctx.cls in REC | FUELED):
                return None
            if isinstance(a, ast.Name) and isinstance(env.get(a.id), S):
                if not allow_sp:
                    return None
                self.note_call(tname)
                return f'({self.deser_target(tname)} {env[a.id].sp})', env[a.id]
            if (isinstance(a, ast.Call) and isinstance(a.func, ast.Attribute) and a.func.attr == 'begin_parse' and not a.args
                    and isinstance(a.func.value, ast.Call) and isinstance(a.func.value.func, ast.Attribute)
                    and a.func.value.func.attr == 'load_ref' and not a.func.value.args
                    and isinstance(a.func.value.func.value, ast.Name) and isinstance(env.get(a.func.value.func.value.id), S)):
                self.note_call(tname)
                tgt = self.deser_target(tname)
                return f'(Rd.viaRef {tgt})' if ' ' not in tgt or tgt.startswith('(') else f'(Rd.viaRef ({tgt}))', env[a.func.value.func.value.id]
        return None

    def note_call(self, tname):
        ctx = self.ctx
        if tname == HEAD and ctx.cls in REC | FUELED and tname not in ctx.tr.done:
            ctx.tr.done[tname] = dict(extra=[], calls=[], slice='', forward=True)
        if tname not in ctx.tr.done:
            raise Untranslatable(f'calls {tname}.deserialize, which is not translated (or later in the order)')
        if ctx.tr.done[tname]['extra']:
            raise Untranslatable(f'{tname}.deserialize argument count')
        ctx.calls.add(tname)

    def call(self, e, env, out):
        ctx = self.ctx
        f = e.func
        if isinstance(f, ast.Attribute):
            m = f.attr
            if m == 'deserialize' and isinstance(f.value, ast.Name) and not e.keywords and e.args:
                rt = self.reader_term(e, env)
                if rt is None:
                    raise Untranslatable(f'call {ast.unparse(e)[:70]}')
                term, s = rt
                t = ctx.fresh()
                out.append(f'let ({t}, {s.var}) ← {term[1:-1] if term.startswith("(") else term} {s.var}')
                return V(t, 'val')
            if isinstance(f.value, ast.Name) and isinstance(env.get(f.value.id), S):
                s = env[f.value.id]
                if m == 'load_address' and not e.args and not e.keywords:
                    t = ctx.fresh()
                    out.append(f'let ({t}, {s.var}) ← Rd.loadAddress {s.var}')
                    return V(t, 'val')
                if m == 'load_dict':
                    if len(e.args) != 1 or const_int(e.args[0], env) is None or len(e.keywords) != 1 \
                            or e.keywords[0].arg != 'value_deserializer':
                        raise Untranslatable('load_dict(N, value_deserializer=…) expected')
                    lam = e.keywords[0].value
                    if isinstance(lam, ast.Name) and isinstance(env.get(lam.id), ast.Lambda):
                        lam = env[lam.id]
                    if not (isinstance(lam, ast.Lambda) and len(lam.args.args) == 1 and not lam.args.defaults
                            and not lam.args.vararg and not lam.args.kwarg and not lam.args.kwonlyargs):
                        raise Untranslatable('value_deserializer is not a one-argument lambda / local function')
                    # the callback sees its own slice only (no capture), performs one read of it and returns the result
                    rt = self.reader_term(lam.body, {lam.args.args[0].arg: S('d_src', 'false')}, allow_sp=False)
                    if rt is None:
                        raise Untranslatable('value_deserializer is not a single read of its argument')
                    t = ctx.fresh()
                    out.append(f'let ({t}, {s.var}) ← Rd.loadDict {const_int(e.args[0], env)} {rt[0]} {s.var}')
                    return V(t, 'dict')
        return super().call(e, env, out)

    def construct(self, tname, e, env, out):
        e2 = e
        if any((tname, k.arg) in ERASED_KW for k in e.keywords):
            e2 = copy.copy(e)
            e2.keywords = []
            for k in e.keywords:
                if (tname, k.arg) in ERASED_KW:
                    self.expr(k.value, env, out)          # evaluated (must be translatable), not part of the object
                else:
                    e2.keywords.append(k)
        return super().construct(tname, e2, env, out)

    # ------------------------------------------------------------------ expressions
    def expr(self, e, env, out):
        if (isinstance(e, ast.IfExp) and isinstance(e.orelse, ast.Constant) and e.orelse.value is None
                and isinstance(e.test, ast.Call) and isinstance(e.test.func, ast.Attribute) and e.test.func.attr == 'load_bit'
                and not e.test.args and not e.test.keywords and isinstance(e.test.func.value, ast.Name)
                and isinstance(env.get(e.test.func.value.id), S)):
            rt = self.reader_term(e.body, env)
            if rt is not None and rt[1] is env[e.test.func.value.id]:
                t = self.ctx.fresh()
                out.append(f'let ({t}, {rt[1].var}) ← Rd.optional {rt[1].var} {rt[0]}')
                return V(t, 'val')
        if isinstance(e, ast.List) and not e.elts:
            return V('(Rd.list [])', 'list')
        if (isinstance(e, ast.ListComp) and len(e.generators) == 1 and not e.generators[0].ifs
                and isinstance(e.generators[0].target, ast.Name) and isinstance(e.elt, ast.Subscript)
                and isinstance(e.elt.value, ast.Name) and is_name(e.elt.slice, e.generators[0].target.id)
                and isinstance(e.generators[0].iter, ast.Call) and is_name(e.generators[0].iter.func, 'sorted')
                and len(e.generators[0].iter.args) == 1 and not e.generators[0].iter.keywords
                and is_name(e.generators[0].iter.args[0], e.elt.value.id)):
            d = self.expr(e.elt.value, env, out)
            if d.kind != 'dict':
                raise Untranslatable('[d[i] for i in sorted(d)] of a value that is not a load_dict result')
            t = self.ctx.fresh()
            out.append(f'let {t} ← Rd.dictValuesSorted {d.lean}')
            return V(t, 'list')
        return super().expr(e, env, out)

    def assign(self, name, value, env, out):
        super().assign(name, value, env, out)


def inline_local_defs(fn):
    """`def f(src): return e` nested in a method -> the name f bound to `lambda src: e` (only use: value_deserializer=f)"""
    body, lambdas = [], {}
    for s in fn.body:
        if isinstance(s, ast.FunctionDef):
            stm = [x for x in s.body if not (isinstance(x, ast.Expr) and isinstance(x.value, ast.Constant))]
            if len(stm) != 1 or not isinstance(stm[0], ast.Return) or stm[0].value is None or s.decorator_list:
                raise Untranslatable(f'nested function {s.name} is not `return <expression>`')
            lambdas[s.name] = ast.Lambda(args=s.args, body=stm[0].value)
        else:
            body.append(s)
    return body, lambdas


class TranslatorTx(Translator):
    def translate(self, mod, cls):
        fn = self.method(mod, cls, 'deserialize')
        if not any(isinstance(d, ast.Name) and d.id == 'classmethod' for d in fn.decorator_list):
            raise Untranslatable('deserialize is not a classmethod')
        a = fn.args
        if a.vararg or a.kwarg or a.kwonlyargs or a.defaults or len(a.args) != 2 or a.args[0].arg != 'cls':
            raise Untranslatable('deserialize signature')
        sl = a.args[1].arg
        ctx = Ctx(self, cls, mod)
        env = {sl: S(sl, 'sp')}
        body, lambdas = inline_local_defs(fn)
        for k, lam in lambdas.items():
            env[k] = lam
        if cls == HEAD:
            text = FnTx(ctx).block(body, env, sl, 2)
            sig = (f'def {cls} : Nat → Bool → Frag → Rd.R\n  | 0, _, _ => none\n  | fuel+1, sp, {sl} => do')
        else:
            text = FnTx(ctx).block(body, env, sl, 1)
            extra = ' (rec_Transaction : Bool → Frag → Rd.R)' if cls in REC else ' (fuel : Nat)' if cls in FUELED else ''
            sig = f'def {cls}{extra} (sp : Bool) ({sl} : Frag) : Rd.R := do'
        return sig + '\n' + text + '\n', dict(extra=[], calls=sorted(ctx.calls), slice=sl)


HEADER = '''/- GENERATED from pytoniq_core/tlb/transaction.py, tlb/block.py (the `deserialize` classmethods) by
   harness/translate/tlbparsers_tx.py; do not edit.  One reader per class; `none` = the parser raises.
   Meaning of the primitives: TonVerif/Model/TlbRd.lean, TonVerif/Model/TlbRdTx.lean. -/
import TonVerif.Model.TlbRdTx
import TonVerif.Generated.TlbParsers
set_option linter.unusedVariables false
namespace TonVerif.Tlb.SrcTx
open TonVerif TonVerif.Tlb
'''


def generate(repo=REPO, old_text=''):
    """-> (lean text, {class: {'status': 'ok'|'lost', …}})"""
    tr = TranslatorTx(repo)
    for mod, cls in BASE:
        tr.done[cls] = dict(extra=[], calls=[], slice='', base=True)
    old = TP.sections(old_text)
    out = [HEADER]
    info = {}
    table = []
    for mod, cls in CLASSES:
        try:
            text, meta = tr.translate(mod, cls)
            tr.done[cls] = meta
            info[cls] = dict(status='ok', calls=meta['calls'])
        except (Untranslatable, SyntaxError, FileNotFoundError) as ex:
            info[cls] = dict(status='lost', reason=f'{type(ex).__name__}: {ex}')
            if cls not in old:
                continue
            text = old[cls]
            tr.done[cls] = dict(extra=[], calls=[], slice='')
        out.append(f'-- BEGIN {cls}\n{text}-- END {cls}\n')
        table.append(cls)
    out.append('/-- the readers by class name (driver op `tlbsrctx`); the budget of the Transaction nesting is the first argument -/')
    rows = []
    for c in table:
        if c == HEAD or c in FUELED:
            rows.append(f'("{c}", fun fuel => {c} fuel)')
        elif c in REC:
            rows.append(f'("{c}", fun fuel => {c} (Transaction fuel))')
        else:
            rows.append(f'("{c}", fun _ => {c})')
    out.append('def readers : List (String × (Nat → Bool → Frag → Rd.R)) := [\n  ' + ',\n  '.join(rows) + ']\n')
    out.append('end TonVerif.Tlb.SrcTx')
    return '\n'.join(out) + '\n', info


_cache = {}


def regenerate():
    try:
        old = open(GEN).read()
    except FileNotFoundError:
        old = ''
    text, info = generate(REPO, old)
    changed = write_if_changed(GEN, text)
    _cache['info'] = info
    return changed, info


def class_tie(cls):
    def fn():
        if 'info' not in _cache:
            regenerate()
        i = _cache['info'].get(cls, dict(status='lost', reason='not in CLASSES'))
        if i['status'] != 'ok':
            raise Untranslatable(i['reason'])
        return False, i
    return fn


if __name__ == '__main__':
    ch, info = regenerate()
    for k, v in info.items():
        print(k, v['status'], v.get('reason', ''))
    print('changed' if ch else 'unchanged')
