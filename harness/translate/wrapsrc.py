"""Regenerates lean/TonVerif/Generated/WrapSrc.lean from the current source of the stand-alone wrappers of
pytoniq_core/tlb/custom/wallet.py (WalletV3Data, WalletV4Data, HighloadWalletData, WalletMessage) and
pytoniq_core/tlb/custom/nft.py (NftItemData, NftItemSaleFees, NftItemSaleData), pytoniq_core/tlb/utils.py (HashUpdate): the WHOLE `serialize` and `deserialize` methods and
the CONSTRUCTORS (`__init__`: the `wallet_id is None` default, the `public_key is None` raise, the `isinstance(.., str)`
conversions), with the TL-B codec translator pytlb.py (extended here: `WTr`, `WProgram`).

Additions to the subset of pytlb.py (this file)
  * `__init__` of a declared class becomes `<Class>_init : <param types> -> Option <value>` (`none` = the constructor raises):
    `self.attr = e` records the attribute, a parameter may be rebound (`if wallet_id is None: wallet_id = 698983191`: the rest of
    the body is copied into both branches, as for every `if`), the implicit end of the body returns the value built from the
    recorded attributes (every declared attribute must have been stored, under its own name).  Parameter defaults are not used:
    every translated call passes all arguments.
  * `cls(k=v, ..)` / `C(a, ..)` of such a class evaluates the arguments in Python's order, converts each to the declared parameter
    type (an int / bytes / cell where the parameter is Optional becomes `some ..`) and calls `<Class>_init`.
  * methods translated elsewhere (`MessageAny.serialize` / `MessageAny.deserialize`: Generated/MsgSrc.lean) are declared EXTERNAL:
    called by their generated name, not re-emitted.

Validation: Lean evaluation of the regenerated definitions = the library on the wrapper requests of the C15 harness (boundary values of
every field, random values, out-of-range values, foreign cells) plus constructor requests (wallet_id None / 0 / ..., key None).
Theorems: Proofs/SrcWrap.lean, Properties/C15.lean `c15_src_wrappers`, `c15_src_wrapper_defaults`.
"""
import ast
import copy
import hashlib
import os
import random
import re
import subprocess

from . import pytlb, pybytes, msgsrc
from .pytlb import Config, SEM, UINT, BUILT, REF, INT, BOOL, NONE, OPT, BYTES, NAT, par, tpar, indent
from .pybytes import lname, is_opt, opt_of
from .vmsrc import BUILDER_TERMS, SLICE_OPS
from .pyexpr import Untranslatable
from .arith import write_if_changed, _lake_build
from ..paths import REPO, LEAN

WAL, NFT, UTL = 'pytoniq_core/tlb/custom/wallet.py', 'pytoniq_core/tlb/custom/nft.py', 'pytoniq_core/tlb/utils.py'
OUT = 'TonVerif/Generated/WrapSrc.lean'
NS = 'TonVerif.Generated.WrapSrc'

# ---- the declared interface (trusted; the value domain is the one of Spec/Tlb/Wrappers.lean)
ADDR = 'Addr'
HU = SEM('HashUpd')
V3, V4, HL, WM, NI, FEES, SALE = SEM('WalletV3'), SEM('WalletV4'), SEM('Highload'), SEM('WalletMsg'), SEM('NftItem'), SEM('SaleFees'), SEM('SaleData')
MSG = msgsrc.MSG
SEMS = dict(msgsrc.SEMS)
SEMS.update({
    'HashUpd': dict(lean='HashUpd', ctors={'mk': [('old_hash', BYTES), ('new_hash', BYTES)]}),
    'WalletV3': dict(lean='WalletV3', ctors={'mk': [('seqno', INT), ('wallet_id', INT), ('public_key', BYTES)]}),
    # plugins / old_queries: the optional root cell of the dictionary (HashMap codec = C09 / C10)
    'WalletV4': dict(lean='WalletV4 R', ctors={'mk': [('seqno', INT), ('wallet_id', INT), ('public_key', BYTES), ('plugins', OPT(REF))]}),
    'Highload': dict(lean='Highload R', ctors={'mk': [('wallet_id', INT), ('last_cleaned', INT), ('public_key', BYTES), ('old_queries', OPT(REF))]}),
    'WalletMsg': dict(lean='WalletMsg R', ctors={'mk': [('send_mode', INT), ('message', MSG)]}),
    'NftItem': dict(lean='NftItem R', ctors={'mk': [('index', INT), ('collection_address', ADDR), ('owner_address', ADDR), ('content', REF)]}),
    'SaleFees': dict(lean='SaleFees', ctors={'mk': [('marketplace_fee_address', ADDR), ('marketplace_fee', INT), ('royalty_address', ADDR),
                                                    ('royalty_amount', INT)]}),
    'SaleData': dict(lean='SaleData', ctors={'mk': [('is_complete', BOOL), ('created_at', INT), ('marketplace_address', ADDR), ('nft_address', ADDR),
                                                    ('nft_owner_address', ADDR), ('full_price', INT), ('fees_cell', FEES),
                                                    ('can_deploy_by_external', BOOL)]}),
})
# per class: representation, constructor parameters with the types the translated call sites hand over (Optional where the
# constructor tests `is None`)
CLASSES = {
    'HashUpdate': dict(file=UTL, repr=HU, ctor='mk', params=[('old_hash', BYTES), ('new_hash', BYTES)]),
    'WalletV3Data': dict(file=WAL, repr=V3, ctor='mk', params=[('seqno', INT), ('wallet_id', OPT(INT)), ('public_key', OPT(BYTES))]),
    'WalletV4Data': dict(file=WAL, repr=V4, ctor='mk', params=[('seqno', INT), ('wallet_id', OPT(INT)), ('public_key', OPT(BYTES)),
                                                              ('plugins', OPT(REF))]),
    'HighloadWalletData': dict(file=WAL, repr=HL, ctor='mk', params=[('wallet_id', OPT(INT)), ('last_cleaned', INT), ('public_key', OPT(BYTES)),
                                                                    ('old_queries', OPT(REF))]),
    'WalletMessage': dict(file=WAL, repr=WM, ctor='mk', params=[('send_mode', INT), ('message', MSG)]),
    'NftItemData': dict(file=NFT, repr=NI, ctor='mk', params=[('index', INT), ('collection_address', ADDR), ('owner_address', ADDR), ('content', REF)]),
    'NftItemSaleFees': dict(file=NFT, repr=FEES, ctor='mk', params=[('marketplace_fee_address', ADDR), ('marketplace_fee', INT),
                                                                   ('royalty_address', ADDR), ('royalty_amount', INT)]),
    'NftItemSaleData': dict(file=NFT, repr=SALE, ctor='mk', params=[('is_complete', BOOL), ('created_at', INT), ('marketplace_address', ADDR),
                                                                   ('nft_address', ADDR), ('nft_owner_address', ADDR), ('full_price', INT),
                                                                   ('fees_cell', FEES), ('can_deploy_by_external', BOOL)]),
}
EXTERNAL_CLASSES = {'MessageAny': dict(repr=MSG, ctor='mk', init=['info', 'init', 'body'])}


def _ser(t):
    return dict(params=[('self', t)], ret=BUILT, mode='opt', self=True)


def _de(t):
    return dict(params=[], ret=t, mode='sop')


SIGS = {}
for _c, _d in CLASSES.items():
    SIGS[(_c, '__init__')] = dict(params=[('self', 'init-self')] + list(_d['params']), ret=_d['repr'], mode='opt', self=True, init=True)
    SIGS[(_c, 'serialize')] = _ser(_d['repr'])
    SIGS[(_c, 'deserialize')] = _de(_d['repr'])
SIGS[('MessageAny', 'serialize')] = dict(_ser(MSG), external=True)
SIGS[('MessageAny', 'deserialize')] = dict(_de(MSG), external=True)

HL_SER = 'HashMap(key_size=64, map_=self.old_queries, value_serializer=self.old_queries_serializer).serialize()'
HL_DE = 'cell_slice.load_dict(key_length=64, value_deserializer=cls.old_queries_deserializer)'
OPAQUE = {
    # the dictionary is its optional root cell: HashMap(64, values by WalletMessage.serialize + store_cell).serialize() (C09 / C10)
    ('HighloadWalletData', 'serialize'): {HL_SER: ('self_old_queries', OPT(REF), False)},
    ('HighloadWalletData', 'deserialize'): {HL_DE: ('SOp.loadDict', OPT(REF), True)},
}
HL_STATIC = {
    'old_queries_serializer': '@staticmethod\ndef old_queries_serializer(src, dest):\n    dest.store_cell(src.serialize())',
    'old_queries_deserializer': '@staticmethod\ndef old_queries_deserializer(src):\n    return WalletMessage.deserialize(src)',
}
CTX = {'opt': [('mk', 'Bits → List R → Option R')], 'sop': [('view', 'R → Bits × List R')]}

HEAD = ['/- GENERATED by harness/translate/wrapsrc.py (pytlb.py) from the current source of',
        f'   {WAL} (WalletV3Data, WalletV4Data, HighloadWalletData, WalletMessage), {NFT} (NftItemData, NftItemSaleFees, NftItemSaleData), {UTL} (HashUpdate):',
        '   the constructors (`<Class>_init`: `none` = raises), the whole serialize / deserialize methods; do not edit.',
        '   Serialisers: `Option (Built R)` (`none` = raises; `mk` = Builder.end_cell); deserialisers: `SOp R _` on the slice being consumed.',
        '   A dictionary (plugins, old_queries) is its optional root cell. -/',
        'import TonVerif.PyInt', 'import TonVerif.PyBytes', 'import TonVerif.PyTlb', 'import TonVerif.Model.VmStack', 'import TonVerif.Spec.Tlb.Wrappers',
        'import TonVerif.Generated.MsgSrc',
        'set_option linter.unusedVariables false', f'namespace {NS}',
        'open TonVerif TonVerif.Model TonVerif.Model.Vm TonVerif.Spec.Tlb TonVerif.Generated.MsgSrc', '',
        'variable {R : Type}', '']


class WTr(pytlb.Tr):
    """pytlb.Tr + constructors"""

    def __init__(self, prog, key, fn, in_group=None, inline_depth=0):
        super().__init__(prog, key, fn, in_group=in_group, inline_depth=inline_depth)
        self.is_init = bool(self.sig.get('init'))
        if self.is_init:
            self.records['self'] = {}
            self.env.pop('self', None)
            for n in ast.walk(fn):
                if isinstance(n, ast.Return):
                    raise Untranslatable(f'{self.cls}.__init__ has a return statement')

    # `self.attr = e` inside a constructor
    def assign(self, s):
        if self.is_init and len(s.targets) == 1:
            tg = s.targets[0]
            if isinstance(tg, ast.Attribute) and isinstance(tg.value, ast.Name) and tg.value.id == 'self':
                v, t = self.expr(s.value)
                if t == pytlb.PROP:
                    v, t = f'(decide {v})', BOOL
                nm = self.tmp(f'self_{tg.attr}')
                self.emit(f'let {nm} := {v}')
                self.records['self'] = {**self.records['self'], tg.attr: (nm, t)}
                return
            if isinstance(tg, ast.Name) and tg.id == 'self':
                raise Untranslatable('assignment to self')
        return super().assign(s)

    def expr(self, e):
        if self.is_init:
            for n in ast.walk(e):
                if isinstance(n, ast.Name) and n.id == 'self':
                    raise Untranslatable(f'{self.cls}.__init__ reads self')
        return super().expr(e)

    def translate(self):
        if not self.is_init:
            return super().translate()
        self.block([s for s in self.fn.body])           # parameters of a semantic type are NOT taken apart: they are stored whole
        return self.lines

    def test(self, t):
        # truthiness of an Optional int / bytes already known not to be None: the value's own truthiness
        u, neg = t, False
        while isinstance(u, ast.UnaryOp) and isinstance(u.op, ast.Not):
            neg = not neg
            u = u.operand
        if isinstance(u, ast.Name) and u.id in self.narrow and self.narrow[u.id]['ctor'] == 'some' and self.narrow[u.id]['order'] == ['_']:
            v, ty = self.narrow[u.id]['fields']['_']
            if ty in (INT, NAT, UINT, BYTES):
                c = self.truth((v, INT if ty == UINT else ty))
                return ('cond', f'(¬ {c})' if neg else c)
        return super().test(t)

    def if_(self, s, rest):
        # `if x:` / `if not x:` on an Optional int / bytes parameter: `x is not None and x` (None and 0 / b'' are both falsy)
        t = s.test
        neg = False
        while isinstance(t, ast.UnaryOp) and isinstance(t.op, ast.Not):
            neg = not neg
            t = t.operand
        if isinstance(t, ast.Name) and t.id not in self.narrow and is_opt(self.env.get(t.id, '')) and \
                opt_of(self.env[t.id]) in (INT, NAT, UINT, BYTES):
            yes, no = (s.orelse, s.body) if neg else (s.body, s.orelse)
            inner = ast.If(test=ast.Name(id=t.id, ctx=ast.Load()), body=list(yes) or [ast.Pass()], orelse=list(no))
            outer = ast.If(test=ast.Compare(left=ast.Name(id=t.id, ctx=ast.Load()), ops=[ast.IsNot()], comparators=[ast.Constant(value=None)]),
                           body=[inner], orelse=list(no))
            return super().if_(ast.fix_missing_locations(outer), rest)
        return super().if_(s, rest)

    def ret_value(self, vt):
        if not self.is_init:
            return super().ret_value(vt)
        if vt[1] != NONE:
            raise Untranslatable(f'{self.cls}.__init__ returns a value')
        d = self.cfg.classes[self.cls]
        sem = self.cfg.sem[d['repr'][4:]]
        got = self.records['self']
        parts = []
        for fname, ft in sem['ctors'][d['ctor']]:
            if fname not in got:
                raise Untranslatable(f'{self.cls}.__init__ does not store self.{fname} on every path')
            parts.append(par(self.coerce(got[fname], ft, f'{self.cls}.{fname}')))
        extra = sorted(set(got) - {f for f, _ in sem['ctors'][d['ctor']]})
        if extra:
            raise Untranslatable(f'{self.cls}.__init__ stores undeclared attributes {extra}')
        self.emit(f'pure ({sem["lean"].split()[0]}.{d["ctor"]} {" ".join(parts)})')

    def construct(self, cls, e):
        d = self.cfg.classes[cls]
        key = (cls, '__init__')
        if key not in self.cfg.sigs or not self.cfg.sigs[key].get('init'):
            return super().construct(cls, e)
        params = self.cfg.sigs[key]['params'][1:]
        names = [n for n, _ in params]
        ptypes = dict(params)
        if len(e.args) > len(names):
            raise Untranslatable(f'{cls}(...): too many arguments')
        given = {}

        def give(n, vt):
            if n in given or n not in ptypes:
                raise Untranslatable(f'{cls}(...): argument {n}')
            given[n] = self.coerce(vt, ptypes[n], f'{cls}.{n}')
        for n, a in zip(names, e.args):
            give(n, self.expr(a))
        for k in e.keywords:
            if k.arg is None:
                raise Untranslatable(f'{cls}(**..)')
            give(k.arg, self.expr(k.value))
        missing = [n for n in names if n not in given]
        if missing:
            raise Untranslatable(f'{cls}(...): parameters {missing} are left to their defaults')
        term = f'{cls}_init ' + ' '.join(par(given[n]) for n in names)
        return self.bind(self.lift(term), 'obj'), d['repr']


class WProgram(pytlb.Program):
    def fn(self, key):
        if self.cfg.sigs[key].get('external'):
            return None
        f = super().fn(key)
        if key[1] == '__init__' and f is not None:
            f = copy.deepcopy(f)
            # parameter defaults are not used by the translated call sites (every argument is passed); they must be constants
            for dflt in f.args.defaults:
                if not isinstance(dflt, ast.Constant):
                    raise Untranslatable(f'{key[0]}.__init__: non-constant parameter default')
            f.args.defaults = []
            for a in f.args.args:
                a.annotation = None
        return f

    def callees(self, key):
        if self.cfg.sigs[key].get('external'):
            return set()
        return super().callees(key)

    def resolve(self, cur_cls, call):
        f = call.func
        if isinstance(f, ast.Name) and (f.id == 'cls' or f.id in self.cfg.classes):
            c = cur_cls if f.id == 'cls' else f.id
            if (c, '__init__') in self.cfg.sigs and self.cfg.sigs[(c, '__init__')].get('init'):
                return [(c, '__init__')]
        return super().resolve(cur_cls, call)

    def translate_all(self):
        out = []
        for comp in self.sccs:
            if self.group[comp[0]] is not None:
                raise Untranslatable(f'recursive methods {comp}')
            k = comp[0]
            if self.cfg.sigs[k].get('external'):
                continue
            out.append((self.lean_name(k), self.emit_def(k, None)))
        return out

    def lean_name(self, key):
        if key[1] == '__init__':
            return f'{key[0]}_init'
        return super().lean_name(key)

    def emit_def(self, key, group, standalone_pass=False):
        cfg = self.cfg
        sig = cfg.sigs[key]
        fn = self.fn(key)
        tr = WTr(self, key, fn, in_group=group)
        body = tr.translate()
        doc = pybytes.doc_of(fn, f'{cfg.classes[key[0]]["src"]}: {key[0]}.{key[1]}')
        name = self.lean_name(key)
        if sig.get('init'):
            args = ' '.join(f'({lname(n)} : {cfg.lean_ty(t)})' for n, t in sig['params'][1:])
            return f'{doc}def {name} {args} : Option ({cfg.lean_ty(sig["ret"])}) := do\n{indent(body, 2)}\n'
        ctx = ' '.join(f'({n} : {t})' for n, t in cfg.ctx[sig['mode']])
        args = ' '.join(f'({lname(n)} : {cfg.lean_ty(t)})' for n, t in sig['params'])
        return f'{doc}def {name} {ctx} {args} : {self.ret_lean(key)} := do\n{indent(body, 2)}\n'


def _builder_ops():
    ops = msgsrc._store_bit_terms()
    return ops


def config():
    trees = {f: ast.parse(open(os.path.join(REPO, f)).read()) for f in (WAL, NFT, UTL)}
    classes = {}
    for name, d in CLASSES.items():
        tree = trees[d['file']]
        cs = [n for n in tree.body if isinstance(n, ast.ClassDef) and n.name == name]
        if len(cs) != 1:
            raise Untranslatable(f'class {name} not found in {d["file"]}')
        if [ast.unparse(b) for b in cs[0].bases] != ['TlbScheme'] or cs[0].keywords or cs[0].decorator_list:
            raise Untranslatable(f'{name} is not `class {name}(TlbScheme)`')
        for n in cs[0].body:
            if isinstance(n, ast.FunctionDef) and n.name in ('__getattr__', '__getattribute__', '__setattr__', '__new__', '__bool__', '__len__',
                                                             '__post_init__', '__init_subclass__'):
                raise Untranslatable(f'{name} defines {n.name}')
            if isinstance(n, (ast.Assign, ast.AnnAssign)):
                raise Untranslatable(f'{name} has class attributes')
        init = [n for n in cs[0].body if isinstance(n, ast.FunctionDef) and n.name == '__init__']
        if len(init) != 1 or [a.arg for a in init[0].args.args][1:] != [p for p, _ in d['params']]:
            raise Untranslatable(f'{name}.__init__ parameters are not {[p for p, _ in d["params"]]}')
        classes[name] = dict(d, node=cs[0], src=d['file'], init=[p for p, _ in d['params']])
    for name, d in EXTERNAL_CLASSES.items():
        classes[name] = dict(d, node=None, src=msgsrc.TX)
    # the two static helpers of HighloadWalletData are part of the declared (opaque) reading of its dictionary
    hl = classes['HighloadWalletData']['node']
    for hname, text in HL_STATIC.items():
        fs = [n for n in hl.body if isinstance(n, ast.FunctionDef) and n.name == hname]
        if len(fs) != 1 or ast.unparse(fs[0]) != text:
            raise Untranslatable(f'HighloadWalletData.{hname} is not the declared dictionary value codec')
    for f, tree in trees.items():
        for n in ast.walk(tree):
            if isinstance(n, ast.Name) and isinstance(n.ctx, (ast.Store, ast.Del)) and (n.id in CLASSES or n.id in ('MessageAny', 'Builder', 'HashMap')):
                raise Untranslatable(f'{n.id} is rebound in {f}')
    imp = [ast.unparse(n) for n in trees[WAL].body if isinstance(n, (ast.Import, ast.ImportFrom))]
    if 'from ..transaction import MessageAny' not in imp or 'from ...boc import Cell, Builder, Slice, HashMap' not in imp:
        raise Untranslatable('wallet.py does not import MessageAny / Builder / Slice / HashMap from the expected modules')
    imp = [ast.unparse(n) for n in trees[UTL].body if isinstance(n, (ast.Import, ast.ImportFrom))]
    if 'from .. import Builder' not in imp or 'from ..boc import Slice, Cell, CellTypes' not in imp:
        raise Untranslatable('utils.py does not import Builder / Slice from the expected modules')
    imp = [ast.unparse(n) for n in trees[NFT].body if isinstance(n, (ast.Import, ast.ImportFrom))]
    if 'from ...boc import Cell, Builder, Slice, HashMap, Address' not in imp:
        raise Untranslatable('nft.py does not import Builder / Slice / Address from the expected module')
    return Config(sem=SEMS, classes=classes, sigs=SIGS, ctx=CTX, threaded=set(), passthrough=set(), opaque=OPAQUE, opaque_defs={},
                  builder_ops=_builder_ops(), builder_terms=BUILDER_TERMS, slice_ops=SLICE_OPS,
                  builder_props={'available_bits': 'Py.Tlb.availableBits', 'available_refs': 'Py.Tlb.availableRefs'},
                  # an address value (Address / ExternalAddress / None) is never a str: `isinstance(x, str)` is False
                  static_isinstance={ADDR: 'Address'}, list_attr='list', builder_class='Builder', slice_class='Slice', cell_class='Cell',
                  slice_param='cell_slice', extra_types={ADDR: 'Addr'})


def translate_all():
    return WProgram(config()).translate_all()


def committed_text():
    try:
        r = subprocess.run(['git', '-C', os.path.dirname(LEAN), 'show', f'HEAD:lean/{OUT}'], capture_output=True, text=True, timeout=20)
        if r.returncode == 0 and r.stdout.startswith('/- GENERATED') and f'namespace {NS}' in r.stdout:
            return r.stdout
    except Exception:
        pass
    return None


def generate(old=None):
    path = os.path.join(LEAN, OUT)
    if old is None:
        try:
            old = open(path).read()
        except FileNotFoundError:
            old = None
    try:
        defs = translate_all()
    except (Untranslatable, SyntaxError, OSError, RecursionError) as e:
        keep = committed_text() or old
        if keep is None:
            raise Untranslatable(f'{e} (and no previous translation to keep)')
        return keep, {}, {'WrapSrc': f'{type(e).__name__}: {e}'}
    out = list(HEAD)
    for name, text in defs:
        out += [f'-- BEGIN {name}', text.rstrip('\n'), f'-- END {name}', '']
    out.append(f'end {NS}')
    return '\n'.join(out) + '\n', {n: 'regenerated' for n, _ in defs}, {}


def regenerate():
    path = os.path.join(LEAN, OUT)
    try:
        old = open(path).read()
    except FileNotFoundError:
        old = None
    text, info, lost = generate(old=old)
    changed = write_if_changed(path, text)
    h = hashlib.sha256(text.encode())
    for f in (WAL, NFT, UTL, msgsrc.TX, msgsrc.ACC, msgsrc.BLK, 'pytoniq_core/boc/builder.py', 'pytoniq_core/boc/slice.py'):
        h.update(open(os.path.join(REPO, f), 'rb').read())
    here = os.path.dirname(__file__)
    for f in (__file__, msgsrc.__file__, pytlb.__file__, pybytes.__file__, pybytes.pyarith.__file__, os.path.join(LEAN, 'TonVerif/PyTlb.lean'),
              os.path.join(LEAN, 'TonVerif/Model/Builder.lean'), os.path.join(LEAN, 'TonVerif/Generated/MsgSrc.lean'),
              os.path.join(os.path.dirname(here), 'props', 'C15.py'), os.path.join(os.path.dirname(here), 'gen', 'wrappers.py')):
        h.update(open(f, 'rb').read())
    stamp = os.path.join(LEAN, '.lake', 'srcval_WrapSrc.stamp')
    try:
        cached = open(stamp).read() == h.hexdigest()
    except OSError:
        cached = False
    n = None
    if not cached and not lost:
        bad, n = validate()
        if bad:
            keep = committed_text() or old
            if keep is None:
                raise Untranslatable(bad)
            changed = write_if_changed(path, keep) or changed
            lost = {'WrapSrc': bad}
        else:
            try:
                with open(stamp, 'w') as f:
                    f.write(h.hexdigest())
            except OSError:
                pass
    if lost:
        raise Untranslatable(f'kept the previous translation: {lost} (file changed: {changed})')
    return changed, {'definitions': sorted(info), 'validated': 'cached' if cached else
                     f'Lean evaluation = the library on {n} requests (wrapper values: serialize, parse, constructors)'}


# ---------------------------------------------------------------------------- structured inputs

OPS = ('wser', 'wpar', 'wmser')


class _Rec(msgsrc._Rec):
    def expect_model(self, line, expected, detail):
        op = line.split(' ', 1)[0]
        if op in OPS:
            self.lines.append((line, expected))


def init_requests():
    """constructor requests `winit <kind> <a|-> <b|-> <pk hex|->` with what the library's constructor does"""
    from pytoniq_core.tlb.custom.wallet import WalletV3Data, WalletV4Data, HighloadWalletData
    out = []
    pk = bytes(range(32))
    for wid in (None, 0, 1, 698983191, (1 << 32) - 1, 1 << 32, -1):
        for key in (pk, None, b'', b'\x01'):
            for first in (0, 7):
                def tok(x):
                    return '-' if x is None else str(x)
                kh = '-' if key is None else (key.hex() or 'e')
                for kind, mkobj, show in (
                        ('v3', lambda: WalletV3Data(seqno=first, wallet_id=wid, public_key=key), lambda o: f'{o.seqno};{o.wallet_id};{o.public_key.hex() or "-"}'),
                        ('v4', lambda: WalletV4Data(seqno=first, wallet_id=wid, public_key=key, plugins=None),
                         lambda o: f'{o.seqno};{o.wallet_id};{o.public_key.hex() or "-"};-'),
                        ('hl', lambda: HighloadWalletData(wallet_id=wid, last_cleaned=first, public_key=key, old_queries=None),
                         lambda o: f'{o.wallet_id};{o.last_cleaned};{o.public_key.hex() or "-"};-')):
                    try:
                        want = 'ok ' + show(mkobj())
                    except Exception:
                        want = 'err'
                    out.append((f'winit {kind} {first} {tok(wid)} {kh}', want))
    return out


def harness_requests(seed=20240922):
    """[(request line, library answer)]: the wrapper values of the C15 harness (boundary, random, out of range, foreign cells) + constructors"""
    from ..props import C15
    from ..gen import msgs as M
    rec = _Rec(seed)
    pool = M.leaf_pool(rec.rng)
    C15.check_wrappers(rec, pool)
    seen, out = set(), []
    for l in rec.lines:
        if l[0] not in seen:
            seen.add(l[0])
            out.append(l)
    return out + init_requests()


LEAN_EVAL = """import TonVerif.Drv.Message
import TonVerif.Generated.WrapSrc
open TonVerif TonVerif.Model TonVerif.Model.Vm TonVerif.Spec.Tlb TonVerif.Drv TonVerif.Drv.Msg TonVerif.Generated.MsgSrc TonVerif.Generated.WrapSrc
def rv (c : RCell) : Bits × List RCell := (c.bits, c.refs)
def optInt (s : String) : Option (Option Int) := if s == "-" then some none else s.toInt?.map some
def optKey (s : String) : Option (Option Bytes) := if s == "-" then some none else if s == "e" then some (some []) else (hexArg s).map some
/-- the library builds the object with the class constructor and then calls `serialize`: so does the regenerated side -/
def genSer (w : Wr) : Option RCell :=
  match w with
  | .hu h => (HashUpdate_init h.oldHash h.newHash).bind fun o => (HashUpdate_serialize (R := RCell) mkCell o).map (·.cell)
  | .v3 w => (WalletV3Data_init w.seqno (some w.walletId) (some w.publicKey)).bind fun o => (WalletV3Data_serialize mkCell o).map (·.cell)
  | .v4 w => (WalletV4Data_init w.seqno (some w.walletId) (some w.publicKey) w.plugins).bind fun o => (WalletV4Data_serialize mkCell o).map (·.cell)
  | .hl w => (HighloadWalletData_init (some w.walletId) w.lastCleaned (some w.publicKey) w.oldQueries).bind fun o =>
      (HighloadWalletData_serialize mkCell o).map (·.cell)
  | .nft n => (NftItemData_init n.index n.collection n.owner n.content).bind fun o => (NftItemData_serialize mkCell o).map (·.cell)
  | .fees f => (NftItemSaleFees_init f.marketplaceFeeAddress f.marketplaceFee f.royaltyAddress f.royaltyAmount).bind fun o =>
      (NftItemSaleFees_serialize (R := RCell) mkCell o).map (·.cell)
  | .sale s => (NftItemSaleFees_init s.fees.marketplaceFeeAddress s.fees.marketplaceFee s.fees.royaltyAddress s.fees.royaltyAmount).bind fun f =>
      (NftItemSaleData_init s.isComplete s.createdAt s.marketplace s.nft s.nftOwner s.fullPrice f s.canDeployByExternal).bind fun o =>
      (NftItemSaleData_serialize (R := RCell) mkCell o).map (·.cell)
def genPar (c : RCell) (kind : String) : Option String :=
  let s : Slice RCell := ⟨c.bits, c.refs⟩
  match kind with
  | "hu" => some (showOpt showHu ((HashUpdate_deserialize rv s).2))
  | "v3" => some (showOpt showV3 ((WalletV3Data_deserialize rv s).2))
  | "v4" => some (showOpt showV4 ((WalletV4Data_deserialize rv s).2))
  | "hl" => some (showOpt showHl ((HighloadWalletData_deserialize rv s).2))
  | "nft" => some (showOpt showNft ((NftItemData_deserialize rv s).2))
  | "fees" => some (showOpt showFees ((NftItemSaleFees_deserialize rv s).2))
  | "sale" => some (showOpt showSale ((NftItemSaleData_deserialize rv s).2))
  | "wm" => some (showOpt showWm ((WalletMessage_deserialize rv s).2))
  | _ => none
def genInit (kind a b k : String) : Option String := do
  let a' ← a.toInt?
  let b' ← optInt b
  let k' ← optKey k
  match kind with
  | "v3" => pure (showOpt showV3 (WalletV3Data_init a' b' k'))
  | "v4" => pure (showOpt showV4 (WalletV4Data_init (R := RCell) a' b' k' none))
  | "hl" => pure (showOpt showHl (HighloadWalletData_init (R := RCell) b' a' k' none))
  | _ => none
def modInit (kind a b k : String) : Option String := do
  let a' ← a.toInt?
  let b' ← optInt b
  let k' ← optKey k
  let wid := b'.getD 698983191
  match kind, k' with
  | _, none => pure "err"
  | "v3", some pk => pure ("ok " ++ showV3 ⟨a', wid, pk⟩)
  | "v4", some pk => pure ("ok " ++ showV4 (⟨a', wid, pk, none⟩ : WalletV4 RCell))
  | "hl", some pk => pure ("ok " ++ showHl (⟨wid, a', pk, none⟩ : Highload RCell))
  | _, _ => none
def genLine (l : String) : String :=
  match l.splitOn " " with
  | ["wser", dag, w] => withDag dag fun ctx => do pure (showCell (genSer (← pWr ctx w)))
  | ["wpar", dag, n, k] => withDag dag fun ctx => do genPar (← node ctx n) k
  | ["wmser", dag, mode, m] => withDag dag fun ctx => do
      pure (showCell ((WalletMessage_init (← mode.toInt?) (← pMsg ctx m)).bind fun o => (WalletMessage_serialize mkCell o).map (·.cell)))
  | ["winit", kind, a, b, k] => (genInit kind a b k).getD "bad-op"
  | _ => "bad-op"
def modLine (l : String) : String :=
  match l.splitOn " " with
  | ["winit", kind, a, b, k] => (modInit kind a b k).getD "bad-op"
  | op :: args => (Msg.handle? op args).getD "bad-op"
  | _ => "bad-op"
def runLine (mode : String) (l : String) : String :=
  if mode == "val" then genLine l else (if genLine l == modLine l then "same" else "DIFF")
"""


def lean_eval(lines, mode):
    tmp = os.path.join(LEAN, f'.srcwrap_{os.getpid()}.lean')
    inp = os.path.join(LEAN, f'.srcwrap_{os.getpid()}.txt')
    with open(inp, 'w') as f:
        f.write('\n'.join(lines) + '\n')
    src = LEAN_EVAL + f'\n#eval (do let txt ← IO.FS.readFile "{inp}"; for l in (txt.splitOn "\\n") do (if l != "" then IO.println ("VAL " ++ runLine "{mode}" l) else pure ()) : IO Unit)\n'
    with open(tmp, 'w') as f:
        f.write(src)
    try:
        _lake_build(['TonVerif.Generated.WrapSrc', 'TonVerif.Drv.Message'])
        p = subprocess.run(['lake', 'env', 'lean', tmp], cwd=LEAN, capture_output=True, text=True, timeout=1200)
    finally:
        for x in (tmp, inp):
            try:
                os.unlink(x)
            except OSError:
                pass
    got = re.findall(r'^VAL (.*)$', p.stdout, re.M)
    if len(got) != len(lines) or 'bad-op' in got:
        raise RuntimeError('lean evaluation failed: ' + (p.stdout + p.stderr)[-400:])
    return got


def validate():
    """Lean evaluation of the regenerated methods = what the library answered on the same requests.  -> (None | reason, n)"""
    try:
        cases = harness_requests()
    except Exception as e:
        return f'validation: the library could not be run on the validation inputs: {type(e).__name__}: {e}', 0
    try:
        got = lean_eval([c[0] for c in cases], 'val')
    except Exception as e:
        return f'validation: the regenerated definitions could not be evaluated: {e}', len(cases)
    for (line, want), g in zip(cases, got):
        if g != want:
            return f'validation: on `{line[:60]} .. {line[-160:]}` Lean computes "{g[:160]}", the library computes "{want[:160]}"', len(cases)
    return None, len(cases)


def diff_requests(ctx, lines):
    """search hook: the request lines on which the regenerated method and the hand model differ (evaluated by Lean).  Never raises."""
    if not lines:
        return []
    try:
        got = lean_eval(lines, 'diff')
    except Exception as e:
        ctx.notes.append(f'source-diff search (WrapSrc) failed: {type(e).__name__}: {e}')
        return []
    found = [l for l, g in zip(lines, got) if g == 'DIFF']
    ctx.notes.append(f'source-diff search: regenerated wrapper methods vs hand model on {len(lines)} requests: '
                     + (f'{len(found)} differ, e.g. {found[0][:60]} .. {found[0][-100:]}' if found else 'no difference'))
    return found


if __name__ == '__main__':
    text, info, lost = generate(old='')
    print(info, lost)
    if not lost:
        print(write_if_changed(os.path.join(LEAN, OUT), text))
