"""Python -> Lean translator for "copy / isolation glue": short methods that build a new object from the attributes of `self`,
deciding for every container (a bitarray, a list) whether the new object gets a COPY or the very same object.  The Lean
definition is a transformer of the abstract heap of Model/Heap.lean (aliasing is data there):

    def <Class>_<method> (H : Bytes → Bytes) (σ : State) (self : Nat) : Option (State × Nat)

`none` = the Python code raises, `some (σ', i)` = it returns object `i` in heap `σ'`.  No knowledge of pytoniq: the classes, which
attribute names which record field, the constructors and their meaning are DECLARED by the caller (heapsrc.py).

SUBSET
  values      a BITS pointer (id of a bit container), a REFS pointer (id of a list container), an OBJ(<Class>) (object id), INT (`type_`),
              NAT (`ref_offset`), BOOL
  expressions self | a local | X.<attr> for a declared attribute of the class of X (pointer attributes are read as the POINTER: that is
              the point) | a declared boolean attribute defined by an expression over other attributes (`is_exotic`)
              E.copy()                    E : BITS -> Py.Heap.copyBits ; E : REFS -> Py.Heap.copyRefs .. 0
              E[k:]                       E : REFS, k : NAT -> Py.Heap.copyRefs .. k     (a list slice is a new list)
              C(bits, refs, type)         a declared constructor (`cls(..)` inside a classmethod of C) -> newSlice / newCell? / ...
              C()                         a declared nullary constructor (Builder)
              E.m(x)                      a declared heap primitive returning its receiver (store_cell / store_slice)
              X.m()                       another translated method of the class of X (its own definition); a boolean method whose body is
                                          one `return <bool expr>` is inlined
              <Consts>.<name> | int literal | a == b | a != b | not a | True | False | `False if c else True`
  statements  x = E | x.<pointer attr> = E (x a local object) | if <bool>: raise ... | return E | `from .m import C` (checked) | docstring

MUTATING METHODS (loads / stores; session 5): a method may take ONE further parameter annotated with a declared class (`ref: Cell`); then
    def <Class>_<method> (H) (σ : State) (self : Nat) (<param> : Nat) : Option (State × Nat)
  expressions len(E)  E : REFS -> the length of the list container (NAT);  a >= b, a > b, a <= b, a < b on NAT (an int literal ≥ 0 is a NAT there)
              E[k]    E : REFS, k : NAT -> the k-th ELEMENT of the list container: the very object stored there (IndexError = none)
  statements  E.append(x)   E : REFS, x an object -> Py.Heap.appendRef: the list container E is mutated IN PLACE, the element is the object itself
              self.<nat attr> += k   (k an int literal ≥ 0) -> Py.Heap.setOff: only the record of `self` changes
"""
import ast

from .pyexpr import Untranslatable

BITS, REFS, INT, NAT, BOOL = 'bits', 'refs', 'int', 'nat', 'bool'


def OBJ(c):
    return f'obj:{c}'


class Decl:
    """classes: {name: dict(node=ClassDef, tag=<Lean Tag>, attrs={py attr: (type, lean field | ast expr source for derived bools)},
                            ctor=(lean fn, raises) | None, nullary=(lean fn) | None)}
       prims:   {method name: (receiver class, argument class tuple, lean fn)}   receiver-returning heap primitives
       consts:  {('CellTypes', 'ordinary'): -1, ...}
       imports: {local name: (module, level)} allowed function-level imports"""

    def __init__(self, classes, prims, consts, imports, elem=None):
        self.classes, self.prims, self.consts, self.imports = classes, prims, consts, imports
        self.elem = elem                # class of the ELEMENTS of a list container (None: element reads / appends are not translated)
        self.defs = []
        self.done = {}
        self.stack = []

    def find(self, cls, name):
        fs = [n for n in self.classes[cls]['node'].body if isinstance(n, ast.FunctionDef) and n.name == name]
        if len(fs) != 1:
            raise Untranslatable(f'method {cls}.{name} not found (or defined twice)')
        return fs[0]

    def method(self, cls, name):
        key = (cls, name)
        if key in self.done:
            return self.done[key]
        if key in self.stack:
            raise Untranslatable(f'recursive method {cls}.{name}')
        self.stack.append(key)
        try:
            info = HTr(self, cls, self.find(cls, name)).translate()
        finally:
            self.stack.pop()
        self.done[key] = info
        self.defs.append((info['lean'], info['text']))
        return info


class HTr:
    def __init__(self, decl, cls, fn):
        self.d, self.cls, self.fn = decl, cls, fn
        decs = [ast.unparse(x) for x in fn.decorator_list]
        self.classmethod = decs == ['classmethod']
        if decs not in ([], ['classmethod']):
            raise Untranslatable(f'{cls}.{fn.name} is decorated')
        a = fn.args
        if a.vararg or a.kwarg or a.kwonlyargs or a.posonlyargs or a.defaults:
            raise Untranslatable(f'{fn.name}: parameter list')
        names = [x.arg for x in a.args]
        self.env = {}
        if self.classmethod:
            if len(names) != 2 or names[0] != 'cls':
                raise Untranslatable(f'{fn.name}: classmethod parameters {names}')
            ann = a.args[1].annotation
            argcls = ann.value if isinstance(ann, ast.Constant) else (ast.unparse(ann) if ann is not None else None)
            if argcls not in decl.classes:
                raise Untranslatable(f'{fn.name}: the parameter is not annotated with a declared class')
            self.env[names[1]] = ('self', OBJ(argcls))          # the Lean parameter is called `self`
            self.extra = None
        else:
            if not names or names[0] != 'self' or len(names) > 2:
                raise Untranslatable(f'{fn.name}: parameters {names}')
            self.env['self'] = ('self', OBJ(cls))
            self.extra = None
            if len(names) == 2:
                ann = a.args[1].annotation
                argcls = ann.value if isinstance(ann, ast.Constant) else (ast.unparse(ann) if ann is not None else None)
                if argcls not in decl.classes or names[1] in ('H', 'self', 'cls') or names[1].startswith('σ'):
                    raise Untranslatable(f'{fn.name}: the parameter is not annotated with a declared class')
                self.env[names[1]] = (names[1], OBJ(argcls))
                self.extra = names[1]
        self.k = 0                                # index of the current heap variable
        self.n = 0
        self.lines = []

    # ---- helpers
    @property
    def s(self):
        return 'σ' if self.k == 0 else f'σ{self.k}'

    def fresh(self, p):
        self.n += 1
        return f'{p}{self.n}'

    def step_state(self, term, val_prefix):
        """term : State × Nat  ->  new heap variable, returns the name of the Nat"""
        r = self.fresh('r')
        v = self.fresh(val_prefix)
        self.lines.append(f'let {r} := {term}')
        self.k += 1
        self.lines.append(f'let {self.s} := {r}.1')
        self.lines.append(f'let {v} := {r}.2')
        return v

    def bind_state(self, term, val_prefix):
        """term : Option (State × Nat)"""
        r = self.fresh('r')
        v = self.fresh(val_prefix)
        self.lines.append(f'({term}).bind fun {r} =>')
        self.k += 1
        self.lines.append(f'let {self.s} := {r}.1')
        self.lines.append(f'let {v} := {r}.2')
        return v

    # ---- expressions -> (lean text, type)
    def expr(self, e):
        if isinstance(e, ast.Constant):
            if isinstance(e.value, bool):
                return ('true' if e.value else 'false'), BOOL
            if isinstance(e.value, int):
                return f'({e.value} : Int)', INT
            raise Untranslatable(f'constant {e.value!r}')
        if isinstance(e, ast.UnaryOp) and isinstance(e.op, ast.USub) and isinstance(e.operand, ast.Constant) and isinstance(e.operand.value, int):
            return f'(-{e.operand.value} : Int)', INT
        if isinstance(e, ast.UnaryOp) and isinstance(e.op, ast.Not):
            v, t = self.expr(e.operand)
            if t != BOOL:
                raise Untranslatable('not of a non-boolean')
            return f'(!{v})', BOOL
        if isinstance(e, ast.Name):
            if e.id in self.env:
                return self.env[e.id]
            raise Untranslatable(f'undeclared name {e.id}')
        if isinstance(e, ast.Attribute):
            if isinstance(e.value, ast.Name) and e.value.id not in self.env and (e.value.id, e.attr) in self.d.consts:
                return f'({self.d.consts[(e.value.id, e.attr)]} : Int)', INT
            base, bt = self.expr(e.value)
            if not bt.startswith('obj:'):
                raise Untranslatable(f'attribute .{e.attr} of a {bt}')
            at = self.d.classes[bt[4:]]['attrs'].get(e.attr)
            if at is None:
                raise Untranslatable(f'attribute {bt[4:]}.{e.attr} is not declared')
            t, fld = at
            if fld.startswith('='):                      # derived: an expression over the object's other attributes
                sub = HTr.__new__(HTr)
                sub.__dict__.update(self.__dict__)
                sub.env = {'self': (base, bt)}
                v, vt = sub.expr(ast.parse(fld[1:], mode='eval').body)
                if vt != t:
                    raise Untranslatable(f'derived attribute {e.attr} has type {vt}')
                return v, t
            return f'({self.s}.obj {base}).{fld}', t
        if isinstance(e, ast.Compare) and len(e.ops) == 1 and isinstance(e.ops[0], (ast.GtE, ast.Gt, ast.LtE, ast.Lt)):
            def nat(x):
                if isinstance(x, ast.Constant) and isinstance(x.value, int) and not isinstance(x.value, bool) and x.value >= 0:
                    return str(x.value)
                v, t = self.expr(x)
                if t != NAT:
                    raise Untranslatable(f'ordering of a {t}')
                return v
            sym = {ast.GtE: '≥', ast.Gt: '>', ast.LtE: '≤', ast.Lt: '<'}[type(e.ops[0])]
            return f'(decide ({nat(e.left)} {sym} {nat(e.comparators[0])}))', BOOL
        if isinstance(e, ast.Compare) and len(e.ops) == 1 and isinstance(e.ops[0], (ast.Eq, ast.NotEq)):
            l, r = self.expr(e.left), self.expr(e.comparators[0])
            if l[1] != r[1] or l[1] not in (INT, NAT, BOOL):
                raise Untranslatable(f'comparison of {l[1]} with {r[1]}')
            return f'({l[0]} {"==" if isinstance(e.ops[0], ast.Eq) else "!="} {r[0]})', BOOL
        if isinstance(e, ast.IfExp):
            c, ct = self.expr(e.test)
            a, at = self.expr(e.body)
            b, bt = self.expr(e.orelse)
            if ct != BOOL or at != BOOL or bt != BOOL:
                raise Untranslatable('conditional expression over non-booleans')
            return f'(if {c} then {a} else {b})', BOOL
        if isinstance(e, ast.Subscript):
            base, bt = self.expr(e.value)
            s = e.slice
            if bt == REFS and not isinstance(s, ast.Slice):
                k, kt = self.expr(s)
                if kt != NAT or not self.d.elem:
                    raise Untranslatable('list index is not a known non-negative int')
                r = self.fresh('c')
                self.lines.append(f'(Py.Heap.refAt? {self.s} {base} {k}).bind fun {r} =>')
                return r, OBJ(self.d.elem)
            if bt != REFS or not isinstance(s, ast.Slice) or s.upper is not None or s.step is not None or s.lower is None:
                raise Untranslatable(f'subscript {ast.unparse(e)[:40]}')
            k, kt = self.expr(s.lower)
            if kt != NAT:
                raise Untranslatable('list slice bound is not a known non-negative int')
            return self.step_state(f'Py.Heap.copyRefs {self.s} {base} {k}', 'l'), REFS
        if isinstance(e, ast.Call):
            return self.call(e)
        raise Untranslatable(f'expression {ast.unparse(e)[:60]}')

    def call(self, e):
        f = e.func
        if e.keywords:
            raise Untranslatable('keyword arguments')
        if isinstance(f, ast.Name) and f.id == 'len' and 'len' not in self.env and len(e.args) == 1:
            v, t = self.expr(e.args[0])
            if t != REFS:
                raise Untranslatable(f'len of a {t}')
            return f'({self.s}.refBuf {v}).length', NAT
        if isinstance(f, ast.Name):
            cname = self.cls if (f.id == 'cls' and self.classmethod) else f.id
            c = self.d.classes.get(cname)
            if c is None or (f.id in self.env):
                raise Untranslatable(f'call of {f.id}')
            if not e.args:
                if not c.get('nullary'):
                    raise Untranslatable(f'{cname}() is not a declared constructor')
                return self.step_state(f'{c["nullary"]} {self.s}', 'o'), OBJ(cname)
            if not c.get('ctor') or len(e.args) != 3:
                raise Untranslatable(f'{cname}(...) is not a declared constructor call')
            args = [self.expr(a) for a in e.args]            # left to right: the order of the allocations
            if [t for _, t in args] != [BITS, REFS, INT]:
                raise Untranslatable(f'{cname}(...): argument types {[t for _, t in args]}')
            fn, raises = c['ctor']
            term = f'{fn} {self.s} {" ".join(v for v, _ in args)}'
            return (self.bind_state(term, 'o') if raises else self.step_state(term, 'o')), OBJ(cname)
        if isinstance(f, ast.Attribute):
            if f.attr == 'copy' and not e.args:
                base, bt = self.expr(f.value)
                if bt == BITS:
                    return self.step_state(f'Py.Heap.copyBits {self.s} {base}', 'b'), BITS
                if bt == REFS:
                    return self.step_state(f'Py.Heap.copyRefs {self.s} {base} 0', 'l'), REFS
                if not bt.startswith('obj:'):
                    raise Untranslatable(f'.copy() of a {bt}')
            base, bt = self.expr(f.value)
            if not bt.startswith('obj:'):
                raise Untranslatable(f'method .{f.attr} of a {bt}')
            cname = bt[4:]
            p = self.d.prims.get(f.attr)
            if p is not None and p[0] == cname:
                if len(e.args) != 1:
                    raise Untranslatable(f'{f.attr}: arguments')
                x, xt = self.expr(e.args[0])
                if not xt.startswith('obj:') or xt[4:] not in p[1]:
                    raise Untranslatable(f'{f.attr}: argument of type {xt}')
                r = self.fresh('r')
                self.lines.append(f'({p[2]} {self.s} {base} {x}).bind fun {r} =>')
                self.k += 1
                self.lines.append(f'let {self.s} := {r}')
                return base, bt
            if e.args:
                raise Untranslatable(f'call of {cname}.{f.attr} with arguments')
            callee = self.d.find(cname, f.attr)
            body = [s for s in callee.body if not (isinstance(s, ast.Expr) and isinstance(s.value, ast.Constant)) and
                    not isinstance(s, ast.ImportFrom)]
            if len(body) == 1 and isinstance(body[0], ast.Return) and not callee.decorator_list:
                sub = HTr.__new__(HTr)                       # try: a boolean method = one `return <bool expr>` -> inlined
                sub.__dict__.update(self.__dict__)
                sub.env = {'self': (base, bt)}
                n_lines = len(self.lines)
                try:
                    v, t = sub.expr(body[0].value)
                    if t == BOOL and len(self.lines) == n_lines:
                        self.check_imports(callee)
                        return v, BOOL
                except Untranslatable:
                    pass
                del self.lines[n_lines:]
            info = self.d.method(cname, f.attr)
            return self.bind_state(f'{info["lean"]} H {self.s} {base}', 'o'), info['ret']
        raise Untranslatable(f'call {ast.unparse(e)[:60]}')

    def check_imports(self, fn):
        for s in ast.walk(fn):
            if isinstance(s, ast.ImportFrom):
                for a in s.names:
                    if a.asname or self.d.imports.get(a.name) != (s.module, s.level):
                        raise Untranslatable(f'import of {a.name} from {"." * s.level}{s.module}')
            elif isinstance(s, ast.Import):
                raise Untranslatable('import statement')

    # ---- statements
    def block(self, stmts):
        if not stmts:
            raise Untranslatable('control reaches the end of the method without return')
        s, rest = stmts[0], stmts[1:]
        if isinstance(s, ast.Expr) and isinstance(s.value, ast.Constant):
            return self.block(rest)
        if isinstance(s, ast.ImportFrom):
            return self.block(rest)
        if isinstance(s, ast.Return):
            if s.value is None:
                raise Untranslatable('bare return')
            v, t = self.expr(s.value)
            if not t.startswith('obj:'):
                raise Untranslatable(f'the method returns a {t}')
            self.ret = t
            self.lines.append(f'some ({self.s}, {v})')
            return
        if isinstance(s, ast.If):
            if s.orelse or len(s.body) != 1 or not isinstance(s.body[0], ast.Raise):
                raise Untranslatable('if statement other than `if c: raise`')
            n_lines = len(self.lines)
            c, t = self.expr(s.test)
            if t != BOOL or len(self.lines) != n_lines:
                raise Untranslatable('condition')
            self.lines.append(f'if {c} then none else')
            return self.block(rest)
        if (isinstance(s, ast.Expr) and isinstance(s.value, ast.Call) and isinstance(s.value.func, ast.Attribute) and s.value.func.attr == 'append'
                and len(s.value.args) == 1 and not s.value.keywords):
            lst, lt = self.expr(s.value.func.value)
            x, xt = self.expr(s.value.args[0])
            if lt != REFS or xt != OBJ(self.d.elem or '?'):
                raise Untranslatable(f'append of a {xt} to a {lt}')
            prev = self.s
            self.k += 1
            self.lines.append(f'let {self.s} := Py.Heap.appendRef {prev} {lst} {x}')
            return self.block(rest)
        if (isinstance(s, ast.AugAssign) and isinstance(s.op, ast.Add) and isinstance(s.target, ast.Attribute) and isinstance(s.target.value, ast.Name)
                and s.target.value.id == 'self' and not self.classmethod and isinstance(s.value, ast.Constant) and isinstance(s.value.value, int)
                and not isinstance(s.value.value, bool) and s.value.value >= 0):
            at = self.d.classes[self.cls]['attrs'].get(s.target.attr)
            if at is None or at != (NAT, 'off'):
                raise Untranslatable(f'assignment {ast.unparse(s)[:40]}')
            prev = self.s
            self.k += 1
            self.lines.append(f'let {self.s} := Py.Heap.setOff {prev} self (({prev}.obj self).off + {s.value.value})')
            return self.block(rest)
        if isinstance(s, ast.Assign) and len(s.targets) == 1:
            tg = s.targets[0]
            if isinstance(tg, ast.Name):
                if tg.id in ('self', 'cls', 'H') or tg.id.startswith('σ'):
                    raise Untranslatable(f'assignment to {tg.id}')
                self.env[tg.id] = self.expr(s.value)
                return self.block(rest)
            if isinstance(tg, ast.Attribute) and isinstance(tg.value, ast.Name) and tg.value.id in self.env and tg.value.id != 'self' \
                    and not (self.classmethod and self.env[tg.value.id][0] == 'self'):
                base, bt = self.env[tg.value.id]
                at = self.d.classes[bt[4:]]['attrs'].get(tg.attr) if bt.startswith('obj:') else None
                v, t = self.expr(s.value)
                if at is None or at[0] not in (BITS, REFS) or t != at[0]:
                    raise Untranslatable(f'assignment {ast.unparse(s)[:40]}')
                fn = 'Py.Heap.setBitsPtr' if t == BITS else 'Py.Heap.setRefsPtr'
                prev = self.s
                self.k += 1
                self.lines.append(f'let {self.s} := {fn} {prev} {base} {v}')
                return self.block(rest)
        raise Untranslatable(f'statement {ast.unparse(s)[:50]}')

    def translate(self):
        self.check_imports(self.fn)
        for n in ast.walk(self.fn):
            if isinstance(n, (ast.For, ast.While, ast.Try, ast.With, ast.Lambda, ast.Global, ast.Nonlocal, ast.Yield, ast.Await)) or \
                    (isinstance(n, ast.FunctionDef) and n is not self.fn):
                raise Untranslatable(f'{self.fn.name}: {type(n).__name__}')
        self.ret = None
        self.block(list(self.fn.body))
        lean = f'{self.cls}_{self.fn.name}'
        text = ' '.join(ast.unparse(self.fn).split()).replace('-/', '- /').replace('/-', '/ -')
        body = '\n'.join('  ' + l for l in self.lines)
        extra = f' ({self.extra} : Nat)' if self.extra else ''
        return dict(lean=lean, ret=self.ret,
                    text=f'/-- {self.cls}.{self.fn.name}\n    source: `{text[:240]}` -/\n'
                         f'def {lean} (H : Bytes → Bytes) (σ : State) (self : Nat){extra} : Option (State × Nat) :=\n{body}\n')
