"""Python -> Lean translator for "copy / isolation glue": short methods that build a new object from the attributes of `self`,
deciding for every container (a bitarray, a list) whether the new object gets a COPY or the very same object.  The Lean
definition is a transformer of the abstract heap of Model/Heap.lean (aliasing is data there):

    def <Class>_<method> (H : Bytes → Bytes) (σ : State) (self : Nat) : Option (State × Nat)

`none` = the Python code raises, `some (σ', i)` = it returns object `i` in heap `σ'`.  No knowledge of pytoniq: the classes, which
attribute names which record field, the constructors and their meaning are DECLARED by the caller (heapsrc.py).

SUBSET
  values      a BITS pointer (id of a bit container), a REFS pointer (id of a list container), an OBJ(<Class>) (object id), INT (`type_`),
              NAT (`ref_offset`), BOOL
  expressions self | a local | X.<attr> for a declared attribute of the class of X (pointer attributes are read as the POINTER: that is
              the point) | a declared boolean attribute defined by an expression over other attributes (`is_exotic`)
              E.copy()                    E : BITS -> Py.Heap.copyBits ; E : REFS -> Py.Heap.copyRefs .. 0
              E[k:]                       E : REFS, k : NAT -> Py.Heap.copyRefs .. k     (a list slice is a new list)
              C(bits, refs, type)         a declared constructor (`cls(..)` inside a classmethod of C) -> newSlice / newCell? / ...
              C()                         a declared nullary constructor (Builder)
              E.m(x)                      a declared heap primitive returning its receiver (store_cell / store_slice)
              X.m()                       another translated method of the class of X (its own definition); a boolean method whose body is
                                          one `return <bool expr>` is inlined
              <Consts>.<name> | int literal | a == b | a != b | not a | True | False | `False if c else True`
  statements  x = E | x.<pointer attr> = E (x a local object) | if <bool>: raise ... | return E | `from .m import C` (checked) | docstring

MUTATING METHODS (loads / stores; session 5): a method may take ONE further parameter annotated with a declared class (`ref: Cell`); then
    def <Class>_<method> (H) (σ : State) (self : Nat) (<param> : Nat) : Option (State × Nat)
  expressions len(E)  E : REFS -> the length of the list container (NAT);  a >= b, a > b, a <= b, a < b on NAT (an int literal ≥ 0 is a NAT there)
              E[k]    E : REFS, k : NAT -> the k-th ELEMENT of the list container: the very object stored there (IndexError = none)
  statements  E.append(x)   E : REFS, x an object -> Py.Heap.appendRef: the list container E is mutated IN PLACE, the element is the object itself
              self.<nat attr> += k   (k an int literal ≥ 0) -> Py.Heap.setOff: only the record of `self` changes

BIT-MOVING METHODS (session 5, heapsrc2): any number of further parameters; a parameter is an object of a declared class (annotation), an
`int` (INT), or what the caller DECLARES for it (Decl.ptypes: NAT for a length, BITSVAL for "an iterable of bits": only its items are read).
A method may return an object, a BITS pointer (a bit array object: the id of its container) or an INT.
  expressions a + b, a - b inside an ordering (Python ints: a difference is computed in Int); X.<p> for an undeclared attribute that the
              class defines as `@property def p(self): return <expr>` (inlined)
              E[:k]   E : BITS, k : NAT -> Py.Heap.sliceBits: a NEW container holding the first k bits (pointer context: assigned, returned)
                                           | the VALUE `(σ.bitBuf E).take k` where only the items are read (argument of ba2int / extend / a BITSVAL parameter)
              ba2int(V, signed=False) -> Py.Heap.ba2intU? (INT; raises on an empty V) ; int2ba(v, n, signed=False) -> Py.Heap.int2baU? (a BITSVAL)
              X.m(a, ..)  another translated method with arguments (its own definition)
  statements  E.extend(F)   E, F : REFS -> Py.Heap.extendRefs (the same as E += F)
              E.extend(V)   E : BITS -> Py.Heap.extendBits?: the container E is extended IN PLACE by the items of V (TvmBitarray.extend: overflow check first)
              del E[:k]     E : BITS -> Py.Heap.delBits?: the first k bits are deleted IN PLACE (TvmBitarray.__delitem__: underflow check first)
              X.<list attr> += F   F : REFS -> Py.Heap.extendRefs: the list X.<attr> points to is extended IN PLACE by the ELEMENTS of F; the pointer stays
              X.m(a, ..)    as a statement: the heap effect of the translated method, result dropped
              for i in range(a, b): <statements without return>  -> Py.Heap.forRange a b σ (fun i τ => ..)   (bounds evaluated once)
              self.<pointer attr> = E   (a mutating method re-points its receiver)
  "raises" is `none`; the reading "a raising call leaves the heap as it was" (Py.Heap.result*) is checked by the validation (the receiver is
  compared after a raising call too) and follows for the proved methods from their equality with the model step.
"""
import ast

from .pyexpr import Untranslatable

BITS, REFS, INT, NAT, BOOL, BITSVAL = 'bits', 'refs', 'int', 'nat', 'bool', 'bitsval'
LEAN_T = {INT: 'Int', NAT: 'Nat', BITSVAL: 'Bits'}
LEAN_KW = {'from', 'at', 'end', 'by', 'do', 'fun', 'let', 'have', 'show', 'then', 'else', 'if', 'match', 'with', 'in', 'open', 'def', 'where', 'H', 'self', 'cls', 'some', 'none'}


def OBJ(c):
    return f'obj:{c}'


class Decl:
    """classes: {name: dict(node=ClassDef, tag=<Lean Tag>, attrs={py attr: (type, lean field | ast expr source for derived bools)},
                            ctor=(lean fn, raises) | None, nullary=(lean fn) | None)}
       prims:   {method name: (receiver class, argument class tuple, lean fn)}   receiver-returning heap primitives
       consts:  {('CellTypes', 'ordinary'): -1, ...}
       imports: {local name: (module, level)} allowed function-level imports"""

    def __init__(self, classes, prims, consts, imports, elem=None, ptypes=None, funcs=None):
        self.classes, self.prims, self.consts, self.imports = classes, prims, consts, imports
        self.ptypes = ptypes or {}      # {(class, method): {parameter: type}} declared parameter types (NAT for a length, BITSVAL for an iterable of bits)
        self.funcs = funcs or {}        # {class: {'ba2int', 'int2ba'}}: the module of the class imports these names from bitarray.util
        self.elem = elem                # class of the ELEMENTS of a list container (None: element reads / appends are not translated)
        self.defs = []
        self.done = {}
        self.stack = []

    def find(self, cls, name):
        fs = [n for n in self.classes[cls]['node'].body if isinstance(n, ast.FunctionDef) and n.name == name]
        if len(fs) != 1:
            raise Untranslatable(f'method {cls}.{name} not found (or defined twice)')
        return fs[0]

    def method(self, cls, name):
        key = (cls, name)
        if key in self.done:
            return self.done[key]
        if key in self.stack:
            raise Untranslatable(f'recursive method {cls}.{name}')
        self.stack.append(key)
        try:
            info = HTr(self, cls, self.find(cls, name)).translate()
        finally:
            self.stack.pop()
        self.done[key] = info
        self.defs.append((info['lean'], info['text']))
        return info


class HTr:
    def __init__(self, decl, cls, fn):
        self.d, self.cls, self.fn = decl, cls, fn
        decs = [ast.unparse(x) for x in fn.decorator_list]
        self.classmethod = decs == ['classmethod']
        if decs not in ([], ['classmethod']):
            raise Untranslatable(f'{cls}.{fn.name} is decorated')
        a = fn.args
        if a.vararg or a.kwarg or a.kwonlyargs or a.posonlyargs or a.defaults:
            raise Untranslatable(f'{fn.name}: parameter list')
        names = [x.arg for x in a.args]
        self.env = {}
        if self.classmethod:
            if len(names) != 2 or names[0] != 'cls':
                raise Untranslatable(f'{fn.name}: classmethod parameters {names}')
            ann = a.args[1].annotation
            argcls = ann.value if isinstance(ann, ast.Constant) else (ast.unparse(ann) if ann is not None else None)
            if argcls not in decl.classes:
                raise Untranslatable(f'{fn.name}: the parameter is not annotated with a declared class')
            self.env[names[1]] = ('self', OBJ(argcls))          # the Lean parameter is called `self`
            self.extra = None
            self.params = []
        else:
            if not names or names[0] != 'self':
                raise Untranslatable(f'{fn.name}: parameters {names}')
            declared = decl.ptypes.get((cls, fn.name), {})
            plist = []
            for x in a.args[1:]:
                ann = x.annotation
                argcls = ann.value if isinstance(ann, ast.Constant) else (ast.unparse(ann) if ann is not None else None)
                if x.arg in LEAN_KW or x.arg[0] in 'στ' or (x.arg[:1] in 'rbloci' and x.arg[1:].isdigit()) or not x.arg.isidentifier() or not x.arg.isascii():
                    raise Untranslatable(f'{fn.name}: parameter name {x.arg}')
                if x.arg in declared:
                    t = declared[x.arg]
                elif argcls in decl.classes:
                    t = OBJ(argcls)
                elif argcls == 'int':
                    t = INT
                else:
                    raise Untranslatable(f'{fn.name}: the parameter {x.arg} is not annotated with a declared class')
                plist.append((x.arg, t))
            self.env['self'] = ('self', OBJ(cls))
            self.extra = None
            self.params = plist
            for pn, pt in plist:
                self.env[pn] = (pn, pt)
        self.k = 0                                # index of the current heap variable
        self.sp = 'σ'                             # its name prefix (`τ` inside a loop body)
        self.in_loop = False
        self.n = 0
        self.lines = []

    # ---- helpers
    @property
    def s(self):
        return self.sp if self.k == 0 else f'{self.sp}{self.k}'

    def fresh(self, p):
        self.n += 1
        return f'{p}{self.n}'

    def step_state(self, term, val_prefix):
        """term : State × Nat  ->  new heap variable, returns the name of the Nat"""
        r = self.fresh('r')
        v = self.fresh(val_prefix)
        self.lines.append(f'let {r} := {term}')
        self.k += 1
        self.lines.append(f'let {self.s} := {r}.1')
        self.lines.append(f'let {v} := {r}.2')
        return v

    def bind_state(self, term, val_prefix):
        """term : Option (State × Nat)"""
        r = self.fresh('r')
        v = self.fresh(val_prefix)
        self.lines.append(f'({term}).bind fun {r} =>')
        self.k += 1
        self.lines.append(f'let {self.s} := {r}.1')
        self.lines.append(f'let {v} := {r}.2')
        return v

    @staticmethod
    def toint(t, ty):
        return t if ty == INT else f'({t} : Int)' if t.isdigit() else f'(({t} : Nat) : Int)'

    def num(self, x):
        """a Python int expression inside an ordering -> (text, NAT | INT); a difference is computed in Int"""
        if isinstance(x, ast.Constant) and isinstance(x.value, int) and not isinstance(x.value, bool) and x.value >= 0:
            return str(x.value), NAT
        if isinstance(x, ast.BinOp) and isinstance(x.op, (ast.Add, ast.Sub)):
            (lv, lt), (rv, rt) = self.num(x.left), self.num(x.right)
            if isinstance(x.op, ast.Add) and lt == NAT and rt == NAT:
                return f'({lv} + {rv})', NAT
            return f'({self.toint(lv, lt)} {"+" if isinstance(x.op, ast.Add) else "-"} {self.toint(rv, rt)})', INT
        v, t = self.expr(x)
        if t not in (NAT, INT):
            raise Untranslatable(f'ordering of a {t}')
        return v, t

    def bits_prefix(self, e):
        """E[:k] with E : BITS, k : NAT -> (pointer text, k text) | None"""
        if isinstance(e, ast.Subscript) and isinstance(e.slice, ast.Slice) and e.slice.lower is None and e.slice.step is None and e.slice.upper is not None:
            n_lines = len(self.lines)
            base, bt = self.expr(e.value)
            if bt != BITS:
                del self.lines[n_lines:]
                return None
            k, kt = self.expr(e.slice.upper)
            if kt != NAT or len(self.lines) != n_lines:
                raise Untranslatable('bit slice bound is not a known non-negative int')
            return base, k
        return None

    def val(self, e):
        """a sequence of bits of which only the ITEMS are read (argument of extend / ba2int / a BITSVAL parameter) -> Lean `Bits`"""
        bp = self.bits_prefix(e)
        if bp is not None:
            return f'(({self.s}.bitBuf {bp[0]}).take {bp[1]})'
        v, t = self.expr(e)
        if t == BITSVAL:
            return v
        if t == BITS:
            return f'({self.s}.bitBuf {v})'
        raise Untranslatable(f'a {t} where a sequence of bits is expected')

    # ---- expressions -> (lean text, type)
    def expr(self, e):
        if isinstance(e, ast.Constant):
            if isinstance(e.value, bool):
                return ('true' if e.value else 'false'), BOOL
            if isinstance(e.value, int):
                return f'({e.value} : Int)', INT
            raise Untranslatable(f'constant {e.value!r}')
        if isinstance(e, ast.UnaryOp) and isinstance(e.op, ast.USub) and isinstance(e.operand, ast.Constant) and isinstance(e.operand.value, int):
            return f'(-{e.operand.value} : Int)', INT
        if isinstance(e, ast.UnaryOp) and isinstance(e.op, ast.Not):
            v, t = self.expr(e.operand)
            if t != BOOL:
                raise Untranslatable('not of a non-boolean')
            return f'(!{v})', BOOL
        if isinstance(e, ast.Name):
            if e.id in self.env:
                return self.env[e.id]
            raise Untranslatable(f'undeclared name {e.id}')
        if isinstance(e, ast.Attribute):
            if isinstance(e.value, ast.Name) and e.value.id not in self.env and (e.value.id, e.attr) in self.d.consts:
                return f'({self.d.consts[(e.value.id, e.attr)]} : Int)', INT
            base, bt = self.expr(e.value)
            if not bt.startswith('obj:'):
                raise Untranslatable(f'attribute .{e.attr} of a {bt}')
            at = self.d.classes[bt[4:]]['attrs'].get(e.attr)
            if at is None:
                props = [n for n in self.d.classes[bt[4:]]['node'].body if isinstance(n, ast.FunctionDef) and n.name == e.attr]
                body = [x for x in props[0].body if not (isinstance(x, ast.Expr) and isinstance(x.value, ast.Constant))] if len(props) == 1 else []
                if len(props) == 1 and [ast.unparse(x) for x in props[0].decorator_list] == ['property'] and len(body) == 1 and \
                        isinstance(body[0], ast.Return) and body[0].value is not None and [x.arg for x in props[0].args.args] == ['self']:
                    sub = HTr.__new__(HTr)                   # `@property def p(self): return <expr>` -> inlined
                    sub.__dict__.update(self.__dict__)
                    sub.env = {'self': (base, bt)}
                    n_lines = len(self.lines)
                    if isinstance(body[0].value, ast.BinOp):
                        v, t = sub.num(body[0].value)
                    else:
                        v, t = sub.expr(body[0].value)
                    if len(self.lines) != n_lines:
                        raise Untranslatable(f'property {e.attr} allocates')
                    return v, t
                raise Untranslatable(f'attribute {bt[4:]}.{e.attr} is not declared')
            t, fld = at
            if fld.startswith('='):                      # derived: an expression over the object's other attributes
                sub = HTr.__new__(HTr)
                sub.__dict__.update(self.__dict__)
                sub.env = {'self': (base, bt)}
                v, vt = sub.expr(ast.parse(fld[1:], mode='eval').body)
                if vt != t:
                    raise Untranslatable(f'derived attribute {e.attr} has type {vt}')
                return v, t
            return f'({self.s}.obj {base}).{fld}', t
        if isinstance(e, ast.Compare) and len(e.ops) == 1 and isinstance(e.ops[0], (ast.GtE, ast.Gt, ast.LtE, ast.Lt)):
            (lv, lt), (rv, rt) = self.num(e.left), self.num(e.comparators[0])
            if lt != rt:
                lv, rv = self.toint(lv, lt), self.toint(rv, rt)
            sym = {ast.GtE: '≥', ast.Gt: '>', ast.LtE: '≤', ast.Lt: '<'}[type(e.ops[0])]
            return f'(decide ({lv} {sym} {rv}))', BOOL
        if isinstance(e, ast.Compare) and len(e.ops) == 1 and isinstance(e.ops[0], (ast.Eq, ast.NotEq)):
            l, r = self.expr(e.left), self.expr(e.comparators[0])
            if l[1] != r[1] or l[1] not in (INT, NAT, BOOL):
                raise Untranslatable(f'comparison of {l[1]} with {r[1]}')
            return f'({l[0]} {"==" if isinstance(e.ops[0], ast.Eq) else "!="} {r[0]})', BOOL
        if isinstance(e, ast.IfExp):
            c, ct = self.expr(e.test)
            a, at = self.expr(e.body)
            b, bt = self.expr(e.orelse)
            if ct != BOOL or at != BOOL or bt != BOOL:
                raise Untranslatable('conditional expression over non-booleans')
            return f'(if {c} then {a} else {b})', BOOL
        if isinstance(e, ast.Subscript):
            bp = self.bits_prefix(e)
            if bp is not None:
                return self.step_state(f'Py.Heap.sliceBits {self.s} {bp[0]} {bp[1]}', 'b'), BITS
            base, bt = self.expr(e.value)
            s = e.slice
            if bt == REFS and not isinstance(s, ast.Slice):
                k, kt = self.expr(s)
                if kt != NAT or not self.d.elem:
                    raise Untranslatable('list index is not a known non-negative int')
                r = self.fresh('c')
                self.lines.append(f'(Py.Heap.refAt? {self.s} {base} {k}).bind fun {r} =>')
                return r, OBJ(self.d.elem)
            if bt != REFS or not isinstance(s, ast.Slice) or s.upper is not None or s.step is not None or s.lower is None:
                raise Untranslatable(f'subscript {ast.unparse(e)[:40]}')
            k, kt = self.expr(s.lower)
            if kt != NAT:
                raise Untranslatable('list slice bound is not a known non-negative int')
            return self.step_state(f'Py.Heap.copyRefs {self.s} {base} {k}', 'l'), REFS
        if isinstance(e, ast.Call):
            return self.call(e)
        raise Untranslatable(f'expression {ast.unparse(e)[:60]}')

    def call(self, e):
        f = e.func
        if isinstance(f, ast.Name) and f.id in ('ba2int', 'int2ba') and f.id in self.d.funcs.get(self.cls, ()) and f.id not in self.env:
            if [(k.arg, ast.unparse(k.value)) for k in e.keywords] != [('signed', 'False')]:
                raise Untranslatable(f'{f.id}: only signed=False is declared')
            if f.id == 'ba2int' and len(e.args) == 1:
                v = self.val(e.args[0])
                r = self.fresh('i')
                self.lines.append(f'(Py.Heap.ba2intU? {v}).bind fun {r} =>')
                return r, INT
            if f.id == 'int2ba' and len(e.args) == 2:
                (v, vt), (n, nt) = self.expr(e.args[0]), self.expr(e.args[1])
                if vt != INT or nt != NAT:
                    raise Untranslatable(f'int2ba of a {vt} and a {nt}')
                r = self.fresh('v')
                self.lines.append(f'(Py.Heap.int2baU? {v} {n}).bind fun {r} =>')
                return r, BITSVAL
            raise Untranslatable(f'call of {f.id}')
        if e.keywords:
            raise Untranslatable('keyword arguments')
        if isinstance(f, ast.Name) and f.id == 'len' and 'len' not in self.env and len(e.args) == 1:
            v, t = self.expr(e.args[0])
            if t == BITS:
                return f'({self.s}.bitBuf {v}).length', NAT
            if t != REFS:
                raise Untranslatable(f'len of a {t}')
            return f'({self.s}.refBuf {v}).length', NAT
        if isinstance(f, ast.Name) and f.id == 'bitarray' and 'bitarray' in self.d.funcs.get(self.cls, ()) and f.id not in self.env and len(e.args) == 1 \
                and not e.keywords:
            v, t = self.expr(e.args[0])                      # bitarray(x): a NEW plain array with the items of x
            if t != BITS:
                raise Untranslatable(f'bitarray of a {t}')
            return self.step_state(f'Py.Heap.copyBits {self.s} {v}', 'b'), BITS
        if isinstance(f, ast.Name):
            cname = self.cls if (f.id == 'cls' and self.classmethod) else f.id
            c = self.d.classes.get(cname)
            if c is None or (f.id in self.env):
                raise Untranslatable(f'call of {f.id}')
            if not e.args:
                if not c.get('nullary'):
                    raise Untranslatable(f'{cname}() is not a declared constructor')
                return self.step_state(f'{c["nullary"]} {self.s}', 'o'), OBJ(cname)
            if not c.get('ctor') or len(e.args) != 3:
                raise Untranslatable(f'{cname}(...) is not a declared constructor call')
            args = [self.expr(a) for a in e.args]            # left to right: the order of the allocations
            if [t for _, t in args] != [BITS, REFS, INT]:
                raise Untranslatable(f'{cname}(...): argument types {[t for _, t in args]}')
            fn, raises = c['ctor']
            term = f'{fn} {self.s} {" ".join(v for v, _ in args)}'
            return (self.bind_state(term, 'o') if raises else self.step_state(term, 'o')), OBJ(cname)
        if isinstance(f, ast.Attribute):
            if f.attr == 'tobytes' and not e.args and not e.keywords:
                base, bt = self.expr(f.value)
                if bt != BITS:
                    raise Untranslatable(f'tobytes of a {bt}')
                return f'(bitsToBytes ({self.s}.bitBuf {base}))', 'bytesval'
            if f.attr == 'copy' and not e.args:
                base, bt = self.expr(f.value)
                if bt == BITS:
                    return self.step_state(f'Py.Heap.copyBits {self.s} {base}', 'b'), BITS
                if bt == REFS:
                    return self.step_state(f'Py.Heap.copyRefs {self.s} {base} 0', 'l'), REFS
                if not bt.startswith('obj:'):
                    raise Untranslatable(f'.copy() of a {bt}')
            base, bt = self.expr(f.value)
            if not bt.startswith('obj:'):
                raise Untranslatable(f'method .{f.attr} of a {bt}')
            cname = bt[4:]
            p = self.d.prims.get(f.attr)
            if p is not None and p[0] == cname:
                if len(e.args) != 1:
                    raise Untranslatable(f'{f.attr}: arguments')
                x, xt = self.expr(e.args[0])
                if not xt.startswith('obj:') or xt[4:] not in p[1]:
                    raise Untranslatable(f'{f.attr}: argument of type {xt}')
                r = self.fresh('r')
                self.lines.append(f'({p[2]} {self.s} {base} {x}).bind fun {r} =>')
                self.k += 1
                self.lines.append(f'let {self.s} := {r}')
                return base, bt
            callee = self.d.find(cname, f.attr)
            body = [s for s in callee.body if not (isinstance(s, ast.Expr) and isinstance(s.value, ast.Constant)) and
                    not isinstance(s, ast.ImportFrom)]
            if not e.args and len(body) == 1 and isinstance(body[0], ast.Return) and not callee.decorator_list:
                sub = HTr.__new__(HTr)                       # try: a boolean method = one `return <bool expr>` -> inlined
                sub.__dict__.update(self.__dict__)
                sub.env = {'self': (base, bt)}
                n_lines = len(self.lines)
                try:
                    v, t = sub.expr(body[0].value)
                    if t == BOOL and len(self.lines) == n_lines:
                        self.check_imports(callee)
                        return v, BOOL
                except Untranslatable:
                    pass
                del self.lines[n_lines:]
            info = self.d.method(cname, f.attr)
            if len(e.args) != len(info['params']):
                raise Untranslatable(f'call of {cname}.{f.attr}: {len(e.args)} arguments')
            args = []
            for a, (pn, pt) in zip(e.args, info['params']):
                if pt == BITSVAL:
                    args.append(self.val(a))
                else:
                    v, t = self.expr(a)
                    if t != pt:
                        raise Untranslatable(f'call of {cname}.{f.attr}: argument {pn} is a {t}')
                    args.append(v)
            pre = 'o' if info['ret'].startswith('obj:') else 'b' if info['ret'] == BITS else 'y' if info['ret'] == 'bytesval' else 'i'
            return self.bind_state(' '.join([f'{info["lean"]} H {self.s} {base}'] + args), pre), info['ret']
        raise Untranslatable(f'call {ast.unparse(e)[:60]}')

    def check_imports(self, fn):
        for s in ast.walk(fn):
            if isinstance(s, ast.ImportFrom):
                for a in s.names:
                    if a.asname or self.d.imports.get(a.name) != (s.module, s.level):
                        raise Untranslatable(f'import of {a.name} from {"." * s.level}{s.module}')
            elif isinstance(s, ast.Import):
                raise Untranslatable('import statement')

    # ---- statements
    def block(self, stmts):
        if not stmts:
            if self.in_loop:
                self.lines.append(f'some {self.s}')
                return
            raise Untranslatable('control reaches the end of the method without return')
        s, rest = stmts[0], stmts[1:]
        if isinstance(s, ast.Expr) and isinstance(s.value, ast.Constant):
            return self.block(rest)
        if isinstance(s, ast.ImportFrom):
            return self.block(rest)
        if isinstance(s, ast.Return):
            if s.value is None:
                raise Untranslatable('bare return')
            if self.in_loop:
                raise Untranslatable('return inside a loop')
            v, t = self.expr(s.value)
            if not t.startswith('obj:') and t not in (BITS, INT, 'bytesval'):
                raise Untranslatable(f'the method returns a {t}')
            self.ret = t
            self.lines.append(f'some ({self.s}, {v})')
            return
        if isinstance(s, ast.If) and len(s.body) == 1 and isinstance(s.body[0], ast.Raise):
            if s.orelse:
                raise Untranslatable('if statement other than `if c: raise`')
            n_lines = len(self.lines)
            c, t = self.expr(s.test)
            if t != BOOL or len(self.lines) != n_lines:
                raise Untranslatable('condition')
            self.lines.append(f'if {c} then none else')
            return self.block(rest)
        if (isinstance(s, ast.Expr) and isinstance(s.value, ast.Call) and isinstance(s.value.func, ast.Attribute) and s.value.func.attr == 'extend'
                and len(s.value.args) == 1 and not s.value.keywords):
            tgt, tt = self.expr(s.value.func.value)
            if tt == REFS:                                   # l.extend(m) = l += m: in place, by the elements
                v, t = self.expr(s.value.args[0])
                if t != REFS:
                    raise Untranslatable(f'list.extend of a {t}')
                prev = self.s
                self.k += 1
                self.lines.append(f'let {self.s} := Py.Heap.extendRefs {prev} {tgt} {v}')
                return self.block(rest)
            if tt != BITS:
                raise Untranslatable(f'extend of a {tt}')
            v = self.val(s.value.args[0])
            r = self.fresh('r')
            self.lines.append(f'(Py.Heap.extendBits? {self.s} {tgt} {v}).bind fun {r} =>')
            self.k += 1
            self.lines.append(f'let {self.s} := {r}')
            return self.block(rest)
        if (isinstance(s, ast.Expr) and isinstance(s.value, ast.Call) and isinstance(s.value.func, ast.Attribute) and s.value.func.attr in ('append', 'fill')
                and not s.value.keywords and isinstance(s.value.func.value, ast.Name) and self.env.get(s.value.func.value.id, (None, None))[1] == BITS):
            tgt = self.env[s.value.func.value.id][0]         # on a LOCAL bit array pointer: in place on whatever container it points to
            a = s.value.args
            if s.value.func.attr == 'append' and len(a) == 1 and isinstance(a[0], ast.Constant) and a[0].value in (0, 1) and not isinstance(a[0].value, bool):
                term = f'Py.Heap.appendBit {self.s} {tgt} {"true" if a[0].value else "false"}'
            elif s.value.func.attr == 'fill' and not a:
                term = f'Py.Heap.fillBits {self.s} {tgt}'
            else:
                raise Untranslatable(f'statement {ast.unparse(s)[:50]}')
            self.k += 1
            self.lines.append(f'let {self.s} := {term}')
            return self.block(rest)
        if isinstance(s, ast.If) and not s.orelse and not any(isinstance(n, (ast.Raise, ast.Return, ast.Assign, ast.AugAssign, ast.AnnAssign, ast.Delete, ast.For, ast.If))
                                                               for b in s.body for n in ast.walk(b)):
            n_lines = len(self.lines)                        # `if c: <in-place statements>`: the heap after it is one or the other
            if isinstance(s.test, ast.BinOp) and isinstance(s.test.op, ast.Mod) and isinstance(s.test.right, ast.Constant) and isinstance(s.test.right.value, int) \
                    and not isinstance(s.test.right.value, bool) and s.test.right.value > 0:
                v, t = self.expr(s.test.left)
                if t != NAT:
                    raise Untranslatable(f'modulus of a {t}')
                c = f'(decide ({v} % {s.test.right.value} ≠ 0))'
            else:
                c, t = self.expr(s.test)
                if t != BOOL:
                    raise Untranslatable('condition')
            if len(self.lines) != n_lines:
                raise Untranslatable('condition')
            sub = HTr.__new__(HTr)
            sub.__dict__.update(self.__dict__)
            sub.env = dict(self.env)
            sub.lines, sub.in_loop = [], True
            sub.block(list(s.body))
            if not sub.lines[-1].startswith('some ') or any('.bind fun' in l for l in sub.lines):
                raise Untranslatable('if body may raise')
            self.n = sub.n
            prev = self.s
            self.k = sub.k + 1
            body = ' '.join(l + ';' for l in sub.lines[:-1]) + ' ' + sub.lines[-1][5:]
            self.lines.append(f'let {self.s} := if {c} then ({body.strip()}) else {prev}')
            return self.block(rest)
        if isinstance(s, ast.Delete) and len(s.targets) == 1:
            bp = self.bits_prefix(s.targets[0])
            if bp is None:
                raise Untranslatable(f'statement {ast.unparse(s)[:50]}')
            r = self.fresh('r')
            self.lines.append(f'(Py.Heap.delBits? {self.s} {bp[0]} {bp[1]}).bind fun {r} =>')
            self.k += 1
            self.lines.append(f'let {self.s} := {r}')
            return self.block(rest)
        if (isinstance(s, ast.AugAssign) and isinstance(s.op, ast.Add) and isinstance(s.target, ast.Attribute) and isinstance(s.target.value, ast.Name)
                and s.target.value.id in self.env and self.env[s.target.value.id][1].startswith('obj:')):
            base, bt = self.env[s.target.value.id]
            at = self.d.classes[bt[4:]]['attrs'].get(s.target.attr)
            if at is not None and at[0] == REFS:
                if any(isinstance(n, ast.FunctionDef) and n.name == s.target.attr for n in self.d.classes[bt[4:]]['node'].body):
                    raise Untranslatable(f'{s.target.attr} is a property: `+=` would call its setter')
                ptr = f'({self.s}.obj {base}).{at[1]}'
                v, t = self.expr(s.value)
                if t != REFS:
                    raise Untranslatable(f'list += {t}')
                prev = self.s
                self.k += 1
                self.lines.append(f'let {self.s} := Py.Heap.extendRefs {prev} {ptr} {v}')
                return self.block(rest)
        if (isinstance(s, ast.Expr) and isinstance(s.value, ast.Call) and isinstance(s.value.func, ast.Attribute) and s.value.func.attr != 'append'
                and isinstance(s.value.func.value, ast.Name) and s.value.func.value.id in self.env
                and self.env[s.value.func.value.id][1].startswith('obj:')):
            self.call(s.value)                               # the heap effect of another translated method; its result is dropped
            return self.block(rest)
        if (isinstance(s, ast.For) and not s.orelse and isinstance(s.target, ast.Name) and isinstance(s.iter, ast.Call) and isinstance(s.iter.func, ast.Name)
                and s.iter.func.id == 'range' and 'range' not in self.env and len(s.iter.args) == 2 and not s.iter.keywords and not self.in_loop):
            n_lines = len(self.lines)
            (lo, lot), (hi, hit) = self.expr(s.iter.args[0]), self.expr(s.iter.args[1])
            iv = s.target.id
            if lot != NAT or hit != NAT or len(self.lines) != n_lines or iv in self.env or iv in LEAN_KW or not iv.isascii() or not iv.isidentifier() \
                    or (iv[:1] in 'rbloci' and iv[1:].isdigit()):
                raise Untranslatable(f'loop {ast.unparse(s.iter)[:40]}')
            for n in ast.walk(s):
                if isinstance(n, (ast.Break, ast.Continue, ast.Return)) or (isinstance(n, ast.Name) and n.id == iv and isinstance(n.ctx, ast.Store) and n is not s.target):
                    raise Untranslatable('loop body: break / continue / return / assignment to the loop variable')
            sub = HTr.__new__(HTr)
            sub.__dict__.update(self.__dict__)
            sub.env = dict(self.env)
            sub.env[iv] = (iv, NAT)
            sub.lines, sub.k, sub.sp, sub.in_loop = [], 0, 'τ', True
            sub.block(list(s.body))
            self.n = sub.n
            r = self.fresh('r')
            self.lines.append(f'(Py.Heap.forRange {lo} {hi} {self.s} fun {iv} τ =>')
            self.lines += ['    ' + l for l in sub.lines[:-1]] + ['    ' + sub.lines[-1] + f').bind fun {r} =>']
            self.k += 1
            self.lines.append(f'let {self.s} := {r}')
            return self.block(rest)
        if (isinstance(s, ast.Expr) and isinstance(s.value, ast.Call) and isinstance(s.value.func, ast.Attribute) and s.value.func.attr == 'append'
                and len(s.value.args) == 1 and not s.value.keywords):
            lst, lt = self.expr(s.value.func.value)
            x, xt = self.expr(s.value.args[0])
            if lt != REFS or xt != OBJ(self.d.elem or '?'):
                raise Untranslatable(f'append of a {xt} to a {lt}')
            prev = self.s
            self.k += 1
            self.lines.append(f'let {self.s} := Py.Heap.appendRef {prev} {lst} {x}')
            return self.block(rest)
        if (isinstance(s, ast.AugAssign) and isinstance(s.op, ast.Add) and isinstance(s.target, ast.Attribute) and isinstance(s.target.value, ast.Name)
                and s.target.value.id == 'self' and not self.classmethod and isinstance(s.value, ast.Constant) and isinstance(s.value.value, int)
                and not isinstance(s.value.value, bool) and s.value.value >= 0):
            at = self.d.classes[self.cls]['attrs'].get(s.target.attr)
            if at is None or at != (NAT, 'off'):
                raise Untranslatable(f'assignment {ast.unparse(s)[:40]}')
            prev = self.s
            self.k += 1
            self.lines.append(f'let {self.s} := Py.Heap.setOff {prev} self (({prev}.obj self).off + {s.value.value})')
            return self.block(rest)
        if isinstance(s, ast.Assign) and len(s.targets) == 1:
            tg = s.targets[0]
            if isinstance(tg, ast.Name):
                if tg.id in ('self', 'cls', 'H') or tg.id.startswith('σ'):
                    raise Untranslatable(f'assignment to {tg.id}')
                self.env[tg.id] = self.expr(s.value)
                return self.block(rest)
            if isinstance(tg, ast.Attribute) and isinstance(tg.value, ast.Name) and tg.value.id in self.env \
                    and not (self.classmethod and self.env[tg.value.id][0] == 'self'):
                base, bt = self.env[tg.value.id]
                at = self.d.classes[bt[4:]]['attrs'].get(tg.attr) if bt.startswith('obj:') else None
                v, t = self.expr(s.value)
                if at is None or at[0] not in (BITS, REFS) or t != at[0]:
                    raise Untranslatable(f'assignment {ast.unparse(s)[:40]}')
                fn = 'Py.Heap.setBitsPtr' if t == BITS else 'Py.Heap.setRefsPtr'
                prev = self.s
                self.k += 1
                self.lines.append(f'let {self.s} := {fn} {prev} {base} {v}')
                return self.block(rest)
        raise Untranslatable(f'statement {ast.unparse(s)[:50]}')

    def translate(self):
        self.check_imports(self.fn)
        for n in ast.walk(self.fn):
            if isinstance(n, (ast.While, ast.Try, ast.With, ast.Lambda, ast.Global, ast.Nonlocal, ast.Yield, ast.Await)) or \
                    (isinstance(n, ast.FunctionDef) and n is not self.fn):
                raise Untranslatable(f'{self.fn.name}: {type(n).__name__}')
        self.ret = None
        self.block(list(self.fn.body))
        lean = f'{self.cls}_{self.fn.name}'
        text = ' '.join(ast.unparse(self.fn).split()).replace('-/', '- /').replace('/-', '/ -')
        body = '\n'.join('  ' + l for l in self.lines)
        extra = ''.join(f' ({pn} : {LEAN_T.get(pt, "Nat")})' for pn, pt in self.params)
        rt = 'Int' if self.ret == INT else 'Bytes' if self.ret == 'bytesval' else 'Nat'
        return dict(lean=lean, ret=self.ret, params=list(self.params),
                    text=f'/-- {self.cls}.{self.fn.name}\n    source: `{text[:240]}` -/\n'
                         f'def {lean} (H : Bytes → Bytes) (σ : State) (self : Nat){extra} : Option (State × {rt}) :=\n{body}\n')
