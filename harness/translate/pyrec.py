"""Python -> Lean translator for RECURSIVE, STATE-PASSING programs over library objects (no knowledge of pytoniq here; the
declared interface - which functions, their parameter types, the meaning of the library methods - is in hashmapsrc.py).

Every translated module-level function `f(p1, …, pn)` becomes one Lean definition in the `Option` monad (`none` = raises):

    def f [{V : Type}] [(callback : …)] [(fuel : Nat)] (p1 : T1) … : Option R

* MUTATION = state passing.  A parameter of a mutable type (bitarray, Slice, Builder, dict, list) that the function mutates
  (a mutating method call, `d[k] = v`, or passing it to a callee / callback that mutates that position - computed as a fixpoint
  over the call graph) is RETURNED next to the result: R = result × (mutated parameters, in parameter order); a function
  that returns nothing and mutates nothing has R = Unit.  A mutating call rebinds the (Lean) name.  That is the Python
  meaning as long as no object is reachable through two names: an argument in a mutated position must be a plain local name
  (not frozen) or a fresh value (a call); `a = b` for a mutable `b` is refused; a mutable local stored into a container
  (`d[k] = cs`, `xs.append(cs)`) is FROZEN (a later mutation through the name is refused); re-binding a mutable parameter is refused.
* RECURSION = fuel.  The functions of a cyclic strongly connected component of the call graph are emitted as one `mutual`
  block, each by structural recursion on a first argument `fuel : Nat` (`| 0, … => none`), calls inside the component pass
  the predecessor; callers of such functions take `fuel` and pass it on.  Python has no fuel: the theorems about the generated
  definitions hold FOR EVERY fuel above an explicit bound of the inputs, which is the statement about the Python recursion.
* `while c: body` = an auxiliary definition by recursion on loop fuel, started with the DECLARED variant expression of the
  loop (`variants=[…]`, a Lean term over the variables at loop entry; the proofs show the loop result is the same for every
  larger fuel).  `for x in xs: body` = `List.foldlM`, with `break` = `Py.loop?` (PyBytes.lean).
* `if`: a branch that ends in return / raise / break takes the rest of the block into the other branch; if a branch contains a
  `return` the rest is copied into both; otherwise the variables written in the branches (sorted by name) are passed through a tuple.

Subset: see `Tr.expr`, `Tr.stmt`; everything else raises Untranslatable (tie `lost`).
"""
import ast

from .pyexpr import Untranslatable

NAT, INT, BOOL, BIT, CHR, STR, BITS, KIND, SLICE, CELL, BLD, TREE, NONE = (
    'Nat', 'Int', 'Bool', 'Bit', 'Chr', 'Str', 'Bits', 'Kind', 'Slice', 'Cell', 'Bld', 'Tree', 'None')


def DICT(k, v):
    return ('Dict', k, v)


def LIST(t):
    return ('List', t)


def TV(n):
    return ('TV', n)


def OPT(t):
    return ('Opt', t)


def TUP(*ts):
    return ('Tup',) + tuple(ts)


class FN:
    """a callback parameter: argument types, result type, indices of the arguments it mutates"""
    def __init__(self, args, ret, mutates=()):
        self.args, self.ret, self.mutates = list(args), ret, list(mutates)


def is_mutable(t):
    return t in (BITS, SLICE, BLD) or (isinstance(t, tuple) and t[0] in ('Dict', 'List'))


def tvars(t, out):
    if isinstance(t, tuple):
        if t[0] == 'TV':
            if t[1] not in out:
                out.append(t[1])
        else:
            for x in t[1:]:
                tvars(x, out)
    elif isinstance(t, FN):
        for x in t.args + [t.ret]:
            tvars(x, out)
    elif t == TREE:
        if 'V' not in out:
            out.append('V')
    return out


def lean_ty(t):
    if isinstance(t, FN):
        res = [lean_ty(t.ret)] if t.ret != NONE else []
        res += [lean_ty(t.args[i]) for i in t.mutates]
        r = ' × '.join(res) if res else 'Unit'
        return ' → '.join([par_ty(a) for a in t.args] + [f'Option ({r})'])
    if isinstance(t, tuple):
        if t[0] == 'Dict':
            return f'List ({lean_ty(t[1])} × {lean_ty(t[2])})'
        if t[0] == 'List':
            return f'List {par_ty(t[1])}'
        if t[0] == 'TV':
            return t[1]
        if t[0] == 'Opt':
            return f'Option {par_ty(t[1])}'
        if t[0] == 'Tup':
            return ' × '.join(par_ty(x) for x in t[1:])
    return {NAT: 'Nat', INT: 'Int', BOOL: 'Bool', BIT: 'Bool', CHR: 'Bool', STR: 'Bits', BITS: 'Bits', KIND: 'String', SLICE: 'Py.Slice',
            CELL: 'Cell', BLD: 'Py.Bld', TREE: 'Py.Tree V', NONE: 'Unit', 'Bytes': 'Bytes', 'Text': 'Bytes', 'Addr': 'Addr'}[t]


def par_ty(t):
    s = lean_ty(t)
    return f'({s})' if ' ' in s else s


KEYWORDS = {'prefix', 'postfix', 'infix', 'infixl', 'infixr', 'notation', 'end', 'from', 'at', 'in', 'do', 'then', 'else', 'if', 'let',
            'have', 'show', 'fun', 'match', 'with', 'open', 'section', 'namespace', 'def', 'theorem', 'instance', 'structure', 'class',
            'where', 'deriving', 'mutual', 'private', 'protected', 'local', 'macro', 'syntax', 'to', 'by', 'for', 'return', 'type', 'Type',
            'fuel', 'some', 'none', 'pure'}


def lname(n):
    return n + '_' if n in KEYWORDS else n


def tup(xs):
    xs = list(xs)
    return '()' if not xs else xs[0] if len(xs) == 1 else '(' + ', '.join(xs) + ')'


def ind(lines, by='  '):
    return [by + l for l in lines]


class Decl:
    def __init__(self, name, params, ret=NONE, locals_=None, variants=(), module=None, returns_param=None):
        self.name, self.params, self.ret = name, list(params), ret
        self.returns_param = returns_param      # `return <this parameter>`: the caller may only discard the result (no alias)
        self.locals = dict(locals_ or {})
        self.variants = list(variants)
        self.module = module
        self.node = None
        self.mutated = []        # names of mutated parameters, in parameter order
        self.fuel = False
        self.scc = None          # list of names if in a cyclic component

    def ptype(self, n):
        return dict(self.params)[n]


# method tables: receiver type -> method -> (argument types, result type, mutates receiver, lean template)
METHODS = {
    SLICE: {'load_bit': ([], BIT, True, '({r}).loadBit?'), 'load_bits': ([NAT], BITS, True, '({r}).loadBits? {0}'),
            'load_uint': ([NAT], NAT, True, '({r}).loadUint? {0}'), 'load_ref': ([], CELL, True, '({r}).loadRef?')},
    BLD: {'store_bit_int': ([BOOL], NONE, True, '({r}).storeBit? {0}'), 'store_uint': ([NAT, NAT], NONE, True, '({r}).storeUint? {0} {1}'),
          'store_ref': ([CELL], NONE, True, '({r}).storeRef? {0}')},
}
# read-only attributes of a Slice; `remaining_bits` / `remaining_refs` (= len(bits) / len(refs) - ref_offset) are what is left to read:
# the model's Slice holds exactly the remaining bits and references
SLICE_ATTRS = {'type_': ('kind', INT), 'remaining_refs': ('refs.length', NAT), 'remaining_bits': ('bits.length', NAT)}
# non-mutating methods that may raise: receiver type -> method -> (result type, lean template)
PEEK_METHODS = {SLICE: {'preload_bit': (BIT, '({r}).preloadBit?'), 'preload_ref': (CELL, '({r}).preloadRef?')}}


def calls_in(node):
    for n in ast.walk(node):
        if isinstance(n, ast.Call) and isinstance(n.func, ast.Name):
            yield n


def contains(stmts, kinds):
    for s in stmts:
        for n in ast.walk(s):
            if isinstance(n, kinds):
                return True
    return False


def definitely_exits(stmts):
    for s in stmts:
        if isinstance(s, (ast.Return, ast.Raise, ast.Break)):
            return True
        if isinstance(s, ast.If) and s.orelse and definitely_exits(s.body) and definitely_exits(s.orelse):
            return True
    return False


class Program:
    def __init__(self, decls, consts=None, externs=None):
        """decls: [Decl] with .node set; consts: {'CellTypes.ordinary': ('(-1 : Int)', INT)}; externs: {name: (argtypes, ret, lean template)}"""
        self.decls = {d.name: d for d in decls}
        self.order = [d.name for d in decls]
        self.consts = consts or {}
        self.externs = externs or {}
        self.analyse()

    # ---- call graph analysis
    def analyse(self):
        D = self.decls
        graph = {n: [] for n in D}
        for n, d in D.items():
            for c in calls_in(d.node):
                if c.func.id in D and c.func.id not in graph[n]:
                    graph[n].append(c.func.id)
        # strongly connected components (Tarjan)
        index, low, stack, on, sccs, counter = {}, {}, [], set(), [], [0]

        def strong(v):
            index[v] = low[v] = counter[0]
            counter[0] += 1
            stack.append(v)
            on.add(v)
            for w in graph[v]:
                if w not in index:
                    strong(w)
                    low[v] = min(low[v], low[w])
                elif w in on:
                    low[v] = min(low[v], index[w])
            if low[v] == index[v]:
                comp = []
                while True:
                    w = stack.pop()
                    on.discard(w)
                    comp.append(w)
                    if w == v:
                        break
                sccs.append(comp)
        for n in self.order:
            if n not in index:
                strong(n)
        self.sccs = sccs          # reverse topological: callees first
        for comp in sccs:
            cyc = len(comp) > 1 or comp[0] in graph[comp[0]]
            comp.sort(key=self.order.index)
            for n in comp:
                D[n].scc = comp if cyc else None
                D[n].fuel = cyc
        changed = True
        while changed:
            changed = False
            for n, d in D.items():
                if not d.fuel and any(D[c].fuel for c in graph[n]):
                    d.fuel = changed = True
        # mutated parameters (fixpoint)
        mut = {n: set() for n in D}
        changed = True
        while changed:
            changed = False
            for n, d in D.items():
                ptypes = dict(d.params)
                new = set(self.direct_mutations(d, mut))
                new = {p for p in new if p in ptypes and is_mutable(ptypes[p])}
                if not new <= mut[n]:
                    mut[n] |= new
                    changed = True
        for n, d in D.items():
            d.mutated = [p for p, _ in d.params if p in mut[n]]

    def direct_mutations(self, d, mut):
        ptypes = dict(d.params)
        for n in ast.walk(d.node):
            if isinstance(n, ast.Call):
                f = n.func
                if isinstance(f, ast.Attribute) and isinstance(f.value, ast.Name) and f.value.id in ptypes:
                    t = ptypes[f.value.id]
                    if f.attr in METHODS.get(t, {}) and METHODS[t][f.attr][2]:
                        yield f.value.id
                    if t == BITS and f.attr in ('extend', 'append'):
                        yield f.value.id
                    if isinstance(t, tuple) and t[0] == 'List' and f.attr == 'append':
                        yield f.value.id
                if isinstance(f, ast.Name):
                    pos = None
                    if f.id in self.decls:
                        callee = self.decls[f.id]
                        pos = [i for i, (p, _) in enumerate(callee.params) if p in mut[f.id]]
                    elif f.id in ptypes and isinstance(ptypes[f.id], FN):
                        pos = ptypes[f.id].mutates
                    for i in pos or []:
                        if i < len(n.args) and isinstance(n.args[i], ast.Name):
                            yield n.args[i].id
            if isinstance(n, (ast.Assign, ast.AugAssign)):
                for t in (n.targets if isinstance(n, ast.Assign) else [n.target]):
                    if isinstance(t, ast.Subscript) and isinstance(t.value, ast.Name):
                        yield t.value.id

    # ---- emission
    def translate(self):
        """-> [(section name, lean text)] in dependency order"""
        out = []
        done = set()
        for comp in self.sccs:
            key = comp[0]
            if key in done:
                continue
            done.update(comp)
            texts = []
            aux = []
            for n in comp:
                tr = Tr(self, self.decls[n])
                texts.append(tr.definition())
                aux += tr.aux
            body = '\n'.join(texts)
            if self.decls[key].scc:
                body = 'mutual\n' + body + 'end\n'
            out.append(('_'.join(comp) if len(comp) > 1 else key, ''.join(a + '\n' for a in aux) + body))
        return out


class Tr:
    def __init__(self, prog, decl):
        self.prog, self.d = prog, decl
        self.aux = []
        self.counter = 0
        self.frozen = set()
        self.loops = []           # stack of (W, has_break)
        self.nwhile = 0

    # ---------------------------------------------------------------- helpers
    def tmp(self, hint='t'):
        self.counter += 1
        return f'{hint}{self.counter}'

    def fail(self, node, msg):
        raise Untranslatable(f'{self.d.name}: {msg}' + (f' (line {node.lineno}: {ast.unparse(node)[:70]})' if hasattr(node, 'lineno') else ''))

    def ret_tuple(self, env):
        return [lname(p) for p in self.d.mutated]

    def result_type(self):
        parts = ([lean_ty(self.d.ret)] if self.d.ret != NONE else []) + [lean_ty(self.d.ptype(p)) for p in self.d.mutated]
        parts = [f'({p})' if ' × ' in p and len(parts) > 1 else p for p in parts]
        return ' × '.join(parts) if parts else 'Unit'

    def fn_end(self, env):
        if self.d.ret == NONE:
            return [f'pure {tup(self.ret_tuple(env))}']
        if isinstance(self.d.ret, tuple) and self.d.ret[0] == 'Opt':
            return [f'pure {tup(["none"] + self.ret_tuple(env))}']
        raise Untranslatable(f'{self.d.name}: the function may fall off its end but returns a value elsewhere')

    # ---------------------------------------------------------------- definition
    def definition(self):
        d = self.d
        env = {p: t for p, t in d.params}
        tv = []
        for _, t in d.params:
            tvars(t, tv)
        tvars(d.ret, tv)
        for t in d.locals.values():
            tvars(t, tv)
        head = f'def {d.name}'
        if tv:
            head += ' {' + ' '.join(tv) + ' : Type}'
        cbs = [(p, t) for p, t in d.params if isinstance(t, FN)]
        plain = [(p, t) for p, t in d.params if not isinstance(t, FN)]
        for p, t in cbs:
            head += f' ({lname(p)} : {lean_ty(t)})'
        body = self.block(list(d.node.body), env, self.fn_end)
        R = self.result_type()
        doc = f'/-- `{d.name}({", ".join(p for p, _ in d.params)})`'
        if d.mutated:
            doc += f'; returns {"the result and " if d.ret != NONE else ""}the final value of the mutated {", ".join(d.mutated)}'
        doc += ' -/\n'
        if d.scc:
            tys = ' → '.join(['Nat'] + [par_ty(t) for _, t in plain] + [f'Option ({R})'])
            zero = ', '.join(['0'] + ['_'] * len(plain))
            succ = ', '.join(['fuel+1'] + [lname(p) for p, _ in plain])
            return (doc + f'{head} : {tys}\n  | {zero} => none\n  | {succ} => do\n' + '\n'.join(ind(body, '    ')) + '\n')
        if d.fuel:
            head += ' (fuel : Nat)'
        for p, t in plain:
            head += f' ({lname(p)} : {lean_ty(t)})'
        return doc + f'{head} : Option ({R}) := do\n' + '\n'.join(ind(body)) + '\n'

    # ---------------------------------------------------------------- expressions:  -> (term, type); effects are appended to self.pre
    def expr(self, e, env, want=None):
        if isinstance(e, ast.Constant):
            v = e.value
            if isinstance(v, bool):
                return ('true' if v else 'false'), BOOL
            if isinstance(v, int):
                if v < 0:
                    return f'({v} : Int)', INT
                if want in (BOOL, BIT, CHR) and v in (0, 1):
                    return ('true' if v else 'false'), BOOL
                return str(v), NAT
            if isinstance(v, str):
                if want == CHR and v in ('0', '1'):
                    return ('true' if v == '1' else 'false'), CHR
                if want == KIND or (v and not set(v) <= {'0', '1'}):
                    return '"' + v.replace('\\', '\\\\').replace('"', '\\"') + '"', KIND
                return '[' + ', '.join('true' if c == '1' else 'false' for c in v) + ']', STR
            if v is None:
                return '()', NONE
            self.fail(e, 'constant')
        if isinstance(e, ast.Name):
            if e.id not in env:
                key = e.id
                if key in self.prog.consts:
                    return self.prog.consts[key]
                self.fail(e, f'unknown name {e.id}')
            return lname(e.id), env[e.id]
        if isinstance(e, ast.Attribute):
            key = ast.unparse(e)
            if key in self.prog.consts:
                return self.prog.consts[key]
            r, t = self.expr(e.value, env)
            if t == SLICE and e.attr in SLICE_ATTRS:
                a, ty = SLICE_ATTRS[e.attr]
                return f'({r}).{a}', ty
            self.fail(e, 'attribute')
        if isinstance(e, ast.Tuple):
            wants = list(want[1:]) if isinstance(want, tuple) and want[0] == 'Tup' and len(want) - 1 == len(e.elts) else [None] * len(e.elts)
            parts = [self.expr(x, env, want=w) for x, w in zip(e.elts, wants)]
            return tup(p[0] for p in parts), TUP(*[p[1] for p in parts])
        if isinstance(e, ast.BinOp):
            return self.binop(e, env)
        if isinstance(e, (ast.Compare, ast.BoolOp)) or (isinstance(e, ast.UnaryOp) and isinstance(e.op, ast.Not)):
            return f'decide {self.cond(e, env)}', BOOL
        if isinstance(e, ast.UnaryOp) and isinstance(e.op, ast.USub):
            a, t = self.expr(e.operand, env)
            return f'(-{self.to_int(a, t)})', INT
        if isinstance(e, ast.Subscript):
            return self.subscript(e, env)
        if isinstance(e, ast.Call):
            return self.call(e, env)
        if isinstance(e, ast.Dict) and not e.keys:
            return '[]', want or DICT(None, None)
        if isinstance(e, ast.List) and not e.elts:
            return '[]', want or LIST(None)
        if isinstance(e, ast.List):                      # [a, b, …] of one element type
            parts = [self.expr(x, env) for x in e.elts]
            if any(p[1] != parts[0][1] for p in parts) or is_mutable(parts[0][1]):
                self.fail(e, 'list literal of mixed or mutable elements')
            return '[' + ', '.join(p[0] for p in parts) + ']', LIST(parts[0][1])
        if isinstance(e, ast.Dict):
            return self.tree_literal(e, env)
        if isinstance(e, ast.DictComp):
            return self.dictcomp(e, env)
        self.fail(e, f'expression {type(e).__name__}')

    def to_int(self, a, t):
        if t == INT:
            return a
        if t == NAT:
            return f'({a} : Int)'
        raise Untranslatable(f'{self.d.name}: a number is required, got {t}: {a}')

    def binop(self, e, env):
        a, ta = self.expr(e.left, env)
        b, tb = self.expr(e.right, env)
        if isinstance(e.op, ast.Add):
            if ta in (STR, BITS) and tb == ta:
                return f'({a} ++ {b})', ta
            if ta == NAT and tb == NAT:
                return f'({a} + {b})', NAT
            if {ta, tb} <= {NAT, INT}:
                return f'({self.to_int(a, ta)} + {self.to_int(b, tb)})', INT
        if isinstance(e.op, ast.Sub) and {ta, tb} <= {NAT, INT}:
            return f'({self.to_int(a, ta)} - {self.to_int(b, tb)})', INT
        if isinstance(e.op, ast.Mult):
            if ta == NAT and tb == NAT:
                return f'({a} * {b})', NAT
            if {ta, tb} <= {NAT, INT}:
                return f'({self.to_int(a, ta)} * {self.to_int(b, tb)})', INT
        self.fail(e, f'binary operator on {ta}, {tb}')

    CMP = {ast.Lt: '<', ast.LtE: '≤', ast.Gt: '>', ast.GtE: '≥', ast.Eq: '=', ast.NotEq: '≠'}

    def cond(self, e, env):
        """a Python expression used as a condition -> a decidable Lean proposition (text, parenthesised)"""
        if isinstance(e, ast.BoolOp):
            n0 = len(self.pre)
            parts = []
            for i, v in enumerate(e.values):
                parts.append(self.cond(v, env))
                if i > 0 and len(self.pre) != n0:
                    self.fail(e, 'a call with effects inside and/or is evaluated conditionally')
                n0 = len(self.pre)
            return '(' + (' ∨ ' if isinstance(e.op, ast.Or) else ' ∧ ').join(parts) + ')'
        if isinstance(e, ast.UnaryOp) and isinstance(e.op, ast.Not):
            return f'(¬ {self.cond(e.operand, env)})'
        if isinstance(e, ast.Compare):
            if len(e.ops) != 1 or type(e.ops[0]) not in self.CMP:
                self.fail(e, 'comparison')
            op = self.CMP[type(e.ops[0])]
            l, r = e.left, e.comparators[0]
            # constants take the type of the other side
            if isinstance(l, ast.Constant) and not isinstance(r, ast.Constant):
                b, tb = self.expr(r, env)
                a, ta = self.expr(l, env, want=tb)
                # keep evaluation order irrelevant: a constant has no effects
            else:
                a, ta = self.expr(l, env)
                b, tb = self.expr(r, env, want=ta)
            if {ta, tb} <= {NAT, INT}:
                if ta != tb:
                    a, b = self.to_int(a, ta), self.to_int(b, tb)
                return f'({a} {op} {b})'
            same = [{STR, BITS}, {KIND}, {BOOL, BIT, CHR}]
            if op in ('=', '≠') and any({ta, tb} <= s for s in same):
                return f'({a} {op} {b})'
            self.fail(e, f'comparison of {ta} and {tb}')
        a, t = self.expr(e, env)
        return self.truthy(a, t, e)

    def truthy(self, a, t, node):
        if t in (BOOL, BIT):
            return f'({a} = true)'
        if t == NAT:
            return f'({a} ≠ 0)'
        if t == INT:
            return f'({a} ≠ 0)'
        if t in (STR, BITS) or (isinstance(t, tuple) and t[0] in ('Dict', 'List')):
            return f'(({a}).isEmpty = false)'
        self.fail(node, f'truth value of {t}')

    def hoist(self, term, hint='t', pattern=None):
        """bind the result of a raising term: `let x ← term`"""
        x = pattern or self.tmp(hint)
        self.pre.append(f'let {x} ← {term}')
        return x

    def nat_index(self, node, env):
        a, t = self.expr(node, env)
        if t != NAT:
            self.fail(node, f'index of type {t}')
        return a

    def subscript(self, e, env):
        s = e.slice
        # bin(key)[2:]
        if (isinstance(e.value, ast.Call) and isinstance(e.value.func, ast.Name) and e.value.func.id == 'bin' and isinstance(s, ast.Slice)
                and isinstance(s.lower, ast.Constant) and s.lower.value == 2 and s.upper is None and s.step is None):
            a, t = self.expr(e.value.args[0], env)
            if t != NAT:
                self.fail(e, 'bin() of a possibly negative number')
            return f'(Py.binDigits {a})', STR
        v, t = self.expr(e.value, env)
        if t == TREE:
            if not (isinstance(s, ast.Constant) and s.value in ('type', 'value', 'left', 'right', 'label', 'node')):
                self.fail(e, 'key of a tree dict')
            ty = {'type': KIND, 'value': TV('V'), 'left': TREE, 'right': TREE, 'label': STR, 'node': TREE}[s.value]
            return self.hoist(f'({v}).{s.value}?', s.value[0]), ty
        if isinstance(t, tuple) and t[0] == 'Dict':
            k, tk = self.expr(s, env)
            return self.hoist(f'Py.dget? {k} {v}', 'v'), t[2]
        if t in (STR, BITS) or (isinstance(t, tuple) and t[0] == 'List'):
            elt = CHR if t == STR else BIT if t == BITS else t[1]
            if isinstance(s, ast.Slice):
                if s.step is not None:
                    self.fail(e, 'slice step')
                r = v
                if s.upper is not None:
                    r = f'(({r}).take {self.nat_index(s.upper, env)})'
                    if s.lower is not None:
                        self.fail(e, 'two-sided slice')
                if s.lower is not None:
                    r = f'(({r}).drop {self.nat_index(s.lower, env)})'
                return r, t
            if isinstance(s, ast.UnaryOp) and isinstance(s.op, ast.USub) and isinstance(s.operand, ast.Constant) and s.operand.value == 1:
                return self.hoist(f'({v}).getLast?', 'x'), elt
            return self.hoist(f'({v})[{self.nat_index(s, env)}]?', 'x'), elt
        self.fail(e, f'subscript of {t}')

    def tree_literal(self, e, env):
        keys = [k.value if isinstance(k, ast.Constant) else None for k in e.keys]
        vals = dict(zip(keys, e.values))
        if set(keys) == {'type', 'value'} and isinstance(vals['type'], ast.Constant) and vals['type'].value == 'leaf':
            order = [k for k in keys if k != 'type']
            a, _ = self.expr(vals['value'], env)
            return f'(Py.Tree.leaf {a})', TREE
        if set(keys) == {'type', 'left', 'right'} and isinstance(vals['type'], ast.Constant) and vals['type'].value == 'fork':
            terms = {}
            for k in keys:                       # evaluation order of the source
                if k != 'type':
                    terms[k], t = self.expr(vals[k], env)
                    if t != TREE:
                        self.fail(e, 'fork child')
            return f'(Py.Tree.fork {terms["left"]} {terms["right"]})', TREE
        if set(keys) == {'label', 'node'}:
            terms = {}
            for k in keys:
                terms[k], t = self.expr(vals[k], env)
                if t != (STR if k == 'label' else TREE):
                    self.fail(e, f'type of {k}')
            return f'(Py.Tree.edge {terms["label"]} {terms["node"]})', TREE
        self.fail(e, 'dict literal (only the leaf / fork / edge dicts)')

    def dictcomp(self, e, env):
        # {int(i, 2): j for i, j in X.items()}
        g = e.generators[0] if len(e.generators) == 1 else None
        ok = (g and not g.ifs and isinstance(g.target, ast.Tuple) and len(g.target.elts) == 2 and all(isinstance(x, ast.Name) for x in g.target.elts)
              and isinstance(g.iter, ast.Call) and isinstance(g.iter.func, ast.Attribute) and g.iter.func.attr == 'items' and not g.iter.args)
        if ok:
            i, j = g.target.elts[0].id, g.target.elts[1].id
            ok = (ast.unparse(e.key) == f'int({i}, 2)' and ast.unparse(e.value) == j)
        if not ok:
            self.fail(e, 'dict comprehension (only {int(i, 2): j for i, j in d.items()})')
        d, t = self.expr(g.iter.func.value, env)
        if not (isinstance(t, tuple) and t[0] == 'Dict' and t[1] == STR):
            self.fail(e, 'int(i, 2) of non-string keys')
        return self.hoist(f'Py.intKeys? {d}', 'd'), DICT(NAT, t[2])

    def fresh(self, node):
        """does the expression denote a new object (no other name refers to it)?"""
        return isinstance(node, (ast.Call, ast.Dict, ast.List, ast.Constant, ast.DictComp, ast.BinOp))

    def call(self, e, env):
        f = e.func
        if e.keywords:
            self.fail(e, 'keyword arguments')
        if isinstance(f, ast.Name):
            n = f.id
            if n in env and isinstance(env[n], FN):
                return self.user_call(e, env, lname(n), env[n].args, env[n].ret, env[n].mutates, False, [])
            if n in self.prog.decls:
                c = self.prog.decls[n]
                pos = [i for i, (p, _) in enumerate(c.params) if p in c.mutated]
                return self.user_call(e, env, n, [t for _, t in c.params], c.ret, pos, c.fuel, c)
            if n in self.prog.externs:
                targs, ret, tmpl = self.prog.externs[n][:3]
                if len(e.args) != len(targs):
                    self.fail(e, 'arity')
                args = []
                for a, want in zip(e.args, targs):
                    x, t = self.expr(a, env)
                    args.append(self.coerce(x, t, want, a))
                if len(self.prog.externs[n]) > 3:          # a raising extern: `let x ← term`
                    return self.hoist(tmpl.format(*[par(a) for a in args]), 'x'), ret
                return tmpl.format(*args), ret
            if n == 'len' and len(e.args) == 1:
                a, t = self.expr(e.args[0], env)
                if t in (STR, BITS) or (isinstance(t, tuple) and t[0] in ('Dict', 'List')):
                    return f'({a}).length', NAT
            if n == 'sorted' and len(e.args) == 1:
                a, t = self.expr(e.args[0], env)
                if t == LIST(STR):
                    return f'(Py.sortedStrs {a})', LIST(STR)
            if n == 'list' and len(e.args) == 1:
                a = e.args[0]
                if isinstance(a, ast.Call) and isinstance(a.func, ast.Attribute) and a.func.attr in ('keys', 'values') and not a.args:
                    d, t = self.expr(a.func.value, env)
                    if isinstance(t, tuple) and t[0] == 'Dict':
                        return (f'(({d}).map (·.1))', LIST(t[1])) if a.func.attr == 'keys' else (f'(({d}).map (·.2))', LIST(t[2]))
            if n == 'bitarray' and len(e.args) == 1:
                a = e.args[0]
                if isinstance(a, ast.Constant) and a.value == '':
                    return '([] : Bits)', BITS
                # bitarray(str(v) * n)
                if (isinstance(a, ast.BinOp) and isinstance(a.op, ast.Mult) and isinstance(a.left, ast.Call) and isinstance(a.left.func, ast.Name)
                        and a.left.func.id == 'str' and len(a.left.args) == 1):
                    v, tv = self.expr(a.left.args[0], env)
                    k, tk = self.expr(a.right, env)
                    if tv == BIT and tk == NAT:
                        return f'(List.replicate {k} {v})', BITS
            if n == 'Builder' and not e.args and 'Builder' in self.prog.consts:
                return self.prog.consts['Builder']
            self.fail(e, f'call of {n}')
        if isinstance(f, ast.Attribute):
            m = f.attr
            # x.bit_length()
            if m == 'bit_length' and not e.args:
                a, t = self.expr(f.value, env)
                if t == NAT:
                    return f'(Py.bitLength {a})', NAT
                if t == INT:
                    return f'(Py.bitLength ({a}).natAbs)', NAT
            recv = f.value
            a, t = self.expr(recv, env)
            if t in PEEK_METHODS and m in PEEK_METHODS[t] and not e.args:
                ret, tmpl = PEEK_METHODS[t][m]
                return self.hoist(tmpl.format(r=a), 't'), ret
            if t in METHODS and m in METHODS[t]:
                targs, ret, mutates, tmpl = METHODS[t][m]
                if len(e.args) != len(targs):
                    self.fail(e, 'arity')
                args = []
                for x, want in zip(e.args, targs):
                    v, tv = self.expr(x, env, want=want)
                    args.append(par(self.coerce(v, tv, want, x)))
                term = tmpl.format(*args, r=a)
                if mutates:
                    if isinstance(recv, ast.Name):
                        self.check_mutable(recv.id, env, e)
                        rn = lname(recv.id)
                        self.written.add(recv.id)
                    elif self.fresh(recv):
                        rn = '_'
                    else:
                        self.fail(e, 'mutating call on an object that is not a local name')
                    if ret == NONE:
                        self.pre.append(f'let {rn} ← {term}')
                        return '()', NONE
                    x = self.tmp()
                    self.pre.append(f'let ({x}, {rn}) ← {term}')
                    return x, ret
                return term, ret
            if t == CELL and m == 'begin_parse' and not e.args:
                return f'(Py.beginParse {a})', SLICE
            if t == BLD and m == 'end_cell' and not e.args:
                return f'({a}).endCell', CELL
            if t == BITS and m == 'copy' and not e.args:
                return a, BITS
            if t == BITS and m == 'to01' and not e.args:
                return a, STR
            if t == STR and m == 'find' and len(e.args) == 1 and isinstance(e.args[0], ast.Constant) and e.args[0].value in ('0', '1'):
                return f'(Py.findBit {a} {"true" if e.args[0].value == "1" else "false"})', INT
            # mutating methods of bitarray / list (statement level)
            if m in ('extend', 'append') and isinstance(recv, ast.Name) and len(e.args) == 1:
                self.check_mutable(recv.id, env, e)
                x, tx = self.expr(e.args[0], env, want=BOOL if t == BITS and m == 'append' else None)
                rn = lname(recv.id)
                if t == BITS and m == 'extend' and tx in (BITS, STR):
                    new = f'{rn} ++ {x}'
                elif t == BITS and m == 'append' and tx in (BOOL, BIT):
                    new = f'{rn} ++ [{x}]'
                elif isinstance(t, tuple) and t[0] == 'List' and m == 'append':
                    if t[1] is None:
                        env[recv.id] = LIST(tx)
                    elif t[1] != tx:
                        self.fail(e, f'append of {tx} to a list of {t[1]}')
                    self.freeze_value(e.args[0], tx)
                    new = f'{rn} ++ [{x}]'
                else:
                    self.fail(e, f'{m} on {t} with {tx}')
                self.pre.append(f'let {rn} := {new}')
                self.written.add(recv.id)
                return '()', NONE
            self.fail(e, f'method {m} of {t}')
        self.fail(e, 'call')

    def coerce(self, x, t, want, node):
        if t == want or want is None:
            return x
        if want == BOOL and t in (BIT, CHR, BOOL):
            return x
        if want == NAT and t == NAT:
            return x
        if want == INT and t == NAT:
            return f'({x} : Int)'
        if want in (STR, BITS) and t in (STR, BITS):
            return x
        if isinstance(want, tuple) and isinstance(t, tuple) and want[0] == t[0] and (None in t):
            return x
        self.fail(node, f'argument of type {t} where {want} is expected')

    def check_mutable(self, name, env, node):
        if name in self.frozen:
            self.fail(node, f'{name} is mutated after it was stored in a container (aliasing)')

    def freeze_value(self, node, t):
        if is_mutable(t) and isinstance(node, ast.Name):
            self.frozen.add(node.id)

    def user_call(self, e, env, lean_name, targs, ret, mut_pos, fuel, callee):
        if len(e.args) != len(targs):
            self.fail(e, 'arity')
        cb_args, args, back = [], [], []
        seen = set()
        for i, (a, want) in enumerate(zip(e.args, targs)):
            if isinstance(want, FN):
                if not (isinstance(a, ast.Name) and a.id in env and isinstance(env[a.id], FN)):
                    self.fail(e, 'a callback argument must be a callback parameter')
                cb_args.append(lname(a.id))
                continue
            x, t = self.expr(a, env, want=want)
            x = self.coerce(x, t, want, a)
            args.append(par(x))
            if i in mut_pos:
                if isinstance(a, ast.Name):
                    self.check_mutable(a.id, env, e)
                    if a.id in seen:
                        self.fail(e, f'{a.id} is passed twice to a call that mutates it')
                    seen.add(a.id)
                    back.append(lname(a.id))
                    self.written.add(a.id)
                    if a.id in dict(self.d.params) and a.id not in self.d.mutated:
                        self.fail(e, f'internal: parameter {a.id} is mutated but not recorded')
                elif self.fresh(a):
                    back.append('_')
                else:
                    self.fail(e, 'an argument that the callee mutates must be a local name or a fresh value')
        if callee and callee.scc and callee.scc is self.d.scc:
            fuel_arg = ['fuel']
        elif fuel:
            fuel_arg = ['fuel']
        else:
            fuel_arg = []
        term = ' '.join([lean_name] + cb_args + fuel_arg + args)
        if ret == NONE:
            self.pre.append(f'let {tup(back)} ← {term}')
            return '()', NONE
        x = self.tmp('r')
        self.pre.append(f'let {tup([x] + back)} ← {term}')
        return x, ret

    # ---------------------------------------------------------------- statements
    def with_pre(self, f):
        """run f collecting hoisted effect lines -> (lines, result of f)"""
        saved = getattr(self, 'pre', None)
        self.pre = []
        try:
            r = f()
            return self.pre, r
        finally:
            self.pre = saved

    def block(self, stmts, env, tail):
        """-> lines of a `do` block that executes stmts and ends with tail(env)"""
        self.written = getattr(self, 'written', set())
        if not stmts:
            return tail(env)
        s, rest = stmts[0], stmts[1:]
        if isinstance(s, ast.Expr) and isinstance(s.value, ast.Constant):
            return self.block(rest, env, tail)
        if isinstance(s, ast.Pass):
            return self.block(rest, env, tail)
        if isinstance(s, ast.Return):
            if s.value is None or (isinstance(s.value, ast.Constant) and s.value.value is None):
                return self.fn_end(env)
            if self.d.returns_param and isinstance(s.value, ast.Name) and s.value.id == self.d.returns_param and self.d.ret == NONE:
                return self.fn_end(env)
            want = self.d.ret[1] if isinstance(self.d.ret, tuple) and self.d.ret[0] == 'Opt' else self.d.ret
            pre, (v, t) = self.with_pre(lambda: self.expr(s.value, env, want=want))
            if isinstance(self.d.ret, tuple) and self.d.ret[0] == 'Opt' and t == self.d.ret:
                return pre + [f'pure {tup([v] + self.ret_tuple(env))}']          # `return f(..)` of a callee that itself returns Optional
            if isinstance(self.d.ret, tuple) and self.d.ret[0] == 'Opt':
                v = f'(some {v})'
            self.check_type(t, want, s)
            return pre + [f'pure {tup([v] + self.ret_tuple(env))}']
        if isinstance(s, ast.Raise):
            return ['none']
        if isinstance(s, ast.Break):
            if not self.loops or not self.loops[-1][1]:
                self.fail(s, 'break outside a for loop')
            return [f'pure ({tup(self.loops[-1][0])}, true)']
        if isinstance(s, ast.Assert):
            test = ast.UnaryOp(op=ast.Not(), operand=s.test)
            return self.if_(ast.If(test=test, body=[ast.Raise(exc=None, cause=None)], orelse=[]), rest, env, tail)
        if isinstance(s, ast.If):
            return self.if_(s, rest, env, tail)
        if isinstance(s, ast.While):
            return self.while_(s, rest, env, tail)
        if isinstance(s, ast.For):
            return self.for_(s, rest, env, tail)
        if isinstance(s, ast.Assign) and len(s.targets) == 1:
            tgt = s.targets[0]
            # x = A if c else B  ==  if c: x = A else: x = B
            if isinstance(s.value, ast.IfExp):
                new = ast.If(test=s.value.test, body=[ast.Assign(targets=[tgt], value=s.value.body, lineno=s.lineno)],
                             orelse=[ast.Assign(targets=[tgt], value=s.value.orelse, lineno=s.lineno)])
                return self.if_(new, rest, env, tail)
            if isinstance(tgt, ast.Name):
                return self.assign(tgt.id, s.value, rest, env, tail, s)
            if isinstance(tgt, ast.Tuple) and all(isinstance(x, ast.Name) for x in tgt.elts):
                if isinstance(s.value, ast.Tuple) and len(s.value.elts) == len(tgt.elts):
                    seq = [ast.Assign(targets=[t], value=v, lineno=s.lineno) for t, v in zip(tgt.elts, s.value.elts)]
                    names = {t.id for t in tgt.elts}
                    if any(isinstance(n, ast.Name) and n.id in names for v in s.value.elts for n in ast.walk(v)):
                        self.fail(s, 'parallel assignment reading its own targets')
                    return self.block(seq + rest, env, tail)
                pre, (v, t) = self.with_pre(lambda: self.expr(s.value, env))
                if not (isinstance(t, tuple) and t[0] == 'Tup' and len(t) - 1 == len(tgt.elts)):
                    self.fail(s, f'unpacking a value of type {t}')
                env = dict(env)
                for x, tx in zip(tgt.elts, t[1:]):
                    self.bind_check(x.id, tx, s)
                    env[x.id] = tx
                    self.written.add(x.id)
                return pre + [f'let {tup(lname(x.id) for x in tgt.elts)} := {v}'] + self.block(rest, env, tail)
            if isinstance(tgt, ast.Subscript) and isinstance(tgt.value, ast.Name):
                d = tgt.value.id
                if d not in env or not (isinstance(env[d], tuple) and env[d][0] == 'Dict'):
                    self.fail(s, 'subscript assignment to a non-dict')

                def go():                       # Python evaluates the right-hand side first
                    v, tv = self.expr(s.value, env)
                    k, tk = self.expr(tgt.slice, env)
                    return k, tk, v, tv
                pre, (k, tk, v, tv) = self.with_pre(go)
                td = env[d]
                if td[1] is None:
                    env = dict(env)
                    env[d] = td = DICT(tk, tv)
                if (td[1], td[2]) != (tk, tv):
                    self.fail(s, f'dict of {td[1]} -> {td[2]} assigned {tk} -> {tv}')
                self.check_mutable(d, env, s)
                self.freeze_value(s.value, tv)
                self.written.add(d)
                return pre + [f'let {lname(d)} := Py.dset {par(k)} {par(v)} {lname(d)}'] + self.block(rest, env, tail)
            self.fail(s, 'assignment target')
        if isinstance(s, ast.AugAssign) and isinstance(s.target, ast.Name):
            new = ast.Assign(targets=[s.target], value=ast.BinOp(left=ast.Name(id=s.target.id, ctx=ast.Load()), op=s.op, right=s.value), lineno=s.lineno)
            return self.block([new] + rest, env, tail)
        if isinstance(s, ast.Expr) and isinstance(s.value, ast.Call):
            pre, (v, t) = self.with_pre(lambda: self.expr(s.value, env))
            if not pre:
                self.fail(s, 'expression statement without effect')
            return pre + self.block(rest, env, tail)
        self.fail(s, f'statement {type(s).__name__}')

    def check_type(self, t, want, node):
        if t == want:
            return
        if {t, want} <= {STR, BITS}:
            return
        if isinstance(t, tuple) and isinstance(want, tuple) and len(t) == len(want) and t[0] == want[0]:
            for a, b in zip(t[1:], want[1:]):
                if a is not None:
                    self.check_type(a, b, node)
            return
        self.fail(node, f'value of type {t} where {want} is expected')

    def bind_check(self, name, t, node):
        if name in dict(self.d.params):
            pt = self.d.ptype(name)
            if is_mutable(pt) or isinstance(pt, FN):
                self.fail(node, f're-binding the mutable parameter {name}')

    def assign(self, name, value, rest, env, tail, node):
        want = self.d.locals.get(name)
        pre, (v, t) = self.with_pre(lambda: self.expr(value, env, want=want))
        if is_mutable(t) and not self.fresh(value) and not (isinstance(value, ast.Subscript)):
            self.fail(node, f'{name} = <existing mutable object> creates an alias')
        self.bind_check(name, t, node)
        env = dict(env)
        env[name] = t
        self.written.add(name)
        self.frozen.discard(name)
        return pre + [f'let {lname(name)} := {v}'] + self.block(rest, env, tail)

    def probe(self, stmts, env, inner_tail=None):
        """dry run of a block: -> (end environments of the paths that fall through, names written)"""
        ends = []

        def tail(e):
            ends.append(dict(e))
            return ['pure ()']
        saved = (self.counter, set(self.frozen), list(self.aux), self.nwhile, self.written)
        self.written = set()
        try:
            self.block(stmts, dict(env), tail)
            w = self.written
        finally:
            self.counter, self.frozen, self.aux, self.nwhile, self.written = saved
        return ends, w

    def joined(self, env, ends, written):
        """variables to pass through a join: written ones that exist before, or are defined with one type on every path"""
        W = []
        for n in sorted(written):
            if n in env:
                W.append(n)
            elif ends and all(n in e for e in ends) and len({repr(e[n]) for e in ends}) == 1:
                W.append(n)
        return W

    def if_(self, s, rest, env, tail):
        pre, c = self.with_pre(lambda: self.cond(s.test, env))
        body_exit, else_exit = definitely_exits(s.body), definitely_exits(s.orelse)
        has_ret = contains(s.body + s.orelse, (ast.Return, ast.Break))
        if body_exit or else_exit or has_ret:
            fr = set(self.frozen)
            a = self.block(list(s.body) + ([] if body_exit else rest), dict(env), tail)
            fa, self.frozen = self.frozen, set(fr)
            b = self.block(list(s.orelse) + ([] if else_exit else rest), dict(env), tail)
            self.frozen |= fa
            return pre + [f'if {c} then do'] + ind(a) + ['else do'] + ind(b)
        ends1, w1 = self.probe(s.body, env)
        ends2, w2 = self.probe(s.orelse, env)
        W = self.joined(env, ends1 + ends2, w1 | w2)
        env2 = dict(env)
        for n in W:
            ts = {repr(e[n]): e[n] for e in ends1 + ends2 if n in e}
            if len(ts) != 1:
                self.fail(s, f'{n} has different types at the end of the branches')
            env2[n] = list(ts.values())[0]
        for e in ends1 + ends2:                     # a dict / list whose element type became known in a branch
            for n, t in e.items():
                if n in env2 and n not in W and env2[n] != t:
                    env2[n] = t
        j = [f'pure {tup(lname(n) for n in W)}']
        fr = set(self.frozen)
        a = self.block(list(s.body), dict(env), lambda e: j)
        fa, self.frozen = self.frozen, set(fr)
        b = self.block(list(s.orelse), dict(env), lambda e: j)
        self.frozen |= fa
        self.written |= set(W)
        lines = pre + [f'let {tup(lname(n) for n in W)} ← (', f'  if {c} then do'] + ind(a, '    ') + ['  else do'] + ind(b, '    ')
        lines[-1] += ')'
        return lines + self.block(rest, env2, tail)

    def free_reads(self, nodes, env, W):
        names = []
        for node in nodes:
            for n in ast.walk(node):
                if isinstance(n, ast.Name) and n.id in env and n.id not in W and n.id not in names:
                    names.append(n.id)
        return sorted(names)

    def calls_fuel(self, nodes):
        for node in nodes:
            for c in calls_in(node):
                if c.func.id in self.prog.decls and self.prog.decls[c.func.id].fuel:
                    return True
        return False

    def while_(self, s, rest, env, tail):
        if s.orelse or contains(s.body, (ast.Return, ast.Break, ast.Continue)):
            self.fail(s, 'while loop with else / return / break / continue')
        if self.nwhile >= len(self.d.variants):
            self.fail(s, 'no variant declared for this while loop')
        variant = self.d.variants[self.nwhile]
        self.nwhile += 1
        k = self.nwhile
        ends, w = self.probe(s.body, env)
        W = [n for n in sorted(w) if n in env]
        for e in ends:
            for n in W:
                if e[n] != env[n]:
                    self.fail(s, f'{n} changes its type in the loop')
        pre, c = self.with_pre(lambda: self.cond(s.test, env))
        if pre:
            self.fail(s, 'loop condition with effects')
        ro = self.free_reads([s.test] + s.body, env, W)
        st = tup(lname(n) for n in W)
        name = f'{self.d.name}_while{k}'
        body = self.block(list(s.body), dict(env), lambda e: [f'{" ".join([name] + self.loop_args(ro, s.body))} lf {st}'])
        tv = []
        for n in ro + W:
            tvars(env[n], tv)
        head = f'def {name}' + (' {' + ' '.join(tv) + ' : Type}' if tv else '')
        if self.calls_fuel(s.body):
            head += ' (fuel : Nat)'
        for n in ro:
            head += f' ({lname(n)} : {lean_ty(env[n])})'
        T = ' × '.join(par_ty(env[n]) for n in W) or 'Unit'
        text = (f'/-- the `while {ast.unparse(s.test)}` loop of `{self.d.name}`: loop fuel, loop-carried variables {st} -/\n'
                f'{head} : Nat → {T} → Option ({T})\n'
                f'  | 0, {st} => if {c} then none else some {st}\n'
                f'  | lf+1, {st} => if {c} then do\n' + '\n'.join(ind(body, '      ')) + f'\n    else some {st}\n')
        self.aux.append(text)
        self.written |= set(W)
        call = ' '.join([name] + self.loop_args(ro, s.body))
        return [f'let {st} ← {call} ({variant}) {st}'] + self.block(rest, env, tail)

    def loop_args(self, ro, body):
        return (['fuel'] if self.calls_fuel(body) else []) + [lname(n) for n in ro]

    def for_(self, s, rest, env, tail):
        if s.orelse or contains(s.body, (ast.Return, ast.Continue)):
            self.fail(s, 'for loop with else / return / continue')
        has_break = contains(s.body, (ast.Break,))
        # the iterable
        it = s.iter
        pre, (xs, tx) = self.with_pre(lambda: self.iterable(it, env))
        env_b = dict(env)
        if isinstance(s.target, ast.Name):
            pat = lname(s.target.id) if s.target.id != '_' else '_'
            if s.target.id != '_':
                env_b[s.target.id] = tx
        elif isinstance(s.target, ast.Tuple) and isinstance(tx, tuple) and tx[0] == 'Tup' and len(tx) - 1 == len(s.target.elts):
            pat = tup(lname(x.id) for x in s.target.elts)
            for x, t in zip(s.target.elts, tx[1:]):
                env_b[x.id] = t
        else:
            self.fail(s, 'loop target')
        targets = {n.id for n in ast.walk(s.target) if isinstance(n, ast.Name)}
        ends, w = self.probe(s.body, env_b) if not has_break else self.probe_loop(s.body, env_b)
        W = [n for n in sorted(w) if n in env and n not in targets]
        env2 = dict(env)
        for e in ends:
            for n in W:
                if e[n] != env2[n]:
                    if isinstance(env2[n], tuple) and None in env2[n]:
                        env2[n] = e[n]
                    else:
                        self.fail(s, f'{n} changes its type in the loop')
        for n in W:
            env_b[n] = env2[n]
        st = tup(lname(n) for n in W)
        self.loops.append((list(lname(n) for n in W), has_break))
        try:
            body = self.block(list(s.body), env_b, lambda e: [f'pure ({st}, false)' if has_break else f'pure {st}'])
        finally:
            self.loops.pop()
        self.written |= set(W)
        if has_break:
            lines = pre + [f'let {st} ← Py.loop? {xs} {st} (fun {pat} {st} => do'] + ind(body, '    ')
        else:
            lines = pre + [f'let {st} ← List.foldlM (fun {st} {pat} => do'] + ind(body, '    ')
        lines[-1] += ')' if has_break else f') {st} {xs}'
        return lines + self.block(rest, env2, tail)

    def probe_loop(self, body, env):
        self.loops.append(([], True))
        try:
            return self.probe(body, env)
        finally:
            self.loops.pop()

    def iterable(self, it, env):
        if isinstance(it, ast.Call) and isinstance(it.func, ast.Name) and it.func.id == 'enumerate' and len(it.args) == 1:
            xs, t = self.iterable(it.args[0], env)
            return f'(Py.enumerate {xs})', TUP(NAT, t)
        a, t = self.expr(it, env)
        if t == STR:
            return a, CHR
        if t == BITS:
            return a, BIT
        if isinstance(t, tuple) and t[0] == 'List':
            return a, t[1]
        if isinstance(t, tuple) and t[0] == 'Dict':
            return f'(({a}).map (·.1))', t[1]
        self.fail(it, f'iteration over {t}')


def par(x):
    return x if x.startswith('(') or x.startswith('[') or x.replace('_', 'a').isalnum() else f'({x})'
