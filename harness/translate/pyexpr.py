"""Tiny Python -> Lean translator for straight-line integer code.

Supported subset (anything else raises Untranslatable):
  statements : NAME = expr | NAME op= expr | for NAME in NAME: <assignments>
               | return expr | return (expr).to_bytes(INT, 'big'|'little'|NAME)
               | docstrings / comments
  expressions: int literals, names, + - * // % << >> ^ & | (binary), table[expr]
               where table is a NAME bound to a list literal of ints

Python ints are unbounded; the emitted Lean works over Nat, so the subset has no
subtraction that can go negative (``-`` is rejected) and no unary minus.
A ``for`` loop becomes ``List.foldl`` over the tuple of variables assigned in
its body.  List literals become ``Array Nat`` constants; ``t[i]`` becomes
``t.getD i 0`` (the theorems prove the index is in range, so the default is
never used on inputs the Python code accepts).
"""
import ast


class Untranslatable(Exception):
    pass


BINOPS = {
    ast.Add: '+', ast.Mult: '*', ast.FloorDiv: '/', ast.Mod: '%',
    ast.LShift: '<<<', ast.RShift: '>>>', ast.BitXor: '^^^', ast.BitAnd: '&&&', ast.BitOr: '|||',
}


def expr(e, tables, rename):
    if isinstance(e, ast.Constant) and isinstance(e.value, int) and not isinstance(e.value, bool):
        if e.value < 0:
            raise Untranslatable('negative literal')
        return str(e.value)
    if isinstance(e, ast.Name):
        return rename.get(e.id, e.id)
    if isinstance(e, ast.BinOp):
        op = BINOPS.get(type(e.op))
        if op is None:
            raise Untranslatable(f'operator {type(e.op).__name__}')
        return f'({expr(e.left, tables, rename)} {op} {expr(e.right, tables, rename)})'
    if isinstance(e, ast.Subscript) and isinstance(e.value, ast.Name) and e.value.id in tables:
        return f'({tables[e.value.id]}.getD {expr(e.slice, tables, rename)} 0)'
    raise Untranslatable(f'expression {ast.dump(e)[:80]}')


def assigned(stmts):
    out = []
    for s in stmts:
        if isinstance(s, ast.Assign) and len(s.targets) == 1 and isinstance(s.targets[0], ast.Name):
            n = s.targets[0].id
        elif isinstance(s, ast.AugAssign) and isinstance(s.target, ast.Name):
            n = s.target.id
        else:
            raise Untranslatable(f'loop body statement {type(s).__name__}')
        if n not in out:
            out.append(n)
    return out


def stmt_lets(stmts, tables, rename, indent):
    lines = []
    for s in stmts:
        if isinstance(s, ast.Assign):
            n = s.targets[0].id
            lines.append(f'{indent}let {n} := {expr(s.value, tables, rename)}')
        elif isinstance(s, ast.AugAssign):
            op = BINOPS.get(type(s.op))
            if op is None:
                raise Untranslatable('augassign op')
            n = s.target.id
            lines.append(f'{indent}let {n} := ({n} {op} {expr(s.value, tables, rename)})')
        else:
            raise Untranslatable(f'statement {type(s).__name__}')
    return lines


def translate_function(fn: ast.FunctionDef, lean_name: str):
    """Returns dict(tables={name: [ints]}, lean=str, ret_width=int, ret_order=str|None(param))."""
    args = [a.arg for a in fn.args.args]
    if not args:
        raise Untranslatable('no data argument')
    data = args[0]
    tables = {}
    table_vals = {}
    body = []
    ret = None
    for s in fn.body:
        if isinstance(s, ast.Expr) and isinstance(s.value, ast.Constant) and isinstance(s.value.value, str):
            continue
        if (isinstance(s, ast.Assign) and len(s.targets) == 1 and isinstance(s.targets[0], ast.Name)
                and isinstance(s.value, ast.List)):
            vals = []
            for el in s.value.elts:
                if not (isinstance(el, ast.Constant) and isinstance(el.value, int) and el.value >= 0):
                    raise Untranslatable('table element')
                vals.append(el.value)
            tables[s.targets[0].id] = f'{lean_name}_{s.targets[0].id}'
            table_vals[f'{lean_name}_{s.targets[0].id}'] = vals
            continue
        if isinstance(s, ast.Return):
            ret = s
            break
        body.append(s)
    if ret is None:
        raise Untranslatable('no return')
    lines = []
    ind = '  '
    for s in body:
        if isinstance(s, (ast.Assign, ast.AugAssign)):
            lines += stmt_lets([s], tables, {}, ind)
        elif isinstance(s, ast.For):
            if not (isinstance(s.iter, ast.Name) and s.iter.id == data and isinstance(s.target, ast.Name)
                    and not s.orelse):
                raise Untranslatable('for loop shape')
            vs = assigned(s.body)
            if s.target.id in vs:
                raise Untranslatable('loop variable assigned')
            tup = vs[0] if len(vs) == 1 else '(' + ', '.join(vs) + ')'
            lines.append(f'{ind}let {tup} := {data}.foldl (fun {tup} {s.target.id} =>')
            lines += stmt_lets(s.body, tables, {}, ind + '    ')
            lines.append(f'{ind}    {tup}) {tup}')
        else:
            raise Untranslatable(f'statement {type(s).__name__}')
    rv = ret.value
    width = None
    order = None
    if (isinstance(rv, ast.Call) and isinstance(rv.func, ast.Attribute) and rv.func.attr == 'to_bytes'
            and len(rv.args) == 2 and not rv.keywords):
        w, o = rv.args
        if not (isinstance(w, ast.Constant) and isinstance(w.value, int)):
            raise Untranslatable('to_bytes width')
        width = w.value
        if isinstance(o, ast.Constant) and o.value in ('big', 'little'):
            order = o.value
        elif isinstance(o, ast.Name) and o.id in args[1:]:
            order = None
        else:
            raise Untranslatable('to_bytes order')
        val = expr(rv.func.value, tables, {})
    else:
        raise Untranslatable('return shape')
    lines.append(f'{ind}{val}')
    lean = f'def {lean_name} ({data} : List Nat) : Nat :=\n' + '\n'.join(lines) + '\n'
    return dict(tables=table_vals, lean=lean, ret_width=width, ret_order=order)
