"""Regenerates lean/TonVerif/Generated/VmStackSrc.lean from the current source of pytoniq_core/tlb/vm_stack.py: the WHOLE
`serialize` and `deserialize` methods of VmStack, VmStackList, VmStackValue, VmTuple, VmTupleRef, VmCellSlice, VmCont,
VmControlData, VmSaveList, with the TL-B codec translator pytlb.py; validates the translation against the running library and
evaluates regenerated functions vs hand model (search hook).

Theorems about the regenerated definitions: Proofs/SrcVmStack.lean (serialisers = Model.Vm.ser* with the argument returned
unchanged), Proofs/SrcVmStackDe.lean (deserialisers = Model.Vm.De.*), referenced by Properties/C17.lean `c17_src_*`.
"""
import ast
import hashlib
import os
import random
import re
import subprocess

from . import pytlb, pybytes
from .pytlb import (Config, SEM, LIST, UINT, BITS, BUILDER, BUILT, REF, SLICEV, BUILDERV, BODYCELL, NAT, INT, BOOL, BYTES, NONE, OPT)
from .pyexpr import Untranslatable
from .arith import write_if_changed, _lake_build
from ..paths import REPO, LEAN

SRC = 'pytoniq_core/tlb/vm_stack.py'
OUT = 'TonVerif/Generated/VmStackSrc.lean'
NS = 'TonVerif.Generated.VmStackSrc'

# ---- the declared interface (trusted; checked against the source in `program()` where a check exists)
VAL, CONT, CTL = SEM('Val'), SEM('Cont'), SEM('Ctl')
LV = LIST(VAL)
K = CONT
SEMS = {
    # the value domain of the hand model (Spec/Tlb/VmStack.lean): which Python object is which constructor
    'Val': dict(lean='Val R',
                ctors={'null': [], 'int': [('v', INT)], 'cell': [('c', REF)], 'slice': [('s', SLICEV)], 'builder': [('b', BUILDERV)],
                       'cont': [('k', CONT)], 'tuple': [('t', LV)]},
                isinstance={'int': 'int', 'bytes': None, 'Cell': 'cell', 'Slice': 'slice', 'Builder': 'builder', 'VmCont': 'cont', 'VmTuple': 'tuple'},
                none='null',
                into={NONE: 'Val.null', INT: 'Val.int {0}', UINT: 'Val.int {0}', REF: 'Val.cell {0}', SLICEV: 'Val.slice {0}.1 {0}.2',
                      BUILDERV: 'Val.builder {0}.1 {0}.2', CONT: 'Val.cont {0}', LV: 'Val.tuple {0}',
                      OPT(CONT): 'Py.Tlb.valOfOptCont {0}'}),
    'Cont': dict(lean='Cont R',
                 ctors={'std': [('cdata', CTL), ('code', SLICEV)], 'envelope': [('cdata', CTL), ('next', K)], 'quit': [('exit_code', INT)],
                        'quitExc': [], 'repeat_': [('count', INT), ('body', K), ('after', K)], 'until_': [('body', K), ('after', K)],
                        'again': [('body', K)], 'whileCond': [('cond', K), ('body', K), ('after', K)],
                        'whileBody': [('cond', K), ('body', K), ('after', K)], 'pushint': [('value', INT), ('next', K)]},
                 tags={'vmc_std': 'std', 'vmc_envelope': 'envelope', 'vmc_quit': 'quit', 'vmc_quit_exc': 'quitExc', 'vmc_repeat': 'repeat_',
                       'vmc_until': 'until_', 'vmc_again': 'again', 'vmc_while_cond': 'whileCond', 'vmc_while_body': 'whileBody',
                       'vmc_pushint': 'pushint'}),
    'Ctl': dict(lean='Ctl R', ctors={'mk': [('nargs', OPT(INT)), ('stack', OPT(LV)), ('save', OPT(REF)), ('cp', OPT(INT))]},
                tags={'vm_ctl_data': 'mk'}),
}
CLASSES = {
    'VmStack': dict(repr=None), 'VmStackList': dict(repr=None), 'VmStackValue': dict(repr=None), 'VmTupleRef': dict(repr=None),
    'VmCellSlice': dict(repr=None), 'VmSaveList': dict(repr=None),
    'VmTuple': dict(repr=LV),                                   # a wrapper of one Python list (attribute `.list`)
    'VmCont': dict(repr=CONT, tagged=True), 'VmControlData': dict(repr=CTL, tagged=True),
}


def _s(params, ret, mode):
    return dict(params=params, ret=ret, mode=mode)


SIGS = {
    ('VmStack', 'serialize'): _s([('data', LV)], BUILT, 'opt'),
    ('VmStackList', 'serialize'): _s([('data', LV)], BUILT, 'opt'),
    ('VmStackValue', 'serialize'): _s([('value', VAL)], BUILT, 'opt'),
    ('VmTuple', 'serialize'): _s([('values', LV)], BUILT, 'opt'),
    ('VmTupleRef', 'serialize'): _s([('values', LV)], BUILT, 'opt'),
    ('VmCellSlice', 'serialize'): _s([('value', SLICEV)], BUILT, 'opt'),
    ('VmCont', 'serialize'): _s([('value', CONT)], BUILT, 'opt'),
    ('VmControlData', 'serialize'): _s([('value', CTL)], BUILT, 'opt'),
    ('VmSaveList', 'serialize'): _s([('value', OPT(REF))], BUILT, 'opt'),
    ('VmStack', 'deserialize'): _s([], LV, 'sop'),
    ('VmStackList', 'deserialize'): _s([('n_p_1', INT)], LV, 'sop'),
    ('VmStackValue', 'deserialize'): _s([], VAL, 'sop'),
    ('VmTuple', 'deserialize'): _s([('length', INT)], LV, 'sop'),
    ('VmTupleRef', 'deserialize'): _s([('length', INT)], LV, 'sop'),
    ('VmCellSlice', 'deserialize'): _s([], SLICEV, 'sop'),
    ('VmCont', 'deserialize'): _s([], OPT(CONT), 'sop'),
    ('VmControlData', 'deserialize'): _s([], CTL, 'sop'),
    ('VmSaveList', 'deserialize'): _s([], OPT(REF), 'sop'),
}
# the dictionary (HashmapE 4 VmStackValue) is its optional root cell in the hand model: the HashMap codec is C09/C10's subject
OPAQUE = {('VmSaveList', 'deserialize'): {'cell_slice.load_dict(4, value_deserializer=VmStackValue.deserialize)': ('SOp.loadMaybeRef', OPT(REF), True)}}

BUILDER_OPS = {
    'store_uint': [['int'], ['nat']], 'store_int': [['int'], ['nat']], 'store_bytes': [[BYTES]], 'store_bits': [['bits', BITS]],
    'store_bit': [['bit', 'bool']], 'store_bit_int': [['bit', 'bool']], 'store_bool': [['bit', 'bool']], 'store_ref': [[REF, BUILT, BODYCELL]],
    'store_cell': [[BUILT, BODYCELL]], 'store_slice': [[SLICEV]], 'store_coins': [['int']], 'store_address': [['Addr']],
    'store_maybe_ref': [[OPT(REF)]], 'store_dict': [[OPT(REF)]],
}


def _ref_term(a):
    v, t = a[0]
    if t == REF:
        return f'run (BOp.storeRef {v}) {{b}}'
    if t == BUILT:
        return f'run (BOp.storeRef {v}.cell) {{b}}'
    return f'Py.Tlb.storeRefOf mk {v} {{b}}'


def _cell_term(a):
    v, t = a[0]
    if t == BUILT:
        return f'run (BOp.storeCell {v}.bits {v}.refs) {{b}}'
    return f'run (BOp.storeCell {v}.1 {v}.2) {{b}}'


BUILDER_TERMS = {
    'store_uint': lambda a: f'run (BOp.storeUint {a[0][0]} {a[1][0]}) {{b}}',
    'store_int': lambda a: f'run (BOp.storeInt {a[0][0]} {a[1][0]}) {{b}}',
    'store_bytes': lambda a: f'run (BOp.storeBytes {a[0][0]}) {{b}}',
    'store_bits': lambda a: f'run (BOp.storeBits {a[0][0]}) {{b}}',
    'store_bit': lambda a: f'run (BOp.storeBit {a[0][0]}) {{b}}',
    'store_bit_int': lambda a: f'run (BOp.storeBit {a[0][0]}) {{b}}',
    'store_bool': lambda a: f'run (BOp.storeBit {a[0][0]}) {{b}}',
    'store_ref': _ref_term, 'store_cell': _cell_term,
    'store_slice': lambda a: f'run (BOp.storeSlice {a[0][0]}.1 {a[0][0]}.2) {{b}}',
    'store_coins': lambda a: f'run (BOp.storeCoins {a[0][0]}) {{b}}',
    'store_address': lambda a: f'run (BOp.storeAddress {a[0][0]}) {{b}}',
    'store_maybe_ref': lambda a: f'run (BOp.storeMaybeRef {a[0][0]}) {{b}}',
    'store_dict': lambda a: f'run (BOp.storeDict {a[0][0]}) {{b}}',
}
SLICE_OPS = {
    'load_uint': (['nat'], 'SOp.loadUint {0}', UINT), 'load_int': (['nat'], 'SOp.loadInt {0}', INT),
    'load_bit': ([], 'SOp.loadBit', BOOL), 'load_bool': ([], 'SOp.loadBit', BOOL), 'preload_bit': ([], 'SOp.preloadBit', BOOL),
    'load_bits': (['nat'], 'SOp.loadBits {0}', BITS), 'preload_bits': (['nat'], 'SOp.peekBits {0}', BITS),
    'load_bytes': (['nat'], 'SOp.loadBytes {0}', BYTES), 'preload_bytes': (['nat'], 'SOp.preloadBytes {0}', BYTES),
    'skip_bits': (['nat'], 'SOp.skipBits {0}', None), 'load_ref': ([], 'SOp.loadRef', REF), 'load_coins': ([], 'SOp.loadCoins', INT),
    'load_address': ([], 'SOp.loadAddress', 'Addr'), 'load_maybe_ref': ([], 'SOp.loadMaybeRef', OPT(REF)),
    'to_cell': ([], 'Py.Tlb.toCell', BODYCELL),
}
CTX = {'opt': [('mk', 'Bits → List R → Option R')], 'sop': [('view', 'R → Bits × List R'), ('ord', 'R → Bool')]}

HEAD = ['/- GENERATED by harness/translate/vmsrc.py (pytlb.py) from the current source of', f'   {SRC}: the serialize / deserialize methods of the VmStack classes; do not edit.',
        '   Serialisers: `Option (cell × state of the argument after the call)`, `none` = the Python code raises; `mk` = Builder.end_cell.',
        '   Deserialisers: `SOp R _` on the slice being consumed.  Python lists are Lean lists LAST ELEMENT FIRST (Py.RL.*).',
        '   `fuel`: one unit per nested call of a recursive method (Python has no such budget). -/',
        'import TonVerif.PyInt', 'import TonVerif.PyBytes', 'import TonVerif.PyTlb', 'import TonVerif.Model.VmStack',
        'set_option linter.unusedVariables false', f'namespace {NS}', 'open TonVerif TonVerif.Model TonVerif.Model.Vm TonVerif.Spec.Vm', '',
        'variable {R : Type}', '']


def config(tree=None):
    """parses the source, checks the declared interface against it -> Config"""
    path = os.path.join(REPO, SRC)
    tree = tree or ast.parse(open(path).read())
    classes = {}
    for name, d in CLASSES.items():
        cs = [n for n in tree.body if isinstance(n, ast.ClassDef) and n.name == name]
        if len(cs) != 1:
            raise Untranslatable(f'class {name} not found in {SRC}')
        if [ast.unparse(b) for b in cs[0].bases] != ['TlbScheme'] or cs[0].keywords or cs[0].decorator_list:
            raise Untranslatable(f'{name} is not `class {name}(TlbScheme)`')
        classes[name] = dict(d, node=cs[0], src=SRC)
    for name, mod in (('Slice', ('boc.slice', 2)), ('Builder', ('boc.builder', 2)), ('Cell', ('boc.cell', 2)), ('HashMap', ('boc.hashmap', 2))):
        if pybytes.imported_from(tree, name) != mod:
            raise Untranslatable(f'{name} is not (only) `from ..{mod[0]} import {name}` in {SRC}')
    # VmTuple: a wrapper of one list; __len__, __getitem__/__call__, append as declared
    vt = classes['VmTuple']['node']
    want = {'__init__': 'def __init__(self, list_: list):\n    self.list: list = list_',
            '__len__': 'def __len__(self):\n    return len(self.list)',
            '__call__': 'def __call__(self, index: int):\n    return self.list[index]',
            '__getitem__': 'def __getitem__(self, index: int):\n    return self.__call__(index)',
            'append': 'def append(self, item):\n    self.list.append(item)\n    return self'}
    for m, text in want.items():
        fs = [n for n in vt.body if isinstance(n, ast.FunctionDef) and n.name == m]
        if len(fs) != 1 or ast.unparse(fs[0]) != text:
            raise Untranslatable(f'VmTuple.{m} is not the declared wrapper method')
    if any(isinstance(n, ast.FunctionDef) and n.name in ('__getattr__', '__getattribute__', '__setattr__', '__new__', '__bool__', '__eq__') for n in vt.body):
        raise Untranslatable('VmTuple defines a special method that changes attribute access / truthiness')
    # VmCont / VmControlData: `type_` + keyword attributes
    for name in ('VmCont', 'VmControlData'):
        init = [n for n in classes[name]['node'].body if isinstance(n, ast.FunctionDef) and n.name == '__init__']
        if len(init) != 1 or ast.unparse(init[0]) != 'def __init__(self, type_, **kwargs):\n    self.type_ = type_\n    for k, v in kwargs.items():\n        setattr(self, k, v)':
            raise Untranslatable(f'{name}.__init__ is not the declared keyword-attribute constructor')
    for n in ast.walk(tree):
        if isinstance(n, ast.Name) and isinstance(n.ctx, (ast.Store, ast.Del)) and n.id in CLASSES:
            raise Untranslatable(f'{n.id} is rebound')
    return Config(sem=SEMS, classes=classes, sigs=SIGS, ctx=CTX, threaded={LV, VAL}, passthrough={('VmStack', 'deserialize')},
                  opaque=OPAQUE, opaque_defs={}, builder_ops=BUILDER_OPS, builder_terms=BUILDER_TERMS, slice_ops=SLICE_OPS,
                  builder_props={'available_bits': 'Py.Tlb.availableBits', 'available_refs': 'Py.Tlb.availableRefs'},
                  static_isinstance={}, list_attr='list', builder_class='Builder', slice_class='Slice', cell_class='Cell',
                  slice_param='cell_slice')


def translate_all():
    prog = pytlb.Program(config())
    return prog.translate_all()


def committed_text():
    try:
        r = subprocess.run(['git', '-C', os.path.dirname(LEAN), 'show', f'HEAD:lean/{OUT}'], capture_output=True, text=True, timeout=20)
        if r.returncode == 0 and r.stdout.startswith('/- GENERATED') and f'namespace {NS}' in r.stdout:
            return r.stdout
    except Exception:
        pass
    return None


def generate(old=None):
    """-> (text, info, lost).  The methods call each other, so the file is regenerated as a whole or not at all."""
    path = os.path.join(LEAN, OUT)
    if old is None:
        try:
            old = open(path).read()
        except FileNotFoundError:
            old = None
    try:
        defs = translate_all()
    except (Untranslatable, SyntaxError, OSError, RecursionError) as e:
        keep = committed_text() or old
        if keep is None:
            raise Untranslatable(f'{e} (and no previous translation to keep)')
        return keep, {}, {'VmStackSrc': f'{type(e).__name__}: {e}'}
    out = list(HEAD)
    for name, text in defs:
        out += [f'-- BEGIN {name}', text.rstrip('\n'), f'-- END {name}', '']
    out.append(f'end {NS}')
    return '\n'.join(out) + '\n', {n: 'regenerated' for n, _ in defs}, {}


def regenerate():
    path = os.path.join(LEAN, OUT)
    try:
        old = open(path).read()
    except FileNotFoundError:
        old = None
    text, info, lost = generate(old=old)
    changed = write_if_changed(path, text)
    h = hashlib.sha256(text.encode())
    for f in (SRC, 'pytoniq_core/boc/builder.py', 'pytoniq_core/boc/slice.py'):
        h.update(open(os.path.join(REPO, f), 'rb').read())
    for f in (__file__, pytlb.__file__, pybytes.__file__, pybytes.pyarith.__file__, os.path.join(LEAN, 'TonVerif/PyTlb.lean'),
              os.path.join(LEAN, 'TonVerif/Model/Builder.lean')):
        h.update(open(f, 'rb').read())
    stamp = os.path.join(LEAN, '.lake', 'srcval_VmStackSrc.stamp')
    try:
        cached = open(stamp).read() == h.hexdigest()
    except OSError:
        cached = False
    if not cached and not lost:
        bad = validate()
        if bad:
            keep = committed_text() or old
            if keep is None:
                raise Untranslatable(bad)
            changed = write_if_changed(path, keep) or changed
            lost = {'VmStackSrc': bad}
        else:
            try:
                with open(stamp, 'w') as f:
                    f.write(h.hexdigest())
            except OSError:
                pass
    if lost:
        raise Untranslatable(f'kept the previous translation: {lost} (file changed: {changed})')
    return changed, {'definitions': sorted(info), 'validated': 'cached' if cached else f'Lean evaluation = the library on {len(validation_cases()[0])} '
                     f'stacks (VmStack.serialize: cell hash + length of the caller\'s list afterwards; VmStackValue.serialize: cell hash + full state of the value afterwards) and {len(validation_cases()[1])} cells (deserialize)'}


# ---------------------------------------------------------------------------- structured inputs

def validation_stacks():
    """deterministic stack descriptions covering every value kind, tuple length class, continuation kind, Maybe combination"""
    from ..gen import vmvals as V
    rng = random.Random(20240917)
    cx = V.Ctx()
    nb = len(V.BASE_DAG)
    out = [[]]
    for v in V.INT_BOUNDARY + V.INT_OUT_OF_RANGE:
        out.append([['i', v]])
    out += [[['n']], [['c', 2]], [['b', 3]], [['b', 1]], [['s', 3, 5, 1]], [['s', 2, 0, 0]], [['s', 4, 1003, 4]], [['n'], ['i', 5], ['c', 0]]]
    leaves = [['i', 1], ['i', 2 ** 63], ['n'], ['c', 2], ['s', 3, 5, 1], ['b', 2], ['kquit', 5], ['t', []]]
    for n in (0, 1, 2, 3, 4, 5, 17):
        out.append([['t', [leaves[i % len(leaves)] for i in range(n)]]])
    for depth in (1, 2, 3):
        for width in (0, 1, 2, 3):
            out.append([V.nested_tuple(depth, width, leaves[depth])])
    q = ['kquit', 5]
    for kind in V.CONT_KINDS:
        for _ in range(3):
            out.append([V.gen_cont(rng, cx, nb, 2, kind)])
    for kind in ('kstd', 'kenv'):
        for mask in range(16):
            ctl = ['d', 3 if mask & 1 else None, [['t', [['i', 1], ['i', 2], ['i', 3]]], ['i', -2 ** 63]] if mask & 2 else None,
                   None, -1 if mask & 8 else None]
            out.append([[kind, ctl, ['s', 2, 3, 1] if kind == 'kstd' else ['krep', 5, q, ['kqexc']]]])
        for nargs, cp in ((0, 0), (8191, 32767), (8192, 0), (0, 32768), (0, -32768), (0, -32769), (-1, 0)):
            out.append([[kind, ['d', nargs, [], None, cp], ['s', 0, 0, 0] if kind == 'kstd' else q]])
    for code in (2 ** 31 - 1, -2 ** 31, 2 ** 31, -2 ** 31 - 1):
        out += [[['kquit', code]], [['kpush', code, q]]]
    for count in (0, 2 ** 63 - 1, 2 ** 63, -1):
        out.append([['krep', count, q, q]])
    for t in range(60):
        depth = rng.choice([1, 2, 3, 5, 8])
        out.append([V.gen_val(rng, cx, nb, rng.choice([0, 1, 2, 3])) for _ in range(depth)])
    return cx, [s for s in out if not _has_save(s)]


def _has_save(x):
    """a control data with a save list needs a dictionary cell built by the library: kept out of the validation set"""
    if isinstance(x, list):
        if x and x[0] == 'd' and len(x) == 5 and x[3]:
            return True
        return any(_has_save(y) for y in x)
    return False


_CASES = None


def validation_cases():
    """-> ([(line for the Lean evaluator, what the library computes)], [...]) for serialize and deserialize"""
    global _CASES
    if _CASES is not None:
        return _CASES
    from ..gen import vmvals as V
    from ..gen import cells as G
    lib = V._lib()[0]
    cx0, stacks = validation_stacks()
    ser, de = [], []
    for st in stacks:
        cx = cx0.fresh()
        try:
            toks = V.stack_tokens(cx, st)
        except V.Unencodable:
            continue
        vs = [V.mk_lib(cx, d) for d in st]
        try:
            c = lib.VmStack.serialize(vs)
        except RecursionError:
            raise
        except Exception:
            c = None
        try:
            snap = V.canon_stack(vs)
        except Exception:
            continue
        ser.append((f'ser {cx.dag_arg()} {toks}', 'err' if c is None else f'ok {c.hash.hex()} {len(vs)}'))
        # the entry points below VmStack.serialize, on the first value
        if st:
            v = V.mk_lib(cx, st[0])
            # a continuation's stacks are reached through attributes and a copy: their state is outside the regenerated
            # post-state (accounted for by the callee's theorem), so only the cell is compared there
            op = 'servk' if str(st[0][0]).startswith('k') else 'serv'
            try:
                c1 = lib.VmStackValue.serialize(v)
                r = f'ok {c1.hash.hex()}' + ('' if op == 'servk' else f' {V.canon_stack([v])}')
            except RecursionError:
                raise
            except Exception:
                r = 'err'
            ser.append((f'{op} {cx.dag_arg()} {V.stack_tokens(cx, [st[0]])}', r))
        if c is not None:
            nodes, root = V.flatten(c)
            de.append((nodes, root))
    # damaged / hand-made cells for the parser
    rng = random.Random(20240918)
    base = list(de)
    for nodes, root in base[:120]:
        nodes = [list(n) for n in nodes]
        for _ in range(2):
            i = rng.randrange(len(nodes))
            k, bits, refs = nodes[i]
            m = rng.randrange(4)
            if m == 0 and bits:
                j = rng.randrange(min(len(bits), 48))
                bits = bits[:j] + ('1' if bits[j] == '0' else '0') + bits[j + 1:]
            elif m == 1 and bits:
                bits = bits[:rng.randrange(len(bits))]
            elif m == 2 and refs:
                refs = tuple(refs[:-1])
            elif m == 3 and i > 0 and len(refs) < 4:
                refs = tuple(refs) + (rng.randrange(i),)
            nodes[i] = [k, bits, refs]
        de.append(([tuple(n) for n in nodes], root))
    hand = [
        [(G.ORD, '', ()), (G.ORD, format(1, '024b') + '0000001011111111', (0,))],
        [(G.ORD, '', ()), (G.ORD, format(1, '024b') + '00001000', (0,))],
        [(G.ORD, '', ()), (G.ORD, format(1, '024b'), (0,))],
        [(G.ORD, '', ()), (G.ORD, format(2, '024b') + '00000000', (0,))],
        [(G.ORD, format(0, '020b'), ())],
        [(G.ORD, '', ()), (G.ORD, '1', ()), (G.ORD, format(1, '024b') + '00000100' + format(5, '010b') + format(3, '010b') + '000000', (0, 1))],
        [(G.ORD, '', ()), (G.ORD, '1011', (0, 0)), (G.ORD, format(1, '024b') + '00000100' + format(1, '010b') + format(3, '010b') + '001010', (0, 1))],
        [(G.ORD, '', ()), (G.ORD, '1011', (0, 0)), (G.ORD, format(1, '024b') + '00000100' + format(1, '010b') + format(900, '010b') + '001111', (0, 1))],
        [(G.ORD, '', ()), (G.ORD, format(1, '024b') + '00000110' + '1011', (0,))],
        [(G.ORD, '', ()), (G.ORD, format(1, '024b') + '00000111' + format(2, '016b'), (0,))],
    ]
    de += [(n, len(n) - 1) for n in hand]
    deser = []
    for nodes, root in de:
        cells = G.lib_build(nodes)
        if cells[root] is None:
            continue
        try:
            back = lib.VmStack.deserialize(cells[root].begin_parse())
            got = 'ok ' + V.canon_stack(back)
        except RecursionError:
            raise
        except Exception:
            got = 'err'
        if any(t.startswith('d:') and t.split(':')[3] != '-' for t in got[3:].split(',')):
            continue                     # a parsed save list is a dictionary object in the library, its root cell in the model
        deser.append((f'de {G.dag_line(nodes)[8:]} {root}', got))
    _CASES = (ser, deser)
    return _CASES


LEAN_EVAL = """import TonVerif.Drv.VmStack
import TonVerif.Generated.VmStackSrc
open TonVerif TonVerif.Model TonVerif.Model.Vm TonVerif.Spec.Vm TonVerif.Drv TonVerif.Drv.VmStack TonVerif.Generated.VmStackSrc
def FUEL : Nat := 1000000
def genSer (dag st : String) : String :=
  match parseDag dag with
  | none => "bad-op"
  | some ctx =>
    match parseStack ctx st with
    | none => "bad-op"
    | some vs =>
      match VmStack_serialize mkCell FUEL vs with
      | some r => s!"ok {r.1.cell.hashHex} {r.2.length}"
      | none => "err"
def genSerV (dag st : String) : String :=
  match parseDag dag with
  | none => "bad-op"
  | some ctx =>
    match parseStack ctx st with
    | some [v] =>
      match VmStackValue_serialize mkCell FUEL v with
      | some r => s!"ok {r.1.cell.hashHex} {showStack [r.2]}"
      | none => "err"
    | _ => "bad-op"
def genDe (dag node : String) : String :=
  match parseDag dag, node.toNat? with
  | some ctx, some ni =>
    match (ctx[ni]?).join with
    | none => "err"
    | some c =>
      match (VmStack_deserialize rview rord FUEL ⟨c.bits, c.refs⟩).2 with
      | some vs => "ok " ++ showStack vs
      | none => "err"
  | _, _ => "bad-op"
def modSer (dag st : String) : String :=
  match parseDag dag with
  | none => "bad-op"
  | some ctx =>
    match parseStack ctx st with
    | none => "bad-op"
    | some vs =>
      match serStack mkCell vs with
      | some b => s!"ok {b.cell.hashHex} {vs.length}"
      | none => "err"
def modSerV (dag st : String) : String :=
  match parseDag dag with
  | none => "bad-op"
  | some ctx =>
    match parseStack ctx st with
    | some [v] =>
      match serVal mkCell v with
      | some b => s!"ok {b.cell.hashHex} {showStack [v]}"
      | none => "err"
    | _ => "bad-op"
def modDe (dag node : String) : String :=
  match parseDag dag, node.toNat? with
  | some ctx, some ni =>
    match (ctx[ni]?).join with
    | none => "err"
    | some c =>
      match (De.stack rview rord FUEL ⟨c.bits, c.refs⟩).2 with
      | some vs => "ok " ++ showStack vs
      | none => "err"
  | _, _ => "bad-op"
def runLine (mode : String) (l : String) : String :=
  match l.splitOn " " with
  | ["ser", d, s] => if mode == "val" then genSer d s else (if genSer d s == modSer d s then "same" else "DIFF")
  | ["serv", d, s] => if mode == "val" then genSerV d s else (if genSerV d s == modSerV d s then "same" else "DIFF")
  | ["servk", d, s] => if mode == "val" then " ".intercalate ((genSerV d s).splitOn " " |>.take 2) else (if genSerV d s == modSerV d s then "same" else "DIFF")
  | ["de", d, n] => if mode == "val" then genDe d n else (if genDe d n == modDe d n then "same" else "DIFF")
  | _ => "bad-op"
"""


def lean_eval(lines, mode):
    """mode 'val': what the REGENERATED functions compute per request line; mode 'diff': 'same' | 'DIFF' regenerated vs hand model"""
    tmp = os.path.join(LEAN, f'.srcvm_{os.getpid()}.lean')
    inp = os.path.join(LEAN, f'.srcvm_{os.getpid()}.txt')
    with open(inp, 'w') as f:
        f.write('\n'.join(lines) + '\n')
    src = LEAN_EVAL + f'\n#eval (do let txt ← IO.FS.readFile "{inp}"; for l in (txt.splitOn "\\n") do (if l != "" then IO.println ("VAL " ++ runLine "{mode}" l) else pure ()) : IO Unit)\n'
    with open(tmp, 'w') as f:
        f.write(src)
    try:
        _lake_build(['TonVerif.Generated.VmStackSrc', 'TonVerif.Drv.VmStack'])
        p = subprocess.run(['lake', 'env', 'lean', tmp], cwd=LEAN, capture_output=True, text=True, timeout=1200)
    finally:
        for x in (tmp, inp):
            try:
                os.unlink(x)
            except OSError:
                pass
    got = re.findall(r'^VAL (.*)$', p.stdout, re.M)
    if len(got) != len(lines) or 'bad-op' in got:
        raise RuntimeError('lean evaluation failed: ' + (p.stdout + p.stderr)[-400:])
    return got


def validate():
    """Differential validation of the TRANSLATOR: Lean evaluation of the regenerated functions = CPython running the real
    source on the same inputs (cell hash, state of the caller's values after serialize; parsed stack).  -> None | reason"""
    ser, de = validation_cases()
    cases = ser + de
    try:
        got = lean_eval([c[0] for c in cases], 'val')
    except Exception as e:
        return f'validation: the regenerated definitions could not be evaluated: {e}'
    for (line, want), g in zip(cases, got):
        if g != want:
            return f'validation: on `{line[:200]}` Lean computes "{g[:160]}", the library computes "{want[:160]}"'
    return None


def diff_lines(ctx, lines):
    """search hook: request lines (`ser <dag> <stack>`, `serv ..`, `de <dag> <node>`) on which the regenerated function and the
    hand model differ (evaluated by Lean; needs only the generated file and the driver modules, not the proofs).  Never raises."""
    if not lines:
        return []
    try:
        got = lean_eval(lines, 'diff')
    except Exception as e:
        ctx.notes.append(f'source-diff search (VmStackSrc) failed: {type(e).__name__}: {e}')
        return []
    found = [l for l, g in zip(lines, got) if g == 'DIFF']
    ctx.notes.append(f'source-diff search: regenerated vm_stack.py functions vs hand model on {len(lines)} requests: '
                     + (f'{len(found)} differ, e.g. {found[0][:120]}' if found else 'no difference'))
    return found


if __name__ == '__main__':
    text, info, lost = generate(old='')
    print(info, lost)
    if not lost:
        print(write_if_changed(os.path.join(LEAN, OUT), text))
