"""C16 source tie, second part: the regenerated parsers of tlb/transaction.py
(harness/translate/tlbparsers_tx.py -> lean/TonVerif/Generated/TlbParsersTx.lean).  Same three services as harness/tlbsrc.py:

  * `translator_entries()`  one tie per class for SPEC['translators']
  * `validate(ctx)`         TRANSLATOR VALIDATION: the regenerated Lean reader (driver op `tlbsrctx`) and the real `T.deserialize` run on
                            the same generated cells must return the same object (class, attributes, nested objects, lists, dicts,
                            addresses, cells) and leave the same rest of the slice.  This also validates the hand-written primitives
                            of Model/TlbRdTx.lean (`load_address`, `load_dict` + dictionary walk, `optional`, `viaRef`).
  * `theorem_check(ctx)`    the statement of `c16_src_<T>` evaluated in Lean on generated values (`tlbsrctxchk`); in search mode the
                            values on which it is false go to the property's oracle first -> concrete failing input
"""
import importlib
import json

from .gen import tlbvals as V
from .translate import tlbparsers_tx as TX
from .tlbsrc import bits_of, dag_str

# class -> (python module, spec type known to the property's oracle (or None), theorem)
PROVED = {
    'ExtraCurrencyCollection': ('block', 'ExtraCurrencyCollection', 'c16_src_tx_ExtraCurrencyCollection'),
    'CurrencyCollection': ('block', 'CurrencyCollection', 'c16_src_tx_CurrencyCollection'),
    'TrActionPhase': ('transaction', 'TrActionPhase', 'c16_src_TrActionPhase'),
    'TrCreditPhase': ('transaction', 'TrCreditPhase', 'c16_src_TrCreditPhase'),
    'ImportFees': ('transaction', 'ImportFees', 'c16_src_ImportFees'),
    'InternalMsgInfo': ('transaction', None, 'c16_src_InternalMsgInfo'),
    'ExternalMsgInfo': ('transaction', None, 'c16_src_ExternalMsgInfo'),
    'ExternalOutMsgInfo': ('transaction', None, 'c16_src_ExternalOutMsgInfo'),
    'CommonMsgInfo': ('transaction', 'CommonMsgInfo', 'c16_src_CommonMsgInfo'),
    'MessageAny': ('transaction', None, 'c16_src_MessageAny, c16_src_MessageAny_ref'),
    'MsgMetadata': ('transaction', 'MsgMetadata', 'c16_src_MsgMetadata'),
    'MsgEnvelope': ('transaction', 'MsgEnvelope', 'c16_src_MsgEnvelope'),
    'TransactionOrdinary': ('transaction', None, 'c16_src_TransactionOrdinary'),
    'TransactionStorage': ('transaction', None, 'c16_src_TransactionStorage'),
    'TransactionTickTock': ('transaction', None, 'c16_src_TransactionTickTock'),
    'TransactionSplitPrepare': ('transaction', None, 'c16_src_TransactionSplitPrepare'),
    'TransactionMergePrepare': ('transaction', None, 'c16_src_TransactionMergePrepare'),
    'TransactionSplitInstall': ('transaction', None, 'c16_src_TransactionSplitInstall'),
    'TransactionMergeInstall': ('transaction', None, 'c16_src_TransactionMergeInstall'),
    'TransactionDescr': ('transaction', 'TransactionDescr', 'c16_src_TransactionDescr'),
    'Transaction': ('transaction', 'Transaction', 'c16_src_Transaction'),
    'InMsg': ('transaction', 'InMsg', 'c16_src_InMsg'),
    'OutMsg': ('transaction', 'OutMsg', 'c16_src_OutMsg'),
}
# values per class and run (quick tier); the big types are the slow ones
N_VALIDATE = {'Transaction': 6, 'InMsg': 6, 'OutMsg': 6, 'TransactionDescr': 8, 'TransactionMergeInstall': 4, 'TransactionSplitInstall': 4}


def label(cls):
    return f'parser {cls} ({PROVED[cls][2]})'


def live(ctx):
    return [c for c in PROVED if (ctx.tie.get(label(c)) or {}).get('status') == 'ok']


def translator_entries():
    out = [('tlb/transaction.py deserialize -> Generated/TlbParsersTx.lean', TX.regenerate)]
    for _, cls in TX.CLASSES:
        out.append((label(cls), TX.class_tie(cls)))
    return out


def lib_class(cls):
    return getattr(importlib.import_module(f'pytoniq_core.tlb.{PROVED[cls][0]}'), cls)


def mismatch(lean, py, path=''):
    """None if the Lean value (driver JSON) denotes the Python object, else a description of the first difference"""
    from pytoniq_core.boc.cell import Cell
    if lean is None:
        return None if py is None else f'{path}: Lean None, library {type(py).__name__}'
    if isinstance(lean, bool):
        return None if isinstance(py, bool) and py == lean else f'{path}: Lean {lean}, library {py!r}'
    if isinstance(lean, int):
        return None if isinstance(py, int) and not isinstance(py, bool) and py == lean else f'{path}: Lean {lean}, library {py!r}'
    if isinstance(lean, str):
        b = bits_of(py)
        return None if b == lean else f'{path}: Lean bits {lean[:40]}.., library {py!r}'[:200]
    if V.is_cell_json(lean):
        if not isinstance(py, Cell):
            return f'{path}: Lean cell, library {type(py).__name__}'
        return None if V.cell_json_canon(lean) == V.lib_cell_canon(py) else f'{path}: cells differ'
    if isinstance(lean, dict) and '$' in lean:
        name, v = lean['$'], lean['v']
        if name == 'hex':
            return mismatch(v, py, path)
        if name == 'list':
            if not isinstance(py, list) or len(py) != len(v):
                return f'{path}: Lean list of {len(v)}, library {type(py).__name__} of {len(py) if isinstance(py, list) else "?"}'
            for i in range(len(v)):
                m = mismatch(v[str(i)], py[i], f'{path}[{i}]')
                if m:
                    return m
            return None
        if name == 'cell' and v is None:
            # a constructor argument kept as an unparsed cell where the schema has a structured value: presence only (declared)
            return None if isinstance(py, Cell) else f'{path}: Lean "a cell", library {type(py).__name__}'
        if name == 'slice':
            from pytoniq_core.boc.slice import Slice
            if not isinstance(py, Slice):
                return f'{path}: Lean Slice, library {type(py).__name__}'
            if v is None:
                return None                  # a raw leaf of a dictionary read without a value_deserializer: presence only (declared)
            return None if V.cell_json_canon(v) == V.lib_cell_canon(py.to_cell()) else f'{path}: slices differ'
        if name == 'tuple':
            if not isinstance(py, tuple) or len(py) != len(v):
                return f'{path}: Lean tuple of {len(v)}, library {type(py).__name__}'
            for i in range(len(v)):
                m = mismatch(v[str(i)], py[i], f'{path}({i})')
                if m:
                    return m
            return None
        if name == 'dict':
            if not isinstance(py, dict) or [str(k) for k in py] != list(v):
                return f'{path}: Lean dict keys {list(v)[:6]}, library {list(py)[:6] if isinstance(py, dict) else type(py).__name__}'
            for k, x in py.items():
                m = mismatch(v[str(k)], x, f'{path}[{k}]')
                if m:
                    return m
            return None
        if v is None:
            return None if isinstance(py, str) and py == name else f'{path}: Lean str {name!r}, library {py!r}'
        if type(py).__name__ != name:
            return f'{path}: Lean object {name}, library {type(py).__name__}'
        for k, x in v.items():
            if not hasattr(py, k):
                if x is None:
                    continue        # a constructor argument None that __init__ does not store for this alternative
                if k == 'dict_' and hasattr(py, 'dict'):
                    m = mismatch(x, py.dict, f'{path}.dict')
                    if m:
                        return m
                    continue
                return f'{path}.{k}: the library object has no attribute {k}'
            m = mismatch(x, getattr(py, k), f'{path}.{k}')
            if m:
                return m
        return None
    return f'{path}: unexpected Lean value {str(lean)[:60]}'


def _gen(ctx, classes, n):
    reqs = [(c, ctx.rng.randrange(1 << 30)) for c in classes for _ in range(n if isinstance(n, int) else n(c))]
    outs = ctx.model.run([f'tlbsrctxchk {c} {s}' for c, s in reqs])
    for (c, s), ans in zip(reqs, outs):
        if ans in ('unenc', 'bad-op', 'err') or not ans[:2] in ('0 ', '1 '):
            if ans != 'unenc':
                ctx.corr_broken(f'driver: tlbsrctxchk {c} {s} -> {ans[:80]}')
            continue
        g = V.parse_gen_answer(ans[2:])
        if g is not None:
            yield c, s, ans[0] == '1', g


def validate(ctx):
    """translator validation on generated cells of every class of the second part"""
    ok_classes = live(ctx)
    items = list(_gen(ctx, ok_classes, lambda c: N_VALIDATE.get(c, 10)))
    lines = [f'tlbsrctx {c} {dag_str(g["nodes"])} {len(g["nodes"]) - 1}' for c, s, good, g in items]
    outs = ctx.model.run(lines) if lines else []
    bad = {}
    for (c, s, good, g), ans in zip(items, outs):
        ctx.count('srctx_validated')
        cells = V.build(g['nodes'])
        sl = cells[-1].begin_parse()
        try:
            obj = lib_class(c).deserialize(sl)
            lib = ('ok', obj, sl.bits.to01(), sl.remaining_refs)
        except Exception as e:
            lib = ('raise', f'{type(e).__name__}: {e}')
        if ans == 'none':
            m = None if lib[0] == 'raise' else 'Lean reader: raises; library: returns'
        elif not ans.startswith('ok '):
            m = f'driver answer {ans[:60]}'
        elif lib[0] == 'raise':
            m = f'Lean reader: returns; library raises {lib[1]}'
        else:
            v, rb, rr = ans[3:].rsplit(' ', 2)
            m = mismatch(json.loads(v), lib[1], c)
            if m is None and (('' if rb == '-' else rb) != lib[2] or int(rr) != lib[3]):
                m = f'rest of the slice: Lean {rb}/{rr}, library {lib[2]}/{lib[3]}'
        if m and c not in bad:
            bad[c] = m
            ctx.corr_broken(f'translator validation: regenerated reader of {c} and {c}.deserialize disagree on seed {s}: {m}')
    ctx.notes.append(f'source tie (tlb/transaction.py): translator validation on {len(items)} generated cells of {len(ok_classes)} '
                     f'classes, {len(bad)} disagreements')
    return bad


def theorem_check(ctx, check_value, P, n=3):
    """`c16_src_<T>` evaluated on generated values; the values on which it is false go to the property's oracle"""
    n = 60 if ctx.search else n
    found = 0
    for c, s, good, g in _gen(ctx, live(ctx), n):
        ctx.count('srctx_theorem_evaluated')
        if good:
            continue
        ctx.count(f'srctx_theorem_false:{c}')
        ty = PROVED[c][1]
        if found < 40 and ty in P:
            found += 1
            if check_value(ctx, P, ty, s, g, tag='srctx'):
                ctx.corr_broken(f'{PROVED[c][2]} is false on seed {s} (Lean evaluation) but {c}.deserialize parses that value as encoded')
    return found
