import sys, collections
from harness.core import Ctx
from harness.props import C16
ctx = Ctx('C16', 'quick', int(sys.argv[1]) if len(sys.argv)>1 else 0)
allf=[]
ctx.fail=lambda key,what,input,observed=None,expected=None: allf.append(dict(key=key,what=what,input=input,observed=observed,expected=expected))
C16.run(ctx)
ctx.failures=allf
c = collections.Counter(f['key'] for f in ctx.failures)
for k,v in sorted(c.items()): 
    f = next(f for f in ctx.failures if f['key']==k)
    print(v, k, '| obs', str(f['observed'])[:120], '| exp', str(f['expected'])[:120])
print('broken', ctx.broken[:3])
print('known', ctx.known_hit)
import json
want = sys.argv[2] if len(sys.argv)>2 else None
if want:
    f = next(f for f in ctx.failures if f['key']==want)
    print(json.dumps(f['input']['value'])[:3000]); print(f['input']['dag'][:3000]); print(f['input']['type'], f['input']['seed'])
