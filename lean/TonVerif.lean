import TonVerif.Spec.Crc
import TonVerif.Generated.Crc
