/-
Line-protocol driver for the executable models (lean_exe `tonmodel`).
One request per line:  <op> <arg> <arg> ...      (hex for bytes, 0/1 strings for bits)
One response per line: ok <canonical result>   |   err
-/
import TonVerif.Basic
import TonVerif.Model.Crc

open TonVerif

def hexArg (s : String) : Option Bytes := if s == "-" then some [] else bytesOfHex? s

def optHex : Option Bytes → String
  | some bs => "ok " ++ (if bs.isEmpty then "-" else hexOfBytes bs)
  | none => "err"

def handle (op : String) (args : List String) : String :=
  match op, args with
  | "crc16", [d] => match hexArg d with
      | some bs => optHex (Model.crc16 bs)
      | none => "bad-op"
  | "crc32c", [d, big] => match hexArg d with
      | some bs => optHex (Model.crc32c bs (big == "1"))
      | none => "bad-op"
  | _, _ => "bad-op"

partial def loop (h : IO.FS.Stream) (out : IO.FS.Stream) : IO Unit := do
  let line ← h.getLine
  if line.isEmpty then return ()
  let ws := (line.trimAscii.toString.splitOn " ").filter (· ≠ "")
  match ws with
  | [] => out.putStrLn "bad-op"
  | op :: args => out.putStrLn (handle op args)
  loop h out

def main : IO Unit := do
  let out ← IO.getStdout
  loop (← IO.getStdin) out
  out.flush
