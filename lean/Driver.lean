/-
Line-protocol driver for the executable models (lean_exe `tonmodel`).
One request per line:  <op> <arg> <arg> ...      (hex for bytes, 0/1 strings for bits)
One response per line: ok <canonical result>   |   err
-/
import TonVerif.Basic
import TonVerif.Model.Crc
import TonVerif.Model.Cell
import TonVerif.Spec.Cell
import TonVerif.Sha256

open TonVerif TonVerif.Model

def hexArg (s : String) : Option Bytes := if s == "-" then some [] else bytesOfHex? s

def optHex : Option Bytes → String
  | some bs => "ok " ++ (if bs.isEmpty then "-" else hexOfBytes bs)
  | none => "err"

def sha := Sha256.sha256

def dashHex (bs : Bytes) : String := if bs.isEmpty then "-" else hexOfBytes bs

def parseBits (s : String) : Option Bits := if s == "-" then some [] else bitsOfString? s

def parseNatList (s : String) (sep : String := ".") : Option (List Nat) :=
  if s == "-" then some [] else (s.splitOn sep).mapM String.toNat?

/-- node syntax: `kind,bits,refs` e.g. `-1,0101,0.2` ; `-` for empty bits / no refs -/
def parseNode (s : String) : Option (Int × Bits × List Nat) :=
  match s.splitOn "," with
  | [k, b, r] => do
    let kind ← k.toInt?
    let bits ← parseBits b
    let refs ← parseNatList r
    pure (kind, bits, refs)
  | _ => none

/-- evaluate a DAG given child-before-parent; each node once. -/
def evalDag (nodes : List (Int × Bits × List Nat)) : Array (Option CellInfo) :=
  nodes.foldl (fun acc (kind, bits, refs) =>
    let kids : Option (List CellInfo) := refs.mapM (fun i => (acc[i]?).join)
    acc.push (kids.bind (fun ks => construct sha kind bits ks))) #[]

def showInfo (i : CellInfo) (kids : List CellInfo) : String :=
  let hs := (List.range 4).map (fun l => match i.getHash l with | some h => dashHex h | none => "x")
  let ds := (List.range 4).map (fun l => match i.getDepth l with | some d => toString d | none => "x")
  let rep := match representation i kids with | some r => hexOfBytes (sha r) | none => "x"
  s!"{i.mask}:{".".intercalate hs}:{".".intercalate ds}:{hexOfBytes i.hash}:{rep}:{i.pyHash}"

def handleDag (arg : String) : String :=
  match (arg.splitOn "|").mapM parseNode with
  | none => "bad-op"
  | some nodes =>
    let infos := evalDag nodes
    let outs := (List.range nodes.length).map (fun k =>
      match infos[k]?, nodes[k]? with
      | some (some i), some (_, _, refs) =>
        let kids := refs.filterMap (fun j => (infos[j]?).join)
        showInfo i kids
      | _, _ => "err")
    "ok " ++ "|".intercalate outs

def specKind (k : Int) : Option Spec.Kind :=
  if k = -1 then some .ordinary else if k = 1 then some .pruned else if k = 2 then some .library
  else if k = 3 then some .merkleProof else if k = 4 then some .merkleUpdate else none

/-- the SPEC (Spec/Cell.lean) evaluated on a DAG: `mask:h0.h1.h2.h3:d0.d1.d2.d3` per node -/
def handleSpecDag (arg : String) : String :=
  match (arg.splitOn "|").mapM parseNode with
  | none => "bad-op"
  | some nodes =>
    let infos : Array (Option Spec.SInfo) := nodes.foldl (fun acc (kind, bits, refs) =>
      let kids : Option (List Spec.SInfo) := refs.mapM (fun i => (acc[i]?).join)
      acc.push (do let ks ← kids; let k ← specKind kind; pure (Spec.node sha k bits ks))) #[]
    let outs := infos.toList.map (fun o => match o with
      | some s =>
        let hs := (List.range 4).map (fun l => dashHex (s.hashAt l))
        let ds := (List.range 4).map (fun l => toString (s.depthAt l))
        s!"{s.mask}:{".".intercalate hs}:{".".intercalate ds}"
      | none => "err")
    "ok " ++ "|".intercalate outs

def handle (op : String) (args : List String) : String :=
  match op, args with
  | "crc16", [d] => match hexArg d with
      | some bs => optHex (Model.crc16 bs)
      | none => "bad-op"
  | "crc32c", [d, big] => match hexArg d with
      | some bs => optHex (Model.crc32c bs (big == "1"))
      | none => "bad-op"
  | "sha256", [d] => match hexArg d with
      | some bs => "ok " ++ hexOfBytes (sha bs)
      | none => "bad-op"
  | "celldag", [d] => handleDag d
  | "specdag", [d] => handleSpecDag d
  | _, _ => "bad-op"

partial def loop (h : IO.FS.Stream) (out : IO.FS.Stream) : IO Unit := do
  let line ← h.getLine
  if line.isEmpty then return ()
  let ws := (line.trimAscii.toString.splitOn " ").filter (· ≠ "")
  match ws with
  | [] => out.putStrLn "bad-op"
  | op :: args => out.putStrLn (handle op args)
  loop h out

def main : IO Unit := do
  let out ← IO.getStdout
  loop (← IO.getStdin) out
  out.flush
