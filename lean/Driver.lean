/-
Line-protocol driver for the executable models (lean_exe `tonmodel`).
One request per line:  <op> <arg> <arg> ...      (hex for bytes, 0/1 strings for bits)
One response per line: ok <canonical result>   |   err   |   bad-op
Each model area contributes `TonVerif.Drv.<Area>.handle?`; add new areas to `handlers`.
-/
import TonVerif.Drv.Common
import TonVerif.Drv.Crc
import TonVerif.Drv.Cell
import TonVerif.Drv.Builder
import TonVerif.Drv.BocParse
import TonVerif.Drv.Proof
import TonVerif.Drv.Message
import TonVerif.Drv.Tlb
import TonVerif.Drv.Sig
import TonVerif.Drv.Heap
import TonVerif.Drv.Address
import TonVerif.Drv.VmStack
import TonVerif.Drv.Cost
import TonVerif.Drv.Tl
import TonVerif.Drv.Hashmap
import TonVerif.Drv.Boc
import TonVerif.Drv.BocEntry
import TonVerif.Drv.TlbSrc
import TonVerif.Drv.TlbSrcTx
import TonVerif.Drv.TlbSrcBlk
import TonVerif.Drv.LocateSrc

open TonVerif TonVerif.Drv

def handlers : List (String → List String → Option String) := [
  Crc.handle?,
  Cell.handle?,
  Builder.handle?,
  BocParse.handle?,
  Proof.handle?,
  Msg.handle?,
  Tlb.handle?,
  Sig.handle?,
  Adnl.handle?,
  Heap.handle?,
  Address.handle?,
  VmStack.handle?,
  Cost.handle?,
  Tl.handle?,
  Hashmap.handle?,
  Boc.handle?,
  BocEntry.handle?,
  TlbSrc.handle?,
  TlbSrcTx.handle?,
  TlbSrcBlk.handle?,
  LocateSrc.handle?
]

def handle (op : String) (args : List String) : String :=
  (handlers.findSome? (fun h => h op args)).getD "bad-op"

partial def loop (h : IO.FS.Stream) (out : IO.FS.Stream) : IO Unit := do
  let line ← h.getLine
  if line.isEmpty then return ()
  let ws := (line.trimAscii.toString.splitOn " ").filter (· ≠ "")
  match ws with
  | [] => out.putStrLn "bad-op"
  | op :: args => out.putStrLn (handle op args)
  loop h out

def main : IO Unit := do
  let out ← IO.getStdout
  loop (← IO.getStdin) out
  out.flush
