/-
Line-protocol driver for the executable models (lean_exe `tonmodel`).
One request per line:  <op> <arg> <arg> ...      (hex for bytes, 0/1 strings for bits)
One response per line: ok <canonical result>   |   err
-/
import TonVerif.Basic
import TonVerif.Model.Crc
import TonVerif.Model.Cell
import TonVerif.Spec.Cell
import TonVerif.Model.Builder
import TonVerif.Sha256

open TonVerif TonVerif.Model

def hexArg (s : String) : Option Bytes := if s == "-" then some [] else bytesOfHex? s

def optHex : Option Bytes → String
  | some bs => "ok " ++ (if bs.isEmpty then "-" else hexOfBytes bs)
  | none => "err"

def sha := Sha256.sha256

def dashHex (bs : Bytes) : String := if bs.isEmpty then "-" else hexOfBytes bs

def parseBits (s : String) : Option Bits := if s == "-" then some [] else bitsOfString? s

def parseNatList (s : String) (sep : String := ".") : Option (List Nat) :=
  if s == "-" then some [] else (s.splitOn sep).mapM String.toNat?

/-- node syntax: `kind,bits,refs` e.g. `-1,0101,0.2` ; `-` for empty bits / no refs -/
def parseNode (s : String) : Option (Int × Bits × List Nat) :=
  match s.splitOn "," with
  | [k, b, r] => do
    let kind ← k.toInt?
    let bits ← parseBits b
    let refs ← parseNatList r
    pure (kind, bits, refs)
  | _ => none

/-- evaluate a DAG given child-before-parent; each node once. -/
def evalDag (nodes : List (Int × Bits × List Nat)) : Array (Option CellInfo) :=
  nodes.foldl (fun acc (kind, bits, refs) =>
    let kids : Option (List CellInfo) := refs.mapM (fun i => (acc[i]?).join)
    acc.push (kids.bind (fun ks => construct sha kind bits ks))) #[]

def showInfo (i : CellInfo) (kids : List CellInfo) : String :=
  let hs := (List.range 4).map (fun l => match i.getHash l with | some h => dashHex h | none => "x")
  let ds := (List.range 4).map (fun l => match i.getDepth l with | some d => toString d | none => "x")
  let rep := match representation i kids with | some r => hexOfBytes (sha r) | none => "x"
  s!"{i.mask}:{".".intercalate hs}:{".".intercalate ds}:{hexOfBytes i.hash}:{rep}:{i.pyHash}"

def handleDag (arg : String) : String :=
  match (arg.splitOn "|").mapM parseNode with
  | none => "bad-op"
  | some nodes =>
    let infos := evalDag nodes
    let outs := (List.range nodes.length).map (fun k =>
      match infos[k]?, nodes[k]? with
      | some (some i), some (_, _, refs) =>
        let kids := refs.filterMap (fun j => (infos[j]?).join)
        showInfo i kids
      | _, _ => "err")
    "ok " ++ "|".intercalate outs

def specKind (k : Int) : Option Spec.Kind :=
  if k = -1 then some .ordinary else if k = 1 then some .pruned else if k = 2 then some .library
  else if k = 3 then some .merkleProof else if k = 4 then some .merkleUpdate else none

/-- the SPEC (Spec/Cell.lean) evaluated on a DAG: `mask:h0.h1.h2.h3:d0.d1.d2.d3` per node -/
def handleSpecDag (arg : String) : String :=
  match (arg.splitOn "|").mapM parseNode with
  | none => "bad-op"
  | some nodes =>
    let infos : Array (Option Spec.SInfo) := nodes.foldl (fun acc (kind, bits, refs) =>
      let kids : Option (List Spec.SInfo) := refs.mapM (fun i => (acc[i]?).join)
      acc.push (do let ks ← kids; let k ← specKind kind; pure (Spec.node sha k bits ks))) #[]
    let outs := infos.toList.map (fun o => match o with
      | some s =>
        let hs := (List.range 4).map (fun l => dashHex (s.hashAt l))
        let ds := (List.range 4).map (fun l => toString (s.depthAt l))
        s!"{s.mask}:{".".intercalate hs}:{".".intercalate ds}"
      | none => "err")
    "ok " ++ "|".intercalate outs

/-! ### builder / slice scripts -/

/-- evaluated cell value used as reference type `R` of the builder/slice model -/
inductive RCell where
  | mk (info : CellInfo) (bits : Bits) (refs : List RCell)

def RCell.info : RCell → CellInfo | .mk i _ _ => i
def RCell.bits : RCell → Bits | .mk _ b _ => b
def RCell.refs : RCell → List RCell | .mk _ _ r => r
def RCell.hashHex (c : RCell) : String := hexOfBytes c.info.hash

/-- `Builder.end_cell` for ordinary cells -/
def mkCell (bits : Bits) (refs : List RCell) : Option RCell :=
  (construct sha (-1) bits (refs.map RCell.info)).map (fun i => RCell.mk i bits refs)

def evalRDag (nodes : List (Int × Bits × List Nat)) : Array (Option RCell) :=
  nodes.foldl (fun acc (kind, bits, refs) =>
    let kids : Option (List RCell) := refs.mapM (fun i => (acc[i]?).join)
    acc.push (kids.bind (fun ks => (construct sha kind bits (ks.map RCell.info)).map (fun i => RCell.mk i bits ks)))) #[]

def showBits (b : Bits) : String := if b.isEmpty then "-" else stringOfBits b
def showRefs (rs : List RCell) : String := if rs.isEmpty then "-" else ".".intercalate (rs.map RCell.hashHex)

def parseAddr : List String → Option Addr
  | ["n"] => some Addr.none
  | ["e", l, v] => do pure (Addr.ext (← l.toNat?) (← v.toInt?))
  | ["s", wc, h] => do pure (Addr.std none (← wc.toInt?) (← hexArg h))
  | ["s", wc, h, d, p] => do pure (Addr.std (some (← d.toNat?, ← p.toInt?)) (← wc.toInt?) (← hexArg h))
  | _ => none

def showAddr : Addr → String
  | .none => "n"
  | .ext l v => s!"e:{l}:{v}"
  | .std none wc h => s!"s:{wc}:{dashHex h}"
  | .std (some (d, p)) wc h => s!"s:{wc}:{dashHex h}:{d}:{p}"

def bop (ctx : Array (Option RCell)) (tok : String) : Option (BOp RCell) :=
  let node (s : String) : Option RCell := s.toNat?.bind (fun i => (ctx[i]?).join)
  match tok.splitOn ":" with
  | ["u", v, n] => do pure (BOp.storeUint (← v.toInt?) (← n.toNat?))
  | ["i", v, n] => do pure (BOp.storeInt (← v.toInt?) (← n.toNat?))
  | ["vu", v, k] => do pure (BOp.storeVarUint (← v.toInt?) (← k.toNat?))
  | ["vi", v, k] => do pure (BOp.storeVarInt (← v.toInt?) (← k.toNat?))
  | ["c", v] => do pure (BOp.storeCoins (← v.toInt?))
  | ["b", bs] => do pure (BOp.storeBits (← parseBits bs))
  | ["by", h] => do pure (BOp.storeBytes (← hexArg h))
  | ["bit", b] => some (BOp.storeBit (b == "1"))
  | ["r", n] => do pure (BOp.storeRef (← node n))
  | ["mr", n] => if n == "-" then some (BOp.storeMaybeRef none) else do pure (BOp.storeMaybeRef (some (← node n)))
  | ["cell", n] => do let c ← node n; pure (BOp.storeCell c.bits c.refs)
  | ["sl", n, sb, sr] => do
      let c ← node n
      pure (BOp.storeSlice (c.bits.drop (← sb.toNat?)) (c.refs.drop (← sr.toNat?)))
  | "a" :: rest => do pure (BOp.storeAddress (← parseAddr rest))
  | ["sn", h] => do pure (BOp.storeSnake mkCell (← hexArg h))
  | _ => none

/-- `bscript <dag|-> <ops;...>` → `ok <flags> <bits> <refs> <endcell hash|err>` -/
def handleBScript (dag ops : String) : String :=
  let nodes? := if dag == "-" then some [] else (dag.splitOn "|").mapM parseNode
  match nodes? with
  | none => "bad-op"
  | some nodes =>
    let ctx := evalRDag nodes
    let toks := if ops == "-" then [] else ops.splitOn ";"
    match toks.mapM (bop ctx) with
    | none => "bad-op"
    | some fs =>
      let (b, flags) := fs.foldl (fun (acc : Builder RCell × String) f =>
        let r := f acc.1
        (r.1, acc.2 ++ (if r.2 then "1" else "0"))) (Builder.empty, "")
      let fin := match mkCell b.bits b.refs with | some c => c.hashHex | none => "err"
      s!"ok {if flags.isEmpty then "-" else flags} {showBits b.bits} {showRefs b.refs} {fin}"

def sop (tok : String) (s : Slice RCell) : Option (Slice RCell × String) :=
  let fin {α} (r : Slice RCell × Option α) (f : α → String) : Option (Slice RCell × String) :=
    some (r.1, match r.2 with | some a => f a | none => "x")
  let showInt (i : Int) : String := toString i
  let showOptRef (o : Option RCell) : String := match o with | some c => c.hashHex | none => "none"
  match tok.splitOn ":" with
  | ["lu", n] => do fin (SOp.loadUint (← n.toNat?) s) showInt
  | ["li", n] => do fin (SOp.loadInt (← n.toNat?) s) showInt
  | ["pu", n] => do fin (SOp.preloadUint (← n.toNat?) s) showInt
  | ["pi", n] => do fin (SOp.preloadInt (← n.toNat?) s) showInt
  | ["lb", n] => do fin (SOp.loadBits (← n.toNat?) s) showBits
  | ["pb", n] => do fin (SOp.peekBits (← n.toNat?) s) showBits
  | ["lby", n] => do fin (SOp.loadBytes (← n.toNat?) s) dashHex
  | ["pby", n] => do fin (SOp.preloadBytes (← n.toNat?) s) dashHex
  | ["bit"] => fin (SOp.loadBit s) (fun b => if b then "1" else "0")
  | ["pbit"] => fin (SOp.preloadBit s) (fun b => if b then "1" else "0")
  | ["sk", n] => do fin (SOp.skipBits (← n.toNat?) s) (fun _ => "ok")
  | ["lr"] => fin (SOp.loadRef s) RCell.hashHex
  | ["pr"] => fin (SOp.preloadRef s) RCell.hashHex
  | ["lmr"] => fin (SOp.loadMaybeRef s) showOptRef
  | ["pmr"] => fin (SOp.preloadMaybeRef s) showOptRef
  | ["lvu", k] => do fin (SOp.loadVarUint (← k.toNat?) s) showInt
  | ["pvu", k] => do fin (SOp.preloadVarUint (← k.toNat?) s) showInt
  | ["lvi", k] => do fin (SOp.loadVarInt (← k.toNat?) s) showInt
  | ["pvi", k] => do fin (SOp.preloadVarInt (← k.toNat?) s) showInt
  | ["lc"] => fin (SOp.loadCoins s) showInt
  | ["pc"] => fin (SOp.preloadCoins s) showInt
  | ["la"] => fin (SOp.loadAddress s) showAddr
  | ["pa"] => fin (SOp.preloadAddress s) showAddr
  | ["lall"] => fin (SOp.loadAllBytes s) dashHex
  | ["lsn"] => fin (SOp.loadSnakeFuel (fun c => (c.bits, c.refs)) 2000 s) dashHex
  | _ => none

/-- `sscript <dag> <node> <ops;...>` → `ok <r1>;<r2>;... <remaining bits> <remaining refs>` -/
def handleSScript (dag node ops : String) : String :=
  match (dag.splitOn "|").mapM parseNode, node.toNat? with
  | some nodes, some ni =>
    match ((evalRDag nodes)[ni]?).join with
    | none => "err"
    | some c =>
      let toks := if ops == "-" then [] else ops.splitOn ";"
      let rec go (ts : List String) (s : Slice RCell) (acc : List String) : Option (Slice RCell × List String) :=
        match ts with
        | [] => some (s, acc.reverse)
        | t :: rest => match sop t s with
          | none => none
          | some (s', r) => go rest s' (r :: acc)
      match go toks ⟨c.bits, c.refs⟩ [] with
      | none => "bad-op"
      | some (s, rs) => s!"ok {if rs.isEmpty then "-" else ";".intercalate rs} {showBits s.bits} {showRefs s.refs}"
  | _, _ => "bad-op"

def handle (op : String) (args : List String) : String :=
  match op, args with
  | "crc16", [d] => match hexArg d with
      | some bs => optHex (Model.crc16 bs)
      | none => "bad-op"
  | "crc32c", [d, big] => match hexArg d with
      | some bs => optHex (Model.crc32c bs (big == "1"))
      | none => "bad-op"
  | "sha256", [d] => match hexArg d with
      | some bs => "ok " ++ hexOfBytes (sha bs)
      | none => "bad-op"
  | "celldag", [d] => handleDag d
  | "specdag", [d] => handleSpecDag d
  | "bscript", [dag, ops] => handleBScript dag ops
  | "sscript", [dag, node, ops] => handleSScript dag node ops
  | _, _ => "bad-op"

partial def loop (h : IO.FS.Stream) (out : IO.FS.Stream) : IO Unit := do
  let line ← h.getLine
  if line.isEmpty then return ()
  let ws := (line.trimAscii.toString.splitOn " ").filter (· ≠ "")
  match ws with
  | [] => out.putStrLn "bad-op"
  | op :: args => out.putStrLn (handle op args)
  loop h out

def main : IO Unit := do
  let out ← IO.getStdout
  loop (← IO.getStdin) out
  out.flush
