/-
Meaning of the operations that the alias-graph translator (harness/translate/pyheap.py with the declared interface of
harness/translate/heapsrc.py) emits, over the abstract heap of Model/Heap.lean (`State`: bit containers, list containers, one record
per Python object naming the containers its `.bits` / `.refs` point to).  Hand-written, core Lean only.  This is the translator's
trusted reading of `bitarray.copy()`, `list.copy()`, `list[k:]` (a NEW container with the same content), of the constructors
`Slice(bits, refs, type_)` / `Cell(bits, refs, type_)` (store BOTH pointers as given) and `Builder()` (two new empty containers);
it is validated against CPython object identities on every change (harness/translate/heapsrc.py `validate`).
`Builder.store_cell` / `store_slice` are read as the heap model's own `storeFrom` transition (their bodies are not translated).
-/
import TonVerif.Model.Heap

namespace TonVerif.Py.Heap
open TonVerif TonVerif.Model TonVerif.Model.Heap

/-- `x.copy()` of a bitarray / TvmBitarray held in container `id`: a new container with the same bits; returns its id. -/
def copyBits (σ : State) (id : Nat) : State × Nat := (σ.allocB (σ.bitBuf id), σ.nBit)

/-- `x.copy()` (`k = 0`) / `x[k:]` of the list held in container `id`: a new list with the remaining elements. -/
def copyRefs (σ : State) (id k : Nat) : State × Nat := (σ.allocR ((σ.refBuf id).drop k), σ.nRef)

/-- `Slice(bits, refs, type_)`: the new object points at the two containers it was GIVEN; `ref_offset = 0`.
(`Slice.__init__` wraps a plain `bitarray` into a new `TvmBitarray`; a `TvmBitarray` - what every cell built by the library
holds - is kept as is.  The reading is the pessimistic one: the pointer is kept.) -/
def newSlice (σ : State) (bits refs : Nat) (kind : Int) : State × Nat :=
  (σ.push { ObjRec.blank with tag := .slice, bitsId := bits, refsId := refs, kind := kind }, σ.nObj)

/-- `Cell(bits, refs, type_)`: keeps both pointers, runs the constructor (`none` = it raises). -/
def newCell? (H : Bytes → Bytes) (σ : State) (bits refs : Nat) (kind : Int) : Option (State × Nat) :=
  (mkCellRec H σ bits refs kind (σ.bitBuf bits) (σ.refBuf refs)).map fun c => (σ.push c, σ.nObj)

/-- `Builder()`: a new empty TvmBitarray, a new empty list, `type_ = -1`. -/
def newBuilder (σ : State) : State × Nat :=
  ((((σ.allocB []).allocR []).push { ObjRec.blank with tag := .builder, bitsId := σ.nBit, refsId := σ.nRef }), σ.nObj)

/-- `b.store_cell(x)` / `b.store_slice(x)` (returns `b`): the heap model's `storeFrom` transition; `none` = it raises. -/
def storeFrom? (H : Bytes → Bytes) (σ : State) (b src : Nat) : Option State :=
  match step H σ (.storeFrom b src) with
  | (σ', .unit) => some σ'
  | _ => none

/-- `obj.bits = <container>` / `obj.refs = <container>` on an object the method created itself -/
def setBitsPtr (σ : State) (i id : Nat) : State := σ.setObj i { σ.obj i with bitsId := id }
def setRefsPtr (σ : State) (i id : Nat) : State := σ.setObj i { σ.obj i with refsId := id }

/-- `l.append(x)` on the list held in container `id`: the container is changed IN PLACE (every object pointing at it sees the new
element); the element is the object `c` itself, not a copy. -/
def appendRef (σ : State) (id c : Nat) : State := σ.setR id (σ.refBuf id ++ [c])

/-- `l[k]` for `k ≥ 0` on the list held in container `id`: the very object stored there; `none` = IndexError. -/
def refAt? (σ : State) (id k : Nat) : Option Nat := (σ.refBuf id)[k]?

/-- `self.ref_offset = k`: only the record of object `i` changes. -/
def setOff (σ : State) (i k : Nat) : State := σ.setObj i { σ.obj i with off := k }

/-! ### bit-moving loads / stores (session 5, heapsrc2) -/

/-- `x.extend(v)` on the TvmBitarray held in container `id` (`TvmBitarray.extend`: `check_overflow(len(v))`, then `bitarray.extend`):
raises (`none`, nothing changed) when the result would exceed 1023 bits, otherwise the container is extended IN PLACE by the ITEMS of
`v` — `v` itself is only read, the container keeps no reference to it. -/
def extendBits? (σ : State) (id : Nat) (v : Bits) : Option State :=
  if (σ.bitBuf id).length + v.length > 1023 then none else some (σ.setB id (σ.bitBuf id ++ v))

/-- `x += y` on the list held in container `id` (`list.__iadd__`): extended IN PLACE by the ELEMENTS of the list in container `src`
(the objects themselves); the pointer `x` stays, `y` is only read. -/
def extendRefs (σ : State) (id src : Nat) : State := σ.setR id (σ.refBuf id ++ σ.refBuf src)

/-- `x[:k]` (`k ≥ 0`) of the bit array held in container `id`: a NEW array holding the first `k` bits (fewer if `x` is shorter). -/
def sliceBits (σ : State) (id k : Nat) : State × Nat := (σ.allocB ((σ.bitBuf id).take k), σ.nBit)

/-- `del x[:k]` (`k ≥ 0`) on the TvmBitarray held in container `id` (`TvmBitarray.__delitem__`: `check_underflow(k)` - for `k = 0`
of the whole length, which always passes - then `bitarray.__delitem__`): raises when fewer than `k` bits are there, otherwise the
first `k` bits are removed IN PLACE. -/
def delBits? (σ : State) (id k : Nat) : Option State :=
  if (σ.bitBuf id).length < k then none else some (σ.setB id ((σ.bitBuf id).drop k))

/-- `x.append(b)` / `x.fill()` on the PLAIN bit array held in container `id`: IN PLACE (one more bit / zero bits up to a multiple of 8) -/
def appendBit (σ : State) (id : Nat) (b : Bool) : State := σ.setB id (σ.bitBuf id ++ [b])
def fillBits (σ : State) (id : Nat) : State := σ.setB id (σ.bitBuf id ++ List.replicate ((8 - (σ.bitBuf id).length % 8) % 8) false)

/-- a call made for its VALUE only (`self._data_bytes = self.get_data_bytes()`): what it did to the containers and objects that existed
is kept, the containers it allocated are forgotten (nothing points at them: a plain value was returned).  `none` = it raised. -/
def dropScratch (σ σ' : State) : State :=
  { σ' with nBit := σ.nBit, bitBuf := fun j => if j < σ.nBit then σ'.bitBuf j else σ.bitBuf j }
def scratch {α : Type} (σ : State) (r : Option (State × α)) : Option State := r.map fun p => dropScratch σ p.1

/-- `for i in range(lo, hi): body` with the heap threaded through; `none` = the body raised -/
def forFuel : Nat → Nat → State → (Nat → State → Option State) → Option State
  | 0, _, σ, _ => some σ
  | n + 1, i, σ, f => (f i σ).bind fun σ' => forFuel n (i + 1) σ' f
def forRange (lo hi : Nat) (σ : State) (f : Nat → State → Option State) : Option State := forFuel (hi - lo) lo σ f

/-- `bitarray.util.ba2int(v, signed=False)`: raises on an empty array.  `int2ba(v, n, signed=False)`: raises for `n = 0` and for `v`
outside `[0, 2^n)`.  (The same value functions as `SOp.ba2intU` / `BOp.int2baU` of Model/Builder.lean, C03; repeated here because that
file's `Kind` would clash with the heap model's.) -/
def ba2intU? (v : Bits) : Option Int := if v.isEmpty then none else some (natOfBits v)
def int2baU? (v : Int) (n : Nat) : Option Bits :=
  if n = 0 then none else if v < 0 then none else if v.toNat ≥ 2 ^ n then none else some (natToBits n v.toNat)

/-- a call returning a NEW bit array object (`load_bits` / `preload_bits`: the caller now holds an array pointing at container `p`) -/
def resultBits (σ : State) : Option (State × Nat) → State × Out
  | none => (σ, .err)
  | some (σ', p) => (σ'.push { ObjRec.blank with tag := .ubits, bitsId := p }, .obj σ'.nObj)

/-- a call that consumed bits and returns a plain value (`load_uint`: the int) or its receiver (`skip_bits`); the model reports the
consumed bits `taken` -/
def resultDrop {α : Type} (σ : State) (taken : Bits) : Option (State × α) → State × Out
  | none => (σ, .err)
  | some (σ', _) => (σ', .bits taken)

/-- a mutating call that returns its receiver (`store_*`), as a transition of the heap model (which reports `unit`) -/
def resultUnit (σ : State) : Option (State × Nat) → State × Out
  | none => (σ, .err)
  | some (σ', _) => (σ', .unit)

/-- a method call as a transition of the heap model: a raising call leaves the heap as it was (what it allocated before raising
is unreachable), a returning call yields the new heap and the returned object. -/
def result (σ : State) : Option (State × Nat) → State × Out
  | none => (σ, .err)
  | some (σ', i) => (σ', .obj i)

end TonVerif.Py.Heap
