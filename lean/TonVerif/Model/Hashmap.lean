/-
Model of `pytoniq_core/boc/hashmap/{hashmap,utils,parse}.py` and of the dictionary entry points of
`boc/slice.py` / `boc/builder.py`, mirroring the code with `none` for every raised exception.

Serialiser side (`HashMap.set*`, `build_tree` … `serialize_dict`):
  * the `HashMap.map` dict is an association list in insertion order (`Dict`);
  * keys become `'0'/'1'` strings = `Bits`; `fork_map`/`remove_prefix_map` re-key a dict — their results are
    modelled as lists WITHOUT re-deduplication, which is exact whenever the keys are pairwise distinct and of
    equal length (what `set_int_key` guarantees; `HashMap(map_=…)` injection is outside the model);
  * a value serialiser `(src, dest) -> None` is a function `V → Option (bits, refs)` (what it appends; `none` = raises);
  * every builder overflow raises out of `serialize()`, so only the conjunction of the capacity checks of one cell
    is observable: a cell is written iff its bits ≤ 1023 and refs ≤ 4;
  * the label kind is chosen by `Generated.LabelFns.detect_label_type`, REGENERATED from utils.py on every run.
  * recursion `build_edge → build_node → build_edge` carries fuel (key_size + 1 suffices, proved).

Parser side (`deserialize_unary/hml`, `parse`, `parse_aug`, `parse_hashmap*`, `HashMap.parse/from_cell`,
`Slice.load_dict/preload_dict/load_hashmap_aug_e`): slices are (bits, refs) of the tree `Cell`; `m` is a Python int
(`int.bit_length` is taken of |m|).  Since the `{n <= m}` repair `deserialize_hml` raises when the label it read is longer than
the remaining key (`{n <= m}` of hashmap.tlb), so `m` never goes negative inside a parse that started with `key_len ≥ 0`
(`Proofs/Hashmap.lean: parseEdge_some_nonneg`, `deserializeHml_le`).
-/
import TonVerif.Model.Cell
import TonVerif.Model.Builder
import TonVerif.Generated.LabelFns
namespace TonVerif.Model.Hashmap
open TonVerif TonVerif.Model
open TonVerif.Spec.Hashmap (LabelKind Val)

/-! ### the HashMap object -/

/-- Python `dict` with int keys, insertion ordered -/
abbrev Dict (V : Type) := List (Nat × V)

/-- `d[k] = v` : replaces in place, else appends -/
def dictSet {V} (k : Nat) (v : V) : Dict V → Dict V
  | [] => [(k, v)]
  | (k', v') :: rest => if k' = k then (k', v) :: rest else (k', v') :: dictSet k v rest

def dictGet {V} (k : Nat) : Dict V → Option V
  | [] => none
  | (k', v') :: rest => if k' = k then some v' else dictGet k rest

/-- `HashMap.set_int_key` (after fix F11): `none` = DictError -/
def setIntKey {V} (size : Nat) (k : Int) (v : V) (d : Dict V) : Option (Dict V) :=
  if k < 0 ∨ bitLength k.natAbs > size then none else some (dictSet k.toNat v d)

/-- the key forms `HashMap.set` accepts -/
inductive Key where
  | int (k : Int)                 -- int, or the result of a key_serializer
  | bytes (bs : Bytes)
  | bitstr (s : Bits)             -- '0'/'1' string
  | addr (a : Addr)               -- Address (addr_std, optional anycast)
  | hashed (utf8 : Bytes)         -- hash_key=True : sha256 of the text

/-- key normalisation of `HashMap.set`; `H` = SHA-256 -/
def normKey (H : Bytes → Bytes) : Key → Option Int
  | .int k => some k
  | .bytes bs => some (natOfBE bs)
  | .bitstr s => if s.isEmpty then none else some (natOfBits s)          -- int('', 2) raises
  | .hashed u => some (natOfBE (H u))
  | .addr a =>
    -- Builder().store_address(key).end_cell().begin_parse().load_uint(267)
    let r := BOp.storeAddress (R := Unit) a Builder.empty
    if r.2 then (SOp.loadUint (R := Unit) 267 ⟨r.1.bits, []⟩).2 else none

def set {V} (H : Bytes → Bytes) (size : Nat) (key : Key) (v : V) (d : Dict V) : Option (Dict V) :=
  (normKey H key).bind (fun k => setIntKey size k v d)

/-- a sequence of `set_int_key` calls on a fresh HashMap; `none` = one of them raised -/
def setAll {V} (size : Nat) : List (Int × V) → Dict V → Option (Dict V)
  | [], d => some d
  | (k, v) :: rest, d => (setIntKey size k v d).bind (setAll size rest)

/-! ### build_tree -/

/-- `bin(key)[2:]` -/
def binDigits (k : Nat) : Bits := if k = 0 then [false] else natToBits (bitLength k) k

/-- `pad(bin(key)[2:], key_size)` -/
def keyBits (size k : Nat) : Bits :=
  let b := binDigits k
  List.replicate (size - b.length) false ++ b

def commonPrefix : Bits → Bits → Bits
  | a :: as, b :: bs => if a == b then a :: commonPrefix as bs else []
  | _, _ => []

/-- `<=` on '0'/'1' strings -/
def lexLe : Bits → Bits → Bool
  | [], _ => true
  | _ :: _, [] => false
  | a :: as, b :: bs => if a == b then lexLe as bs else (!a && b)

def lexMin (k : Bits) (ks : List Bits) : Bits := ks.foldl (fun a b => if lexLe a b then a else b) k
def lexMax (k : Bits) (ks : List Bits) : Bits := ks.foldl (fun a b => if lexLe a b then b else a) k

/-- `find_common_prefix`: common prefix of `sorted(src)[0]` and `sorted(src)[-1]` -/
def findCommonPrefix : List Bits → Bits
  | [] => []
  | [k] => k
  | k :: ks => commonPrefix (lexMin k ks) (lexMax k ks)

/-- `fork_map`: `none` = AssertionError -/
def forkMap {V} (src : List (Bits × V)) : Option (List (Bits × V) × List (Bits × V)) :=
  let left := src.filterMap (fun kv => match kv.1 with | false :: t => some (t, kv.2) | _ => none)
  let right := src.filterMap (fun kv => match kv.1 with | false :: _ => none | k => some (k.drop 1, kv.2))
  if left.isEmpty || right.isEmpty then none else some (left, right)

/-- the dict tree of `build_edge`/`build_node`: an edge = label + (leaf value | two child edges) -/
inductive Edge (V : Type) where
  | leaf (label : Bits) (v : V)
  | fork (label : Bits) (l r : Edge V)

/-- `build_edge` (with `build_node` inlined) -/
def buildEdge {V} : Nat → List (Bits × V) → Option (Edge V)
  | 0, _ => none
  | fuel + 1, src =>
    if src.isEmpty then none else
    let label := findCommonPrefix (src.map (·.1))
    let rest := src.map (fun kv => (kv.1.drop label.length, kv.2))
    match rest with
    | [(_, v)] => some (.leaf label v)
    | _ =>
      match forkMap rest with
      | none => none
      | some (l, r) =>
        match buildEdge fuel l, buildEdge fuel r with
        | some le, some re => some (.fork label le re)
        | _, _ => none

/-- `build_tree` -/
def buildTree {V} (size : Nat) (d : Dict V) : Option (Edge V) :=
  buildEdge (size + 1) (d.map (fun kv => (keyBits size kv.1, kv.2)))

/-! ### write_label / write_edge / serialize_dict -/

/-- bits appended by `write_label(src, key_size, to)`; `none` = `store_uint` raised -/
def labelBits (s : Bits) (keySize : Nat) : Option Bits :=
  match Generated.LabelFns.detect_label_type s keySize with
  | .short => some (false :: (List.replicate s.length true ++ false :: s))
  | .long => (BOp.int2baU s.length (bitLength keySize)).map (fun lb => true :: false :: (lb ++ s))
  | .same => (BOp.int2baU s.length (bitLength keySize)).map (fun lb => true :: true :: (s.headD false) :: lb)

/-- `write_edge` + `end_cell` of the children (cell construction itself — the depth limit — is C01's `Cell.info`) -/
def writeEdge {V} (ser : V → Option Val) : Edge V → Nat → Option Cell
  | .leaf s v, n => do
    let lb ← labelBits s n
    let (vb, vr) ← ser v
    if (lb ++ vb).length > 1023 ∨ vr.length > 4 then none else some (.mk (-1) (lb ++ vb) vr)
  | .fork s l r, n => do
    let lb ← labelBits s n
    if lb.length > 1023 then none else
    let m := n - s.length - 1
    let lc ← writeEdge ser l m
    let rc ← writeEdge ser r m
    some (.mk (-1) lb [lc, rc])

/-- `HashMap.serialize()`: `some none` = returns None (empty map), `none` = raises -/
def serialize {V} (size : Nat) (ser : V → Option Val) (d : Dict V) : Option (Option Cell) :=
  if d.isEmpty then some none
  else do
    let t ← buildTree size d
    let c ← writeEdge ser t size
    some (some c)

/-! ### one `HashMap` object under a history of calls -/

/-- the calls a user makes on ONE `HashMap` object: `set_int_key(k, v)` (a rejected key raises and leaves the object as it
was) and `serialize()` (returns a value; the object has no other state than its `map`). -/
inductive HOp (V : Type) where
  | set (k : Int) (v : V)
  | serialize

/-- run a history on an object whose map is `d`: final map, and the results of the `serialize()` calls in call order -/
def runOps {V} (size : Nat) (ser : V → Option Val) : List (HOp V) → Dict V → Dict V × List (Option (Option Cell))
  | [], d => (d, [])
  | .set k v :: rest, d => runOps size ser rest ((setIntKey size k v d).getD d)
  | .serialize :: rest, d =>
    let r := runOps size ser rest d
    (r.1, serialize size ser d :: r.2)

/-- the `set` calls of a history -/
def setsOf {V} : List (HOp V) → List (Int × V)
  | [] => []
  | .set k v :: rest => (k, v) :: setsOf rest
  | .serialize :: rest => setsOf rest

/-- a history's `set` calls applied leniently (a rejected one is skipped, as the exception leaves the object unchanged) -/
def applySets {V} (size : Nat) : List (Int × V) → Dict V → Dict V
  | [], d => d
  | (k, v) :: rest, d => applySets size rest ((setIntKey size k v d).getD d)

/-! ### parser -/

/-- `deserialize_unary` : (n, rest); `none` = ran out of bits -/
def readUnary : Bits → Option (Nat × Bits)
  | [] => none
  | false :: r => some (0, r)
  | true :: r => (readUnary r).map (fun p => (p.1 + 1, p.2))

/-- `ser.load_bits(n)` on a TvmBitarray: underflow raises -/
def loadBits (n : Nat) (bits : Bits) : Option (Bits × Bits) :=
  if bits.length < n then none else some (bits.take n, bits.drop n)

/-- `ser.load_uint(l)` (`ba2int` of an empty bitarray raises) -/
def loadUint (l : Nat) (bits : Bits) : Option (Nat × Bits) :=
  if l = 0 ∨ bits.length < l then none else some (natOfBits (bits.take l), bits.drop l)

/-- `#<= m` as read by `deserialize_hml` after the fix: zero-width field = 0 -/
def loadLen (m : Int) (bits : Bits) : Option (Nat × Bits) :=
  let l := bitLength m.natAbs
  if l = 0 then some (0, bits) else loadUint l bits

/-- the three constructor branches of `deserialize_hml(ser, m)` up to (not including) its final `if n > m: raise`:
(n, s, rest) -/
def readHml (bits : Bits) (m : Int) : Option (Nat × Bits × Bits) :=
  match bits with
  | [] => none
  | false :: r => do
    let (n, r1) ← readUnary r
    let (s, r2) ← loadBits n r1
    some (n, s, r2)
  | true :: [] => none
  | true :: false :: r => do
    let (n, r1) ← loadLen m r
    let (s, r2) ← loadBits n r1
    some (n, s, r2)
  | true :: true :: [] => none
  | true :: true :: v :: r => do
    let (n, r1) ← loadLen m r
    some (n, List.replicate n v, r1)

/-- `deserialize_hml(ser, m)` : (n, s, rest).  After the `{n <= m}` repair the function ends with `if n > m: raise ValueError`
(`{n <= m}` in all three `HmLabel` constructors): a label longer than the remaining key is refused. -/
def deserializeHml (bits : Bits) (m : Int) : Option (Nat × Bits × Bits) :=
  match readHml bits m with
  | none => none
  | some (n, s, rest) => if (n : Int) > m then none else some (n, s, rest)

mutual
  /-- `parse(slice, key_length, ret_dict, prefix)` + `deserialize_hashmap_node`; returns the entries added, in order -/
  def parseEdge : Cell → Int → Bits → Option (List (Bits × Val))
    | .mk kind bits refs, keyLen, pfx =>
      match deserializeHml bits keyLen with
      | none => none
      | some (n, s, rest) =>
        let pfx' := pfx ++ s
        let m := keyLen - n
        if kind ≠ -1 then some []
        else if m = 0 then (if pfx'.isEmpty then some [] else some [(pfx', (rest, refs))])
        else parseFork refs (m - 1) pfx'
  def parseFork : List Cell → Int → Bits → Option (List (Bits × Val))
    | l :: r :: _, m, pfx =>
      match parseEdge l m (pfx ++ [false]), parseEdge r m (pfx ++ [true]) with
      | some a, some b => some (a ++ b)
      | _, _ => none
    | _, _, _ => none
end

/-- `parse_hashmap(dict_cell.begin_parse(), key_len)` (keys are bit strings) -/
def parseHashmap (c : Cell) (n : Nat) : Option (List (Bits × Val)) := parseEdge c n []

inductive PResult (α : Type) where
  | err            -- raises
  | none           -- returns None
  | dict (kv : α)
  deriving Repr

/-- `{int(i, 2): j for i, j in dict_result.items()}` -/
def intKeys {V} (kv : List (Bits × V)) : Dict V := kv.foldl (fun d p => dictSet (natOfBits p.1) p.2 d) []

/-- `HashMap.parse(cell.begin_parse(), key_length)` with the default key deserialiser and no value deserialiser -/
def hashMapParse (c : Cell) (n : Nat) : PResult (Dict Val) :=
  match c with
  | .mk kind _ _ =>
    if kind ≠ -1 then .none
    else match parseHashmap c n with
      | none => .err
      | some kv => .dict (intKeys kv)

/-- `HashMap.from_cell(cell, key_length).map` -/
def fromCell (c : Cell) (n : Nat) : Option (Dict Val) := (parseHashmap c n).map intKeys

/-- `Builder.store_dict(cell_or_None)` on a fresh builder, then `end_cell()` -/
def storeDictCell (d : Option Cell) : Cell :=
  match d with
  | none => .mk (-1) [false] []
  | some c => .mk (-1) [true] [c]

/-- `Slice.load_dict(key_length)` / `preload_dict` (same result; they differ only in what is consumed) -/
def loadDict (bits : Bits) (refs : List Cell) (n : Nat) : PResult (Dict Val) :=
  match bits with
  | [] => .err
  | false :: _ => .none
  | true :: _ =>
    match refs with
    | [] => .err
    | c :: _ => hashMapParse c n

/-! ### augmented dictionaries -/

open TonVerif.Spec.Hashmap (AugDec)

mutual
  /-- `parse_aug` + `deserialize_hashmap_aug_node` : entries and extras appended, in order -/
  def parseAugEdge {X Y : Type} (D : AugDec X Y) : Cell → Int → Bits → Option (List (Bits × X) × List Y)
    | .mk kind bits refs, keyLen, pfx =>
      if kind ≠ -1 then some ([], [])
      else match deserializeHml bits keyLen with
      | none => none
      | some (n, s, rest) =>
        let pfx' := pfx ++ s
        let m := keyLen - n
        if m = 0 then
          match D.decY (rest, refs) with
          | none => none
          | some (y, sl) =>
            match D.decX sl with
            | none => none
            | some x => some ([(pfx', x)], [y])
        else parseAugFork D refs rest (m - 1) pfx'
  def parseAugFork {X Y : Type} (D : AugDec X Y) : List Cell → Bits → Int → Bits → Option (List (Bits × X) × List Y)
    | l :: r :: refs, rest, m, pfx =>
      match parseAugEdge D l m (pfx ++ [false]), parseAugEdge D r m (pfx ++ [true]) with
      | some (a, ea), some (b, eb) =>
        match D.decY (rest, refs) with
        | none => none
        | some (y, _) => some (a ++ b, ea ++ eb ++ [y])
      | _, _ => none
    | _, _, _, _ => none
end

/-- `parse_hashmap_aug(cell.begin_parse(), key_len, x, y)`; keys via `int(i, 2)` (raises on the empty key) -/
def parseHashmapAug {X Y : Type} (D : AugDec X Y) (c : Cell) (n : Nat) : PResult (Dict X × List Y) :=
  match c with
  | .mk kind _ _ =>
    if kind ≠ -1 then .none
    else match parseAugEdge D c n [] with
      | none => .err
      | some (kv, extras) =>
        if kv.any (fun p => p.1.isEmpty) then .err else .dict (intKeys kv, extras)

/-- result of `Slice.load_hashmap_aug_e` (with a `y_deserializer`, as every caller in tlb/ passes one) -/
inductive AugE (X Y : Type) where
  | err
  | none                                   -- parse_hashmap_aug returned None (referenced root is exotic)
  | cell                                   -- the slice itself is special: returned as a cell
  | empty (extra : Y)                      -- `ahme_empty$0 extra:Y` : ({}, [extra])
  | dict (kv : Dict X) (extras : List Y)

/-- `ahme_empty$0 extra:Y` / `ahme_root$1 root:^(HashmapAug n X Y) extra:Y`: since fix f2933e1 the top-level extra is read
(and dropped) after the root, so it must be readable; the result is what `parse_hashmap_aug` returns for the root. -/
def loadHashmapAugE {X Y : Type} (D : AugDec X Y) (kind : Int) (bits : Bits) (refs : List Cell) (n : Nat) : AugE X Y :=
  if kind ≠ -1 then .cell
  else match bits with
  | [] => .err
  | false :: rest =>
    match D.decY (rest, refs) with
    | none => .err
    | some (y, _) => .empty y
  | true :: rest =>
    match refs with
    | [] => .err
    | c :: more =>
      match parseHashmapAug D c n with
      | .err => .err
      | .none => (match D.decY (rest, more) with | none => .err | some _ => .none)
      | .dict (kv, ex) => (match D.decY (rest, more) with | none => .err | some _ => .dict kv ex)

end TonVerif.Model.Hashmap
