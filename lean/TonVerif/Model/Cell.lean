/-
Model of `pytoniq_core/boc/cell.py` (construction: `resolve_mask`, `calculate_hashes`,
descriptors, data bytes) and `boc/exotic.py:LevelMask`, mirroring the code
statement by statement, with `none` for every raised exception.
The hash function is a parameter `H` (SHA-256 in the driver).
-/
import TonVerif.Basic
namespace TonVerif.Model

/-- `int.bit_length()` -/
def bitLength : Nat → Nat
  | 0 => 0
  | n+1 => 1 + bitLength ((n+1) / 2)
decreasing_by omega

/-- `bin(m).count("1")` -/
def popcount : Nat → Nat
  | 0 => 0
  | n+1 => (n+1) % 2 + popcount ((n+1) / 2)
decreasing_by omega

/-- `LevelMask.apply(level).mask` : `m & ((1 << level) - 1)` -/
def maskApply (m level : Nat) : Nat := m % 2 ^ level

/-- `LevelMask.is_significant` -/
def isSignificant (m level : Nat) : Bool := level == 0 || (m >>> (level - 1)) % 2 != 0

/-- `LevelMask.get_hash_index()` after `apply(level)`. -/
def hashIndexAt (m level : Nat) : Nat := popcount (maskApply m level)

/-- cell types as in `CellTypes` -/
def kOrdinary : Int := -1
def kPruned : Int := 1
def kLibrary : Int := 2
def kMerkleProof : Int := 3
def kMerkleUpdate : Int := 4

/-- what a constructed `Cell` object caches and what other cells read from it. -/
structure CellInfo where
  kind : Int
  bits : Bits
  nrefs : Nat
  mask : Nat
  hashes : List Bytes       -- `_hashes`
  depths : List Nat         -- `_depths`
  deriving Repr, BEq, DecidableEq

/-- `get_data_bytes`: completion tag + zero fill when not byte aligned, then `tobytes()`. -/
def dataBytes (bits : Bits) : Bytes :=
  if bits.length % 8 != 0 then bitsToBytes (bits ++ [true]) else bitsToBytes bits

/-- python slice `xs[a:b]` on lists (never raises). -/
def pySlice (xs : List α) (a b : Nat) : List α := (xs.take b).drop a

/-- `Cell.get_hash(lvl)`; `none` = IndexError. -/
def CellInfo.getHash (c : CellInfo) (lvl : Nat) : Option Bytes :=
  let hi := hashIndexAt c.mask lvl
  if c.kind == kPruned then
    let pi := popcount c.mask
    if hi != pi then
      some (pySlice (dataBytes c.bits) (2 + hi * 32) (2 + (hi + 1) * 32))
    else c.hashes[0]?
  else c.hashes[hi]?

/-- `Cell.get_depth(lvl)`; `none` = IndexError. -/
def CellInfo.getDepth (c : CellInfo) (lvl : Nat) : Option Nat :=
  let hi := hashIndexAt c.mask lvl
  if c.kind == kPruned then
    let pi := popcount c.mask
    if hi != pi then
      let off := 2 + 32 * pi + hi * 2
      some (natOfBE (pySlice (dataBytes c.bits) off (off + 2)))
    else c.depths[0]?
  else c.depths[hi]?

/-- `resolve_mask` -/
def resolveMask (kind : Int) (bits : Bits) (refs : List CellInfo) : Option Nat :=
  if kind == kOrdinary then some (refs.foldl (fun m r => m ||| r.mask) 0)
  else if kind == kPruned then
    if !refs.isEmpty then none
    else
      let s := pySlice bits 8 16
      if s.isEmpty then none else some (natOfBits s)     -- int('', 2) raises
  else if kind == kMerkleProof then
    match refs with
    | r0 :: _ => some (r0.mask >>> 1)
    | [] => none
  else if kind == kMerkleUpdate then
    match refs with
    | r0 :: r1 :: _ => some ((r0.mask ||| r1.mask) >>> 1)
    | _ => none
  else if kind == kLibrary then some 0
  else none

/-- `get_refs_descriptor` + `get_bits_descriptor`; `none` = `to_bytes(1)` overflow. -/
def descriptors (nrefs : Nat) (exotic : Bool) (bitLen : Nat) (mask : Nat) : Option Bytes := do
  let d1 ← toBytesBE? 1 (nrefs + 8 * (if exotic then 1 else 0) + 32 * mask)
  let d2 ← toBytesBE? 1 ((bitLen / 8) * 2 + (if bitLen % 8 != 0 then 1 else 0))
  pure (d1 ++ d2)

def isMerkle (kind : Int) : Bool := kind == kMerkleProof || kind == kMerkleUpdate

structure HashState where
  hashIndex : Nat
  hashes : List Bytes
  depths : List Nat

/-- one iteration of the `for li in range(0, level + 1)` loop of `calculate_hashes`. -/
def hashStep (H : Bytes → Bytes) (kind : Int) (bits : Bits) (refs : List CellInfo) (mask offset : Nat)
    (st : HashState) (li : Nat) : Option HashState :=
  if !isSignificant mask li then some st
  else if st.hashIndex < offset then some { st with hashIndex := st.hashIndex + 1 }
  else do
    let dsc ← descriptors refs.length (kind != kOrdinary) bits.length (maskApply mask li)
    let payload ←
      if st.hashIndex == offset then
        (if li != 0 && kind != kPruned then none else some (dataBytes bits))
      else
        (if li == 0 || kind == kPruned then none else st.hashes[st.hashIndex - offset - 1]?)
    let childLvl := if isMerkle kind then li + 1 else li
    let refDepths ← refs.mapM (fun r => r.getDepth childLvl)
    let depthBytes ← refDepths.mapM (toBytesBE? 2)
    let depth0 := refDepths.foldl (fun d x => if x > d then x else d) 0
    let depth ← (if refs.length > 0 then (if depth0 + 1 >= 1024 then none else some (depth0 + 1)) else some depth0)
    let refHashes ← refs.mapM (fun r => r.getHash childLvl)
    let h := H (dsc ++ payload ++ depthBytes.flatten ++ refHashes.flatten)
    pure { hashIndex := st.hashIndex + 1, hashes := st.hashes ++ [h], depths := st.depths ++ [depth] }

/-- `Cell.__init__`: `none` = the constructor raises. -/
def construct (H : Bytes → Bytes) (kind : Int) (bits : Bits) (refs : List CellInfo) : Option CellInfo := do
  let mask ← resolveMask kind bits refs
  let total := popcount mask + 1
  let hashCount := if kind == kPruned then 1 else total
  let offset := total - hashCount
  let level := bitLength mask
  let st ← (List.range (level + 1)).foldlM (hashStep H kind bits refs mask offset) ⟨0, [], []⟩
  -- self._descriptors = self.get_descriptors(self.level_mask); self._hash = self._hashes[-1]
  let _ ← descriptors refs.length (kind != kOrdinary) bits.length mask
  let _ ← st.hashes.getLast?
  pure { kind := kind, bits := bits, nrefs := refs.length, mask := mask, hashes := st.hashes, depths := st.depths }

/-- `Cell.hash` (`_hashes[-1]`). -/
def CellInfo.hash (c : CellInfo) : Bytes := c.hashes.getLast?.getD []

/-- `Cell.__hash__` : `int.from_bytes(self._hash, 'big')`. -/
def CellInfo.pyHash (c : CellInfo) : Nat := natOfBE c.hash

/-- `Cell.__eq__`. -/
def CellInfo.pyEq (a b : CellInfo) : Bool := a.hash == b.hash

/-- `Cell.get_representation` (after fix F1); needs the children. -/
def representation (c : CellInfo) (refs : List CellInfo) : Option Bytes := do
  let descs ← descriptors c.nrefs (c.kind != kOrdinary) c.bits.length c.mask
  let data ← (if c.hashes.length > 1 then c.hashes[c.hashes.length - 2]? else some (dataBytes c.bits))
  let level := bitLength c.mask
  let lvl := if isMerkle c.kind then level + 1 else level
  let ds ← refs.mapM (fun r => (r.getDepth lvl).bind (toBytesBE? 2))
  let hs ← refs.mapM (fun r => r.getHash lvl)
  pure (descs ++ data ++ ds.flatten ++ hs.flatten)

/-- Trees of cells (sharing is unobservable on immutable values). -/
inductive Cell where
  | mk (kind : Int) (bits : Bits) (refs : List Cell)
  deriving Repr

mutual
  def Cell.info (H : Bytes → Bytes) : Cell → Option CellInfo
    | .mk kind bits refs => do
      let rs ← Cell.infos H refs
      construct H kind bits rs
  def Cell.infos (H : Bytes → Bytes) : List Cell → Option (List CellInfo)
    | [] => some []
    | c :: cs => do
      let i ← Cell.info H c
      let is ← Cell.infos H cs
      pure (i :: is)
end

end TonVerif.Model
