/-
A `BlockIdExt` object (pytoniq_core/tl/block.py) as far as `check_shard_proof` reads it: its five attributes.
`a == b` (`BlockIdExt.__eq__`) compares exactly these five attributes (checked against the source on every run by
harness/translate/prooffull.py `blockid_eq_fields`), i.e. it is equality of the structure.
-/
import TonVerif.Basic
namespace TonVerif.Model

structure BlkId where
  workchain : Int
  shard : Int
  seqno : Int
  rootHash : Bytes
  fileHash : Bytes
deriving DecidableEq, Repr

end TonVerif.Model
