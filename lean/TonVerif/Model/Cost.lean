/-
C19 cost model: step-counting versions of the library's algorithms AS CODED.

A *step* is one iteration of a Python-level loop or one call of a recursive parser function; the
functions below return how many steps the code performs on an input (they do not compute the
functional result).  C-level work (slicing, hashing, bitarray ops) is not counted.

* §1 `orderRun`     : `Cell.order` (iterative, visited set, since fix 563b428) on a DAG given as a node list
* §2 `toBocSteps`   : `Cell.to_boc` = order + index maps + per-cell serialisation + optional index/CRC
* §3 `bocCost`      : `Boc.deserialize_boc_header` + the three loops of `Boc.deserialize`
* §4 `dictParse`    : `hashmap.parse.parse` / `deserialize_hashmap_node`
* §5 `Tl.deser`     : `TlSchemas.deserialize` with explicit fuel (recursion depth) and loop fuel

Upper-bound convention: checks of the code that *bound a loop* (length / count comparisons, running out of
bytes) are modelled exactly; data *validity* failures that can only cut the work short (CRC mismatch, exotic
cell type byte, constructor failures in the second BoC loop) are not modelled, the model continues.
Import-free of Mathlib (linked into the driver).
-/
import TonVerif.Basic
import TonVerif.Model.Cell

namespace TonVerif.Model.Cost
open TonVerif TonVerif.Model

/-! ## 1. `Cell.order` on a DAG -/

/-- a distinct cell: `size` = len(descriptors + padded data) in bytes, `kids` = indices of the referenced cells -/
structure Node where
  size : Nat
  kids : List Nat
  deriving Repr, Inhabited

/-- node `v` of the list is the distinct cell number `v` -/
abbrev Dag := List Node

def kidsOf (g : Dag) (v : Nat) : List Nat :=
  match g[v]? with
  | some nd => nd.kids
  | none => []

def deg (g : Dag) (v : Nat) : Nat := (kidsOf g v).length

/-- Σ_{v<n} f v -/
def sumTo (f : Nat → Nat) : Nat → Nat
  | 0 => 0
  | n+1 => sumTo f n + f n

/-- number of references `e` of the DAG -/
def edges (g : Dag) : Nat := sumTo (deg g) g.length

/-- every reference points to a node of the list -/
def Dag.WF (g : Dag) : Prop := ∀ v c, c ∈ kidsOf g v → c < g.length

/-- state of the `while stack:` loop.  `stack` head = top; `post` = `reversed(post_order)`. -/
structure OSt where
  stack : List (Nat × Bool)
  visited : List Nat
  post : List Nat
  steps : Nat
  deriving Repr

/-- one iteration of `while stack:` (precondition: stack non-empty) -/
def orderStep (g : Dag) (s : OSt) : OSt :=
  match s.stack with
  | [] => s
  | (v, true) :: rest => { s with stack := rest, post := v :: s.post, steps := s.steps + 1 }
  | (v, false) :: rest =>
    if v ∈ s.visited then { s with stack := rest, steps := s.steps + 1 }
    else { stack := ((kidsOf g v).map (fun c => (c, false))).reverse ++ (v, true) :: rest,
           visited := v :: s.visited, post := s.post, steps := s.steps + 1 }

/-- the loop with explicit fuel -/
def orderLoop (g : Dag) : Nat → OSt → OSt
  | 0, s => s
  | f+1, s => if s.stack.isEmpty then s else orderLoop g f (orderStep g s)

def orderInit (root : Nat) : OSt := { stack := [(root, false)], visited := [], post := [], steps := 0 }

/-- `Cell.order()` from `root`, fuel `1 + n + e` (shown sufficient: `Proofs.Cost.order_terminates`) -/
def orderRun (g : Dag) (root : Nat) : OSt := orderLoop g (1 + g.length + edges g) (orderInit root)

/-- iterations of the `while stack:` loop -/
def orderVisits (g : Dag) (root : Nat) : Nat := (orderRun g root).steps

/-- `while` iterations + iterations of `for cell in reversed(post_order)` -/
def orderSteps (g : Dag) (root : Nat) : Nat := (orderRun g root).steps + (orderRun g root).post.length

/-! ### the code before fix 563b428 (recursive, no visited set) — for contrast only -/

/-- calls of the old recursive `order` (every path is walked); fuel = depth -/
def oldOrderCalls (g : Dag) : Nat → Nat → Nat
  | 0, _ => 0
  | f+1, v => 1 + ((kidsOf g v).map (oldOrderCalls g f)).sum

/-! ## 2. `Cell.to_boc` -/

/-- `(x.bit_length() + 7) // 8` -/
def byteLen (x : Nat) : Nat := (bitLength x + 7) / 8

structure BocOut where
  cells : Nat        -- cells_num
  refs : Nat         -- references written
  cellsLen : Nat
  payload : Nat      -- len(payload)
  payloadLen : Nat
  bytes : Nat        -- len(result)
  steps : Nat
  deriving Repr

def toBoc (g : Dag) (root : Nat) (hasIdx hasCrc hasCache : Bool) : BocOut :=
  let s := orderRun g root
  let cells := s.post.length
  let refs := (s.post.map (deg g)).sum
  let cellsLen := byteLen cells
  let payload := (s.post.map (fun v => (g[v]?.map (·.size)).getD 0 + deg g v * cellsLen)).sum
  let maxOff := if hasCache then payload * 2 else payload
  let payloadLen := byteLen maxOff
  let pre := 4 + 1 + 1 + 3 * cellsLen + payloadLen + cellsLen + (if hasIdx then cells * payloadLen else 0) + payload
  let bytes := pre + (if hasCrc then 4 else 0)
  -- while loop + reversed(post_order) loop + enumerate comprehension + serialize loop (+ one per reference)
  -- + index loop + CRC loop over every byte before the checksum
  let steps := s.steps + cells + cells + (cells + refs) + (if hasIdx then cells else 0) + (if hasCrc then pre else 0)
  { cells, refs, cellsLen, payload, payloadLen, bytes, steps }

def toBocSteps (g : Dag) (root : Nat) (hasIdx hasCrc hasCache : Bool) : Nat := (toBoc g root hasIdx hasCrc hasCache).steps

/-- hashing work at construction: one pass over the references per significant level (≤ 4), per distinct cell -/
def hashWork (g : Dag) : Nat := sumTo (fun v => 4 * (1 + deg g v)) g.length

/-! ### `Cell.__init__` = `resolve_mask` + `calculate_hashes`, one call per distinct cell

The constructor never descends into the referenced cells: it reads their cached `level_mask`, `_depths[i]`, `_hashes[i]`
(`get_depth` / `get_hash` are list lookups).  Building a DAG = one constructor call per distinct cell, children first. -/

/-- loop iterations of one constructor call: the `for r in self.refs` loop of `resolve_mask`, then per iteration of
`for li in range(level + 1)` (`lv` of them, `level ≤ 3`): the iteration itself, the depth loop and the hash loop over the
references.  (Upper bound: insignificant / skipped levels `continue` before the two inner loops.) -/
def ctorSteps (lv d : Nat) : Nat := d + lv * (1 + 2 * d)

/-- bytes fed to SHA-256 by one constructor call: per level the 2 descriptor bytes + the data (level 0; `size` counts
descriptors + data) or the previous 32-byte hash (higher levels), then 2 + 32 bytes per reference -/
def ctorBytes (lv d size : Nat) : Nat := lv * (max size 34 + 34 * d)

/-- constructing every cell of the DAG once (`lv v` = levels hashed for cell `v`) -/
def buildSteps (lv : Nat → Nat) (g : Dag) : Nat := sumTo (fun v => ctorSteps (lv v) (deg g v)) g.length
def buildBytes (lv : Nat → Nat) (g : Dag) : Nat :=
  sumTo (fun v => ctorBytes (lv v) (deg g v) ((g[v]?.map (·.size)).getD 0)) g.length

/-- Σ of descriptor + data bytes over the distinct cells -/
def cellBytes (g : Dag) : Nat := sumTo (fun v => (g[v]?.map (·.size)).getD 0) g.length

/-- for contrast: hashing WITHOUT the per-cell cache (recompute the children's hashes on every path, the way the recursive
`order` before 563b428 walked every path): constructor calls from cell `v`, fuel = depth -/
def rehashCalls (g : Dag) : Nat → Nat → Nat := oldOrderCalls g

/-! ## 3. BoC parsing -/

/-- python `bs[a:b]` -/
def sl (bs : Bytes) (a b : Nat) : Bytes := (bs.take b).drop a

/-- `data_len - i < need` over Python ints (`i` may exceed `data_len`) -/
def short (n i need : Nat) : Bool := n < i + need

structure BocCost where
  hdr : Nat := 0      -- iterations of the header comprehensions (3 size fields, root list, index)
  crc : Nat := 0      -- bytes run through the Python-level CRC loop
  loop1 : Nat := 0    -- `for ci in range(cells_num)` iterations started (incl. the one that raises)
  refs1 : Nat := 0    -- `for r in range(total_refs)` iterations in deserialize_cell
  loop2 : Nat := 0    -- `for ci in reversed(range(cells_num))`
  refs2 : Nat := 0    -- `for ri in range(len(c['refs']))`
  loop3 : Nat := 0    -- `for ri in header['root_list']`
  deriving Repr

def BocCost.outer (c : BocCost) : Nat := c.loop1 + c.loop2 + c.loop3
def BocCost.total (c : BocCost) : Nat := c.hdr + c.crc + c.loop1 + c.refs1 + c.loop2 + c.refs2 + c.loop3

/-- `is_absent` of `deserialize_cell` -/
def cellAbsent (d1 : Nat) : Bool := d1 % 8 == 7 && d1 / 16 % 2 == 1

/-- bytes `deserialize_cell` requires after the two descriptor bytes: stored hashes/depths + data + reference indices -/
def cellNeed (sb d1 d2 : Nat) : Nat :=
  let hc := popcount (d1 / 32) + 1
  (if d1 / 16 % 2 == 1 then hc * 32 + hc * 2 else 0) + (d2 / 2 + d2 % 2) + sb * (d1 % 8)

/-- the first loop of `deserialize`: `cnt` = cells still to read, `data` = `cells_data[i:]`.
Returns (iterations started, ref-loop iterations, completed without raising). -/
def cellLoop (sb : Nat) : Nat → Bytes → Nat × Nat × Bool
  | 0, _ => (0, 0, true)
  | cnt+1, d1 :: d2 :: rest =>
    if cellAbsent d1 then (1, 0, false) else                           -- absent cell
    if rest.length < cellNeed sb d1 d2 then (1, 0, false) else         -- 'Not enough bytes to encode cell data'
    let r := cellLoop sb cnt (rest.drop (cellNeed sb d1 d2))
    (r.1 + 1, r.2.1 + d1 % 8, r.2.2)
  | _+1, _ => (1, 0, false)                                            -- data[0] / data[1] IndexError

def magicGen : Bytes := [0xb5, 0xee, 0x9c, 0x72]
def magicIdx : Bytes := [0x68, 0xff, 0x65, 0xf3]
def magicIdxCrc : Bytes := [0xac, 0xc3, 0xa7, 0x28]

/-- `deserialize_boc_header` after the size fields are read, then the three loops of `deserialize`.
(`sb` = size_bytes ≥ 1, `ob` = offset_bytes; every `short` test is one of the code's length checks) -/
def bocBody (bs : Bytes) (isGen hasIdx hasCrc : Bool) (sb ob cellsNum rootsNum tot : Nat) : BocCost :=
  let n := bs.length
  let i0 := 6 + 3 * sb + ob
  let rootBytes := if isGen then rootsNum * sb else 0      -- legacy magics: no root list
  let rootIters := if isGen then rootsNum else 0
  let idxBytes := if hasIdx then cellsNum * ob else 0
  let idxIters := if hasIdx then cellsNum else 0
  let crcBytes := if hasCrc then 4 else 0
  let i2 := i0 + rootBytes + idxBytes
  let i3 := i2 + tot
  if short n i0 rootBytes then { hdr := 3 } else              -- "Not enough bytes for encoding root cells hashes"
  if !isGen && rootsNum != 1 then { hdr := 3 } else           -- "expected exactly one root in indexed boc"
  if short n (i0 + rootBytes) idxBytes then { hdr := 3 + rootIters } else   -- "Not enough bytes for index encoding"
  if hasIdx && ob == 0 then { hdr := 3 + rootIters } else     -- range(i, end, 0): ValueError
  if short n i2 tot then { hdr := 3 + rootIters + idxIters } else           -- "Not enough bytes for cells data"
  if short n i3 crcBytes then { hdr := 3 + rootIters + idxIters } else      -- "Not enough bytes for crc32c hashsum"
  let crc := if hasCrc then i3 else 0                         -- crc32c(data[:i]) : Python loop over i bytes
  if n != i3 + crcBytes then { hdr := 3 + rootIters + idxIters, crc := crc } else   -- "Too many bytes in boc"
  let r := cellLoop sb cellsNum (sl bs i2 i3)
  if !r.2.2 then { hdr := 3 + rootIters + idxIters, crc := crc, loop1 := r.1, refs1 := r.2.1 } else
  { hdr := 3 + rootIters + idxIters, crc := crc, loop1 := r.1, refs1 := r.2.1,
    loop2 := cellsNum, refs2 := r.2.1, loop3 := rootsNum }

/-- header size check, the three size fields, then `bocBody` -/
def bocGuarded (bs : Bytes) (isGen hasIdx hasCrc : Bool) (sb ob : Nat) : BocCost :=
  if bs.length - 5 < 1 + 3 * sb then {} else           -- "can't parse boc header" (`1 + 3 * size_bytes` since fix 36d5bc1)
  if sb == 0 then {} else                              -- range(6, end, 0): ValueError
  bocBody bs isGen hasIdx hasCrc sb ob (natOfBE (sl bs 6 (6 + sb))) (natOfBE (sl bs (6 + sb) (6 + 2 * sb)))
    (natOfBE (sl bs (6 + 3 * sb) (6 + 3 * sb + ob)))

/-- work of `Cell.from_boc(bs)` -/
def bocCost (bs : Bytes) : BocCost :=
  let magic := bs.take 4
  let isGen := magic == magicGen
  if bs.length < 5 || !(isGen || magic == magicIdx || magic == magicIdxCrc) then {} else
  let fb := bs.getD 4 0
  bocGuarded bs isGen (if isGen then fb / 128 % 2 == 1 else true) (if isGen then fb / 64 % 2 == 1 else magic == magicIdxCrc)
    (if isGen then fb % 8 else fb) (bs.getD 5 0)

def bocParseSteps (bs : Bytes) : Nat := (bocCost bs).total

/-! ## 4. Dictionary parsing (`hashmap/parse.py`) -/

structure DNode where
  bits : Bits
  kids : List Nat
  ordinary : Bool := true
  deriving Repr

abbrev DDag := List DNode

def dkids (g : DDag) (v : Nat) : List Nat :=
  match g[v]? with
  | some nd => nd.kids
  | none => []

/-- leading ones of `deserialize_unary`: (count, rest after the terminating 0) or none = ran out of bits -/
def unary : Bits → Option (Nat × Bits)
  | [] => none
  | false :: r => some (0, r)
  | true :: r => (unary r).map (fun p => (p.1 + 1, p.2))

/-- the constructor branches of `deserialize_hml(ser, m)` (everything before its final `if n > m: raise`): label length `n`
(none = raises), and the iterations of the unary loop -/
def readLabelRaw (bits : Bits) (m : Int) : Option Nat × Nat :=
  let l := bitLength m.natAbs
  match bits with
  | [] => (none, 0)
  | false :: r =>
    match unary r with
    | none => (none, r.length)
    | some (n, rest) => (if rest.length < n then none else some n, n)
  | true :: [] => (none, 0)
  | true :: false :: r =>
    if l == 0 then (some 0, 0) else             -- `(#<= 0)` is a zero-width field (fix 602ccc8)
    if r.length < l then (none, 0) else
    let n := natOfBits (r.take l)
    (if (r.drop l).length < n then none else some n, 0)
  | true :: true :: [] => (none, 0)
  | true :: true :: _ :: r =>
    if l == 0 then (some 0, 0) else
    if r.length < l then (none, 0) else (some (natOfBits (r.take l)), 0)

/-- `deserialize_hml(ser, m)` with the `{n <= m}` test it ends with since the repair: a label longer than the remaining key
raises (after the unary loop has run) -/
def readLabel (bits : Bits) (m : Int) : Option Nat × Nat :=
  match readLabelRaw bits m with
  | (some n, it) => if (n : Int) > m then (none, it) else (some n, it)
  | (none, it) => (none, it)

inductive DRes where
  | done (steps : Nat)       -- returned normally
  | raised (steps : Nat)     -- an exception ended the whole parse
  | oof                      -- model ran out of fuel (depth)
  deriving Repr, BEq, DecidableEq

/-- `parse(slice of node v, key_length)`.  Steps: 1 per `parse` call, 1 per `deserialize_hashmap_node` call,
1 per unary-loop iteration.  Fuel = recursion depth. -/
def dictParse (g : DDag) : Nat → Nat → Int → DRes
  | 0, _, _ => .oof
  | f+1, v, keyLen =>
    match g[v]? with
    | none => .raised 0
    | some nd =>
      match readLabel nd.bits keyLen with
      | (none, it) => .raised (1 + it)
      | (some l, it) =>
        let m : Int := keyLen - l
        let s0 := 2 + it
        if !nd.ordinary then .done s0 else
        if m == 0 then .done s0 else
        match nd.kids with
        | [] => .raised s0
        | a :: rest =>
          match dictParse g f a (m - 1) with
          | .oof => .oof
          | .raised s => .raised (s0 + s)
          | .done s1 =>
            match rest with
            | [] => .raised (s0 + s1)
            | b :: _ =>
              match dictParse g f b (m - 1) with
              | .oof => .oof
              | .raised s => .raised (s0 + s1 + s)
              | .done s2 => .done (s0 + s1 + s2)

/-- the same without the unary-loop iterations (calls only) -/
def dictCalls (g : DDag) : Nat → Nat → Int → DRes
  | 0, _, _ => .oof
  | f+1, v, keyLen =>
    match g[v]? with
    | none => .raised 0
    | some nd =>
      match readLabel nd.bits keyLen with
      | (none, _) => .raised 1
      | (some l, _) =>
        let m : Int := keyLen - l
        if !nd.ordinary then .done 2 else
        if m == 0 then .done 2 else
        match nd.kids with
        | [] => .raised 2
        | a :: rest =>
          match dictCalls g f a (m - 1) with
          | .oof => .oof
          | .raised s => .raised (2 + s)
          | .done s1 =>
            match rest with
            | [] => .raised (2 + s1)
            | b :: _ =>
              match dictCalls g f b (m - 1) with
              | .oof => .oof
              | .raised s => .raised (2 + s1 + s)
              | .done s2 => .done (2 + s1 + s2)

def DRes.steps : DRes → Nat
  | .done s => s
  | .raised s => s
  | .oof => 0

/-- number of nodes of the dictionary tree unfolded from cell `v` (first two references of every cell), cut at depth `f` -/
def treeSize (g : DDag) : Nat → Nat → Nat
  | 0, _ => 0
  | f+1, v =>
    match dkids g v with
    | [] => 1
    | a :: rest => 1 + treeSize g f a + (match rest with | [] => 0 | b :: _ => treeSize g f b)

/-- what a parse visits: `(entries, stops)` — `entries` = leaves reached with remaining key length 0 in an ordinary cell
(each stores one key into `ret_dict`: distinct paths spell distinct keys, they differ at the fork bit where they part;
only the root leaf of a `key_length = 0` dictionary has the empty key and is not stored), `stops` = edges that end in a
non-ordinary cell (pruned branch / library cell: `deserialize_hashmap_node` returns without an entry). -/
def dictOut (g : DDag) : Nat → Nat → Int → Nat × Nat
  | 0, _, _ => (0, 0)
  | f+1, v, keyLen =>
    match g[v]? with
    | none => (0, 0)
    | some nd =>
      match readLabel nd.bits keyLen with
      | (none, _) => (0, 0)
      | (some l, _) =>
        let m : Int := keyLen - l
        if !nd.ordinary then (0, 1) else
        if m == 0 then (1, 0) else
        match nd.kids with
        | a :: b :: _ => ((dictOut g f a (m - 1)).1 + (dictOut g f b (m - 1)).1, (dictOut g f a (m - 1)).2 + (dictOut g f b (m - 1)).2)
        | _ => (0, 0)

/-! ## 5. TL `deserialize` -/
namespace Tl

inductive Ty where
  | fixed (k : Nat) (flags : Nat)      -- Bool/#/int/long/int128/int256 (k bytes); flags: 0 = ordinary field, 1 = field named
                                       -- mode/flags read signed, 2 = read unsigned (`#` after the repair on fix/tl)
  | bytes (auto : Bool)                -- bytes/string; auto = content is re-parsed (not an "untouchable")
  | vec (elem : Option Nat)            -- (vector t): some s = bare schema s, none = boxed parse
  | sub (s : Option Nat)               -- some s = bare schema s, none = boxed parse
  deriving Repr

structure Field where
  cond : Option Nat                    -- `mode.N?` / `flags.N?`
  ty : Ty
  deriving Repr

structure Schema where
  id : Bytes                           -- constructor id as on the wire (little endian, 4 bytes)
  fields : List Field
  deriving Repr

abbrev Table := List Schema

def byId (tbl : Table) (id : Bytes) : Option Nat := tbl.findIdx? (fun s => s.id == id)

def fieldsOf (tbl : Table) (s : Nat) : List Field :=
  match tbl[s]? with
  | some sc => sc.fields
  | none => []

inductive Res where
  | ok (adv : Nat) (steps : Nat)     -- returned `(result, adv)`
  | raised (steps : Nat) (guard : Bool)   -- guard = raised by the vector-length guard of the F16 repair
  | oof                               -- out of fuel
  deriving Repr, BEq, DecidableEq

def natOfLE (bs : Bytes) : Nat := natOfBE bs.reverse

/-- `int.from_bytes(bs, 'little', signed=True)` -/
def intOfLE (bs : Bytes) : Int :=
  let v := natOfLE bs
  if bs.length > 0 && v ≥ 2 ^ (8 * bs.length - 1) then (v : Int) - (2 ^ (8 * bs.length) : Nat) else v

/-- is flag bit `idx` set in `bin(v).replace('0b','')[::-1]` (a '-' sign counts as set) -/
def flagSet (v : Int) (idx : Nat) : Bool :=
  let a := v.natAbs
  let L := if a == 0 then 1 else bitLength a
  if idx < L then a / 2 ^ idx % 2 == 1 else (v < 0 && idx == L)

/-- the vector loop AFTER the F16 repair: `count` elements, each parsed by `rec` on `data[i:]`. -/
def vecLoop (rec : Bytes → Res) (data : Bytes) : Nat → Nat → Nat → Res
  | 0, i, steps => .ok i steps
  | k+1, i, steps =>
    match rec (data.drop i) with
    | .oof => .oof
    | .raised s g => .raised (steps + 1 + s) g
    | .ok j s => vecLoop rec data k (i + j) (steps + 1 + s)

/-- `while j < byte_len:` re-parse loop over the content `c` of a bytes field, with loop fuel.
Returns the steps (the loop cannot raise by itself). -/
def reparseLoop (rec : Bytes → Res) (c : Bytes) (byteLen : Nat) : Nat → Nat → Nat → Res
  | 0, _, _ => .oof
  | lf+1, j, steps =>
    if j < byteLen then
      match rec (c.drop j) with
      | .oof => .oof
      | .raised s g => .raised (steps + 1 + s) g
      | .ok jj s => if jj == 0 then .ok 0 (steps + 1 + s) else reparseLoop rec c byteLen lf (j + jj) (steps + 1 + s)
    else .ok 0 steps

/-- the auto-deserialised content `c` of a bytes field with declared length `byteLen`: first parse, then the
`while j < byte_len` re-parse loop (loop fuel `len(c) + 1`); `iEnd` = offset after the field -/
def bytesContent (rec : Bytes → Res) (c : Bytes) (byteLen iEnd : Nat) : Res :=
  match rec c with
  | .oof => .oof
  | .raised s g => .raised s g
  | .ok j s =>
    if j < byteLen then
      match reparseLoop rec c byteLen (c.length + 1) j s with
      | .oof => .oof
      | .raised s' g => .raised s' g
      | .ok _ s' => .ok iEnd s'
    else .ok iEnd s

/-- one field at offset `i`; `rec b m` = recursive `deserialize` (m = none boxed / some s bare) -/
def fieldStep (rec : Bytes → Option Nat → Res) (data : Bytes) (i : Nat) (ty : Ty) : Res :=
  match ty with
  | .fixed k _ => .ok (i + k) 0
  | .bytes auto =>
    let long := sl data i (i + 1) == [0xFE]
    let byteLen := if long then natOfLE (sl data (i + 1) (i + 4)) else natOfLE (sl data i (i + 1))
    let attach := if long then 4 else 1
    let i1 := i + attach
    let i2 := i1 + byteLen
    let iEnd := if (byteLen + attach) % 4 != 0 then i2 + (4 - (byteLen + attach) % 4) else i2
    if !auto then .ok iEnd 0 else
    bytesContent (fun b => rec b none) (sl data i1 (i1 + byteLen)) byteLen iEnd
  | .vec elem =>
    let length := natOfLE (sl data i (i + 4))
    let i1 := i + 4
    -- repaired guard: `if length > len(data) - i: raise`  (Python ints: also raises when i > len(data))
    if data.length < i1 + length then .raised 0 true else
    vecLoop (fun b => rec b elem) data length i1 0
  | .sub s =>
    match rec (data.drop i) s with
    | .oof => .oof
    | .raised st g => .raised st g
    | .ok j st => .ok (i + j) st

/-- `for field, type_ in args.items():`  (`flags` = value of the mode/flags field read so far) -/
def fieldsLoop (rec : Bytes → Option Nat → Res) (data : Bytes) : List Field → Nat → Option Int → Nat → Res
  | [], i, _, steps => .ok i steps
  | fld :: rest, i, flags, steps =>
    let skip : Option Bool :=
      match fld.cond with
      | none => some false
      | some idx => flags.map (fun v => !flagSet v idx)
    match skip with
    | none => .raised (steps + 1) false           -- bin(None): TypeError
    | some true => fieldsLoop rec data rest i flags (steps + 1)
    | some false =>
      match fieldStep rec data i fld.ty with
      | .oof => .oof
      | .raised s g => .raised (steps + 1 + s) g
      | .ok i' s =>
        let flags' := match fld.ty with
          | .fixed k 1 => some (intOfLE (sl data i (i + k)))
          | .fixed k 2 => some ((natOfLE (sl data i (i + k)) : Nat) : Int)
          | _ => flags
        fieldsLoop rec data rest i' flags' (steps + 1 + s)

/-- a bare call (`deserialize(data, False, args)`) has `schema = None`, so the "untouchables" test of the bytes branch
(`schema is not None and schema.name in self.untouchables …`) is false: EVERY bytes field is re-parsed, also the `data`
field of `adnl.message.part` / `overlay.broadcastFec` that is left alone when the object is parsed boxed -/
def bareFields (fs : List Field) : List Field :=
  fs.map (fun f => match f.ty with | .bytes _ => { f with ty := .bytes true } | _ => f)

/-- one level of `deserialize(data, boxed, args)` given the next level `rec` -/
def deserLevel (tbl : Table) (rec : Bytes → Option Nat → Res) (data : Bytes) (mode : Option Nat) : Res :=
  match mode with
  | none =>
    match byId tbl (data.take 4) with
    | none => .ok data.length 1                    -- unknown constructor: `return data, len(data)`
    | some s => fieldsLoop rec data (fieldsOf tbl s) 4 none 1
  | some s => fieldsLoop rec data (bareFields (fieldsOf tbl s)) 0 none 1

/-- `TlSchemas.deserialize`; fuel = recursion depth -/
def deser (tbl : Table) : Nat → Bytes → Option Nat → Res
  | 0 => fun _ _ => .oof
  | f+1 => deserLevel tbl (deser tbl f)

/-- the vector loop as coded BEFORE the repair (no guard): iterations = declared length -/
def vecItersUnfixed (declared : Nat) : Nat := declared

/-! ### table side conditions and constants of the total-work theorem (`c19_tl_total`) -/

def Res.steps : Res → Nat
  | .ok _ s => s
  | .raised s _ => s
  | .oof => 0

/-- the schema a field type refers to WITHOUT a constructor id on the wire (bare sub-object / bare vector element):
the only recursive calls of `deserialize` that need not consume input -/
def bareRef : Ty → Option Nat
  | .vec (some t) => some t
  | .sub (some t) => some t
  | _ => none

/-- `bareOK tbl k s`: following bare references from schema `s` ends within `k` levels (k = 0: never) -/
def bareOK (tbl : Table) : Nat → Nat → Bool
  | 0, _ => false
  | k+1, s => (fieldsOf tbl s).all (fun fld => match bareRef fld.ty with | none => true | some t => bareOK tbl k t)

/-- side condition: the bare-reference graph of the table is acyclic with chains of at most `R` references
(decidable: checked schema by schema).  A table with a bare cycle (`a x:a = A;`) makes `deserialize` recurse without
consuming input until Python's RecursionError. -/
def NoBareCycle (tbl : Table) (R : Nat) : Prop :=
  tbl.all (fun sc => sc.fields.all (fun fld => match bareRef fld.ty with | none => true | some t => bareOK tbl R t)) = true

instance (tbl : Table) (R : Nat) : Decidable (NoBareCycle tbl R) := by unfold NoBareCycle; infer_instance

/-- side condition: constructor ids have (at least) 4 bytes, so a boxed object that is recognised consumed 4 bytes -/
def Ids4 (tbl : Table) : Prop := ∀ s ∈ tbl, 4 ≤ s.id.length

instance (tbl : Table) : Decidable (Ids4 tbl) := List.decidableBAll _ _

/-- largest number of fields of a schema -/
def maxFields (tbl : Table) : Nat := (tbl.map (fun s => s.fields.length)).foldr max 0

/-- steps of a bare object with `M` fields per schema and `k` levels of bare nesting that consumes no input -/
def tlA (M : Nat) : Nat → Nat
  | 0 => 1
  | k+1 => 1 + M * (1 + tlA M k)

/-- the table constant of `c19_tl_total`: steps ≤ `tlK tbl R · (len + 1)²` -/
def tlK (tbl : Table) (R : Nat) : Nat := 1 + tlA (maxFields tbl) (R + 2)

/-- recursion-depth fuel that `c19_tl_total` shows sufficient: each boxed level consumes ≥ 4 bytes, between two boxed
levels there are at most `R + 1` bare levels -/
def tlFuel (R len : Nat) : Nat := (len / 4 + 1) * (R + 2)

/-- smallest `R ≤ bound` with `NoBareCycle tbl R` (driver: reports the side condition of the table it was given) -/
def bareDepth? (tbl : Table) (bound : Nat) : Option Nat :=
  (List.range (bound + 1)).find? (fun R => decide (NoBareCycle tbl R))

end Tl

end TonVerif.Model.Cost
