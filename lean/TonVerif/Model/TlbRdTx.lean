/-
C16 source tie, second part (tlb/transaction.py) — READER primitives added to Model/TlbRd.lean: hand-written meaning of what
`harness/translate/tlbparsers_tx.py` emits besides the primitives of the first part.

  * `Rd.optional s r`      `E if S.load_bit() else None`, E a single read `r` of the slice S
  * `Rd.viaRef r`          `T.deserialize(S.load_ref().begin_parse())` : next reference, parsed by `r` from its start with the
                           `is_special()` flag of that cell; what the inner parser leaves unread is dropped
  * `Rd.loadAddress`       `Slice.load_address()` (boc/slice.py): `None` / `ExternalAddress` / `Address` (+ `Anycast`); raises on `addr_var`
  * `Rd.loadDict n rd`     `Slice.load_dict(n, value_deserializer=rd)` : Maybe bit, root reference, `HashMap.parse` =
                           `dictWalk` (Patricia walk; labels read by the HmLabel reader of hashmap.tlb — `deserialize_hml`, tied to
                           the source for all inputs by C10 `c10_src_label_reader`), the value reader applied to what follows the
                           label in each leaf cell; the result is the dict in walk order = ascending key order
  * `Rd.dictValuesSorted`  `[d[i] for i in sorted(d)]` of such a dict (already in ascending key order)
  * `Rd.list`              a Python list

Python values (continuing Model/TlbRd.lean): a list → `.con "list" (.record [("0", x0), ("1", x1), …])`, a dict with int keys →
`.con "dict" (.record [("<key in decimal>", value), …])`, `Address` / `ExternalAddress` / `Anycast` objects → `Rd.obj` with their
ATTRIBUTES (`wc`, `hash_part`, `anycast`; `external_address`, `len`; `depth`, `rewrite_pfx`).

Core Lean only (the driver links this file).
-/
import TonVerif.Model.TlbRd

namespace TonVerif.Tlb.Rd
open TonVerif TonVerif.Tlb

/-! ### lists and dicts -/

def enumFrom (i : Nat) : List Val → List (String × Val)
  | [] => []
  | v :: r => (toString i, v) :: enumFrom (i + 1) r

/-- a Python list -/
def list (xs : List Val) : Val := .con "list" (.record (enumFrom 0 xs))

/-- a Python dict with int keys, in insertion order; a key is given by its bits (big-endian) -/
def dict (kv : List (Bits × Val)) : Val := .con "dict" (.record (kv.map fun p => (toString (natOfBits p.1), p.2)))

/-- `[d[i] for i in sorted(d)]` for a dict produced by `loadDict` (its insertion order is ascending key order) -/
def dictValuesSorted : Val → Option Val
  | .con "dict" (.record kv) => some (.con "list" (.record (enumFrom 0 (kv.map (·.2)))))
  | _ => none

/-! ### combinators -/

/-- `E if S.load_bit() else None` where E is one read `r` of S -/
def optional (s : Frag) (r : Frag → R) : R :=
  match loadBit s with
  | some (b, s') => if truthy b then r s' else some (.unit, s')
  | none => none

/-- `T.deserialize(S.load_ref().begin_parse())` -/
def viaRef (r : Bool → Frag → R) (s : Frag) : R :=
  match loadRef s with
  | some (c, s') =>
    match r (special c) (beginParse c) with
    | some (v, _) => some (v, s')
    | none => none
  | none => none

/-! ### `Slice.load_address` -/

def natOfVal : Val → Nat
  | .int i => i.toNat
  | _ => 0

/-- the anycast prefix of `load_address`: `load_bool`, then `depth:uint5` (≥ 1) and `pfx:uint depth` -/
def loadAnycast (s : Frag) : R :=
  match loadBool s with
  | some (.bool true, s1) =>
    match loadUint 5 s1 with
    | some (depth, s2) =>
      if natOfVal depth < 1 then none
      else match loadUint (natOfVal depth) s2 with
        | some (pfx, s3) => some (obj "Anycast" [("depth", depth), ("rewrite_pfx", pfx)], s3)
        | none => none
    | none => none
  | some (_, s1) => some (.unit, s1)
  | none => none

/-- `Slice.load_address()` -/
def loadAddress (s : Frag) : R :=
  match loadUint 2 s with
  | some (.int 0, s1) => some (.unit, s1)
  | some (.int 1, s1) =>
    match loadUint 9 s1 with
    | some (len, s2) =>
      if natOfVal len = 0 then some (obj "ExternalAddress" [("external_address", .int 0), ("len", len)], s2)
      else match loadUint (natOfVal len) s2 with
        | some (a, s3) => some (obj "ExternalAddress" [("external_address", a), ("len", len)], s3)
        | none => none
    | none => none
  | some (.int 2, s1) =>
    match loadAnycast s1 with
    | some (ac, s2) =>
      match loadInt 8 s2 with
      | some (wc, s3) =>
        match loadBytes 32 s3 with
        | some (h, s4) => some (obj "Address" [("wc", wc), ("hash_part", h), ("anycast", ac)], s4)
        | none => none
      | none => none
    | none => none
  | _ => none          -- tag 3 (`addr_var`): the anycast prefix is read, then 'Unknown address type' is raised

/-! ### `Slice.load_dict` -/

/-- the bits a label value of hashmap.tlb denotes -/
def labelBitsOf : Val → Bits
  | .con "hml_same" (.record fs) =>
    List.replicate (Env.nat fs "n") (match fs.lookup "v" with | some (.bool b) => b | _ => false)
  | .con _ (.record fs) => (match fs.lookup "s" with | some (.bits b) => b | _ => [])
  | _ => []

/-- `parse` / `deserialize_hashmap_node` of boc/hashmap/parse.py followed by the value reader on every leaf: the entries
    (key bits, value) of the Patricia tree rooted at cell `c` for `n` remaining key bits, left to right.
    `fuel` bounds the depth (`n + 1` suffices). -/
def dictWalk (rd : Frag → R) : Nat → Nat → Bits → Cell → Option (List (Bits × Val))
  | 0, _, _, _ => none
  | fuel+1, n, pfx, c =>
    match (hmLabel n).dec ⟨c.bits, c.refs⟩ with
    | none => none
    | some (lv, s1) =>
      let l := labelLen lv
      let key := pfx ++ labelBitsOf lv
      if c.exotic then some []         -- `deserialize_hashmap_node`: `if cs.type_ != CellTypes.ordinary: return None` (after the label)
      else if n - l = 0 then
        match rd s1 with
        | some (v, _) => some [(key, v)]
        | none => none
      else
        match s1.refs with
        | a :: b :: _ =>
          match dictWalk rd fuel (n - l - 1) (key ++ [false]) a, dictWalk rd fuel (n - l - 1) (key ++ [true]) b with
          | some x, some y => some (x ++ y)
          | _, _ => none
        | _ => none

/-- `Slice.load_dict(n, value_deserializer=rd)` -/
def loadDict (n : Nat) (rd : Frag → R) (s : Frag) : R :=
  match loadBit s with
  | some (b, s1) =>
    if truthy b then
      match loadRef s1 with
      | some (c, s2) =>
        if c.exotic then some (.unit, s2)      -- `HashMap.parse` returns None for a non-ordinary root
        else (dictWalk rd (n + 1) n [] c).map fun kv => (dict kv, s2)
      | none => none
    else some (.unit, s1)
  | none => none

end TonVerif.Tlb.Rd
