/-
Abstract HEAP model of pytoniq-core's cell / slice / builder objects (C08).

Python objects are mutable and may share their `bits` (a `bitarray` / `TvmBitarray`) and `refs`
(a `list`) containers.  Lean values cannot alias, so aliasing is made explicit:

  * containers:  `bitBuf : id ↦ List Bool`   (one per Python bit-array object)
                 `refBuf : id ↦ List ObjId`  (one per Python list object; elements are Cell objects)
  * objects:     one `ObjRec` per Python object (`Cell`, `Slice`, `Builder`, a bit array held by the
                 caller, a list held by the caller), naming the containers its `.bits` / `.refs`
                 attributes point to, `ref_offset` for slices and what the `Cell` constructor caches.
  * every API call is a transition `step` that says which containers it ALLOCATES fresh, which it
    ALIASES (stores a pointer to an existing container) and which it MUTATES in place - read off
    the code as it is (boc/cell.py, slice.py, builder.py, deserialize.py, tvm_bitarray.py):

      Cell(bits, refs, t)            aliases both caller containers, reads only   (`cellCtor`)
      Boc.deserialize / Cell.empty   fresh TvmBitarray + fresh list per cell      (`cellFresh`)
      begin_parse/to_slice/from_cell bits.copy(), refs.copy()      -> fresh both  (`derive · slice`)
      Cell.copy                      bits.copy(), refs.copy()      -> fresh both  (`derive · cell`)
      Cell.to_builder                Builder().store_cell(self)    -> fresh both  (`derive · builder`)
      Slice.copy / to_cell           bits.copy(), refs[off:]       -> fresh both
      Slice.to_builder               Builder().store_slice(self)   -> fresh both
      Builder.end_cell/to_cell/to_slice   _bits.copy(), _refs.copy() -> fresh both
      Slice.load_*/skip_bits         `del self.bits[:n]` mutates the slice's OWN bit buffer;
                                     load_bits/preload_bits return a fresh array `self.bits[:n]`
      Slice.load_ref                 bumps ref_offset, returns the very Cell object in the list
      Builder.store_*                extends the builder's OWN bit buffer / appends to its OWN list;
                                     store_cell / store_slice append the ELEMENTS of the source list
      hash / to_boc / order          read only

    There is no module-level or default-argument state in the code (after fix fca18d1), so the heap
    has no further component.

`val` in a cell record is a GHOST field: the immutable tree value the cell had when it was constructed.
It is never read by `step` except to compute the ghost value of a new cell; the invariant `Inv.coh`
(Proofs/Heap.lean) says it always equals what one reads off the heap now.

Mutation by user code through the public attributes (`cell.bits.append(1)`) is NOT a transition.
-/
import TonVerif.Model.Cell
namespace TonVerif.Model.Heap
open TonVerif TonVerif.Model

abbrev Tree := TonVerif.Model.Cell

inductive Tag where
  | cell | slice | builder | ubits | urefs
  deriving DecidableEq, Repr

/-- slices and builders mutate the containers they point to -/
def Tag.owner : Tag → Bool
  | .slice => true | .builder => true | _ => false
def Tag.hasBits : Tag → Bool
  | .urefs => false | _ => true
def Tag.hasRefs : Tag → Bool
  | .ubits => false | _ => true

structure ObjRec where
  tag : Tag
  bitsId : Nat          -- which bit container `.bits` points to
  refsId : Nat          -- which list `.refs` points to
  off : Nat             -- `ref_offset` (slices; 0 otherwise)
  kind : Int            -- `type_`
  info : CellInfo       -- what `Cell.__init__` caches (`_hashes`, `_depths`, level mask, data bits)
  val : Tree            -- ghost: value at construction

def noInfo : CellInfo := ⟨0, [], 0, 0, [], []⟩
def noTree : Tree := .mk 0 [] []
def ObjRec.blank : ObjRec := ⟨.ubits, 0, 0, 0, -1, noInfo, noTree⟩

structure State where
  bitBuf : Nat → Bits
  nBit : Nat
  refBuf : Nat → List Nat
  nRef : Nat
  obj : Nat → ObjRec
  nObj : Nat

def init : State := ⟨fun _ => [], 0, fun _ => [], 0, fun _ => ObjRec.blank, 0⟩

def State.allocB (σ : State) (bs : Bits) : State :=
  { σ with bitBuf := fun j => if j = σ.nBit then bs else σ.bitBuf j, nBit := σ.nBit + 1 }
def State.allocR (σ : State) (rs : List Nat) : State :=
  { σ with refBuf := fun j => if j = σ.nRef then rs else σ.refBuf j, nRef := σ.nRef + 1 }
def State.setB (σ : State) (id : Nat) (bs : Bits) : State :=
  { σ with bitBuf := fun j => if j = id then bs else σ.bitBuf j }
def State.setR (σ : State) (id : Nat) (rs : List Nat) : State :=
  { σ with refBuf := fun j => if j = id then rs else σ.refBuf j }
def State.push (σ : State) (o : ObjRec) : State :=
  { σ with obj := fun j => if j = σ.nObj then o else σ.obj j, nObj := σ.nObj + 1 }
def State.setObj (σ : State) (i : Nat) (o : ObjRec) : State :=
  { σ with obj := fun j => if j = i then o else σ.obj j }

def State.has (σ : State) (i : Nat) (t : Tag) : Bool := decide (i < σ.nObj) && decide ((σ.obj i).tag = t)

/-- `.bits` content of object `i` -/
def State.bitsOf (σ : State) (i : Nat) : Bits := σ.bitBuf (σ.obj i).bitsId
/-- remaining `.refs` of object `i` (`refs[ref_offset:]`; offset is 0 unless a slice) -/
def State.refsOf (σ : State) (i : Nat) : List Nat := (σ.refBuf (σ.obj i).refsId).drop (σ.obj i).off

inductive Kind where
  | cell | slice | builder
  deriving DecidableEq, Repr

inductive Op where
  | newBits (bs : Bits)                                 -- caller creates a bitarray / TvmBitarray
  | newRefs (cs : List Nat)                             -- caller creates a list of cells
  | cellCtor (ub ur : Nat) (kind : Int)                 -- `Cell(bits, refs, kind)`: ALIASES both
  | cellFresh (bs : Bits) (cs : List Nat) (kind : Int)  -- one cell of `Boc.deserialize`, `Cell.empty()`
  | sliceFresh (bs : Bits) (cs : List Nat) (kind : Int) -- a slice produced inside a composite parse (`load_ref().begin_parse()` + loads)
  | builderNew                                          -- `Builder()` / `begin_cell()`
  | derive (src : Nat) (dst : Kind)                     -- begin_parse, copy, to_cell, to_slice, to_builder, end_cell
  | dropBits (s n : Nat) (ret : Bool)                   -- load_uint/int/bit/bytes/coins, skip_bits; `ret`: load_bits (returns a fresh array)
  | peekBits (s n : Nat)                                -- preload_bits
  | loadRef (s : Nat)
  | storeBits (b : Nat) (bs : Bits)                     -- store_uint/int/bit/bits/bytes/coins/... (the encoded bits)
  | storeFrom (b src : Nat)                             -- store_cell / store_slice / store_bits(array)
  | storeRef (b c : Nat)
  | observe (c : Nat)                                   -- hash, to_boc, order, serialize: read only
  deriving Repr

inductive Out where
  | err                 -- the call raised
  | unit
  | obj (i : Nat)       -- a (new or existing) object
  | bits (bs : Bits)
  | hash (h : Bytes)
  deriving Repr

/-- record of a new `Cell` whose attributes point at containers `bitsId`/`refsId` currently holding `bits`/`refs` -/
def mkCellRec (H : Bytes → Bytes) (σ : State) (bitsId refsId : Nat) (kind : Int) (bits : Bits) (refs : List Nat) :
    Option ObjRec :=
  (construct H kind bits (refs.map fun j => (σ.obj j).info)).map fun info =>
    { tag := .cell, bitsId := bitsId, refsId := refsId, off := 0, kind := kind, info := info,
      val := .mk kind bits (refs.map fun j => (σ.obj j).val) }

def allCells (σ : State) (cs : List Nat) : Bool := cs.all fun j => σ.has j .cell

/-- new object with fresh copies of the given contents -/
def freshObj (σ : State) (o : ObjRec) (bits : Bits) (refs : List Nat) : State × Out :=
  ((((σ.allocB bits).allocR refs).push { o with bitsId := σ.nBit, refsId := σ.nRef }), .obj σ.nObj)

def step (H : Bytes → Bytes) (σ : State) : Op → State × Out
  | .newBits bs =>
    ((σ.allocB bs).push { ObjRec.blank with tag := .ubits, bitsId := σ.nBit }, .obj σ.nObj)
  | .newRefs cs =>
    if allCells σ cs then
      ((σ.allocR cs).push { ObjRec.blank with tag := .urefs, refsId := σ.nRef }, .obj σ.nObj)
    else (σ, .err)
  | .cellCtor ub ur kind =>
    if σ.has ub .ubits && σ.has ur .urefs then
      match mkCellRec H σ (σ.obj ub).bitsId (σ.obj ur).refsId kind (σ.bitBuf (σ.obj ub).bitsId) (σ.refBuf (σ.obj ur).refsId) with
      | some c => (σ.push c, .obj σ.nObj)
      | none => (σ, .err)
    else (σ, .err)
  | .cellFresh bs cs kind =>
    if allCells σ cs then
      match mkCellRec H σ σ.nBit σ.nRef kind bs cs with
      | some c => freshObj σ c bs cs
      | none => (σ, .err)
    else (σ, .err)
  | .sliceFresh bs cs kind =>
    if allCells σ cs then freshObj σ { ObjRec.blank with tag := .slice, kind := kind } bs cs
    else (σ, .err)
  | .builderNew => freshObj σ { ObjRec.blank with tag := .builder } [] []
  | .derive src dst =>
    if σ.has src .cell || σ.has src .slice || σ.has src .builder then
      let bits := σ.bitsOf src
      let refs := σ.refsOf src
      let kind := (σ.obj src).kind
      match dst with
      | .cell =>
        match mkCellRec H σ σ.nBit σ.nRef kind bits refs with
        | some c => freshObj σ c bits refs
        | none => (σ, .err)
      | .slice => freshObj σ { ObjRec.blank with tag := .slice, kind := kind } bits refs
      | .builder =>
        -- exotic check, then `Builder().store_cell/store_slice`: refs overflow check, bits overflow check
        if σ.has src .builder || kind != -1 || refs.length > 4 || bits.length > 1023 then (σ, .err)
        else freshObj σ { ObjRec.blank with tag := .builder } bits refs
    else (σ, .err)
  | .dropBits s n ret =>
    if σ.has s .slice then
      let bits := σ.bitsOf s
      if n > bits.length then (σ, .err)           -- `__delitem__` underflow check: nothing deleted
      else
        let σ1 := σ.setB (σ.obj s).bitsId (bits.drop n)
        if ret then ((σ1.allocB (bits.take n)).push { ObjRec.blank with tag := .ubits, bitsId := σ1.nBit }, .obj σ.nObj)
        else (σ1, .bits (bits.take n))
    else (σ, .err)
  | .peekBits s n =>
    if σ.has s .slice then
      ((σ.allocB ((σ.bitsOf s).take n)).push { ObjRec.blank with tag := .ubits, bitsId := σ.nBit }, .obj σ.nObj)
    else (σ, .err)
  | .loadRef s =>
    if σ.has s .slice then
      match σ.refsOf s with
      | [] => (σ, .err)
      | c :: _ => (σ.setObj s { σ.obj s with off := (σ.obj s).off + 1 }, .obj c)
    else (σ, .err)
  | .storeBits b bs =>
    if σ.has b .builder then
      if (σ.bitsOf b).length + bs.length > 1023 then (σ, .err)
      else (σ.setB (σ.obj b).bitsId (σ.bitsOf b ++ bs), .unit)
    else (σ, .err)
  | .storeFrom b src =>
    if σ.has b .builder then
      if σ.has src .ubits then
        if (σ.bitsOf b).length + (σ.bitsOf src).length > 1023 then (σ, .err)
        else (σ.setB (σ.obj b).bitsId (σ.bitsOf b ++ σ.bitsOf src), .unit)
      else if σ.has src .cell || σ.has src .slice then
        if (σ.refsOf b).length + (σ.refsOf src).length > 4 then (σ, .err)
        else if (σ.bitsOf b).length + (σ.bitsOf src).length > 1023 then (σ, .err)
        else ((σ.setB (σ.obj b).bitsId (σ.bitsOf b ++ σ.bitsOf src)).setR (σ.obj b).refsId (σ.refsOf b ++ σ.refsOf src), .unit)
      else (σ, .err)
    else (σ, .err)
  | .storeRef b c =>
    if σ.has b .builder && σ.has c .cell then
      if (σ.refsOf b).length ≥ 4 then (σ, .err)
      else (σ.setR (σ.obj b).refsId (σ.refsOf b ++ [c]), .unit)
    else (σ, .err)
  | .observe c =>
    if σ.has c .cell then (σ, .hash (σ.obj c).info.hash) else (σ, .err)

/-- replay a history -/
def run (H : Bytes → Bytes) (σ : State) : List Op → State
  | [] => σ
  | op :: ops => run H (step H σ op).1 ops

end TonVerif.Model.Heap
