/-
Model of the EMITTER side of `pytoniq_core/boc/cell.py`: `Cell.order`, `Cell.serialize`, `Cell.to_boc`
(as coded after the fix commits 563b428 iterative order, 3ba0718 cumulative index, 00fdd79 offset width).

* `PCell` is a constructed `Cell` object: the cached `CellInfo` of `Cell.__init__` plus the child objects.
  In the compiled driver children are shared pointers, so a DAG is never unfolded.
* Python dicts/sets of cells are keyed by `Cell.__hash__` (= `int.from_bytes(_hash)`, `CellInfo.pyHash`) and
  `Cell.__eq__` (`_hash` equal).  They are modelled by `Std.HashSet Nat` / `Std.HashMap Nat Nat` over `pyHash`
  plus the insertion-ordered key list (a Python dict iterates in insertion order).
* `none` = the Python code raises (`int.to_bytes` OverflowError, KeyError) or the loop fuel ran out
  (`order_fuel_suffices` in Proofs/BocOrder.lean: fuel `6 * cells + 2` is always enough for cells with ≤ 4 refs).
-/
import TonVerif.Model.Cell
import TonVerif.Model.Crc
import TonVerif.Model.PCell
import Std.Data.HashMap
import Std.Data.HashSet

namespace TonVerif.Model

/-- dict / set key of a cell: `__hash__` -/
def PCell.key (c : PCell) : Nat := c.info.pyHash

/-- `self._descriptors` (computed in `__init__` with the cell's own level mask) -/
def PCell.desc (c : PCell) : Option Bytes :=
  descriptors c.info.nrefs (c.info.kind != kOrdinary) c.info.bits.length c.info.mask

mutual
  /-- build the object graph of a tree of cells (`Cell.__init__` bottom-up) -/
  def Cell.build (H : Bytes → Bytes) : Cell → Option PCell
    | .mk kind bits refs => do
      let rs ← Cell.builds H refs
      let i ← construct H kind bits (rs.map PCell.info)
      pure (.mk i rs)
  def Cell.builds (H : Bytes → Bytes) : List Cell → Option (List PCell)
    | [] => some []
    | c :: cs => do
      let p ← Cell.build H c
      let ps ← Cell.builds H cs
      pure (p :: ps)
end

/-! ### `Cell.order` -/

/-- The `while stack:` loop of `Cell.order`.  `stack` head = top of the Python list; `post` is
`post_order` REVERSED (latest appended first), i.e. already `reversed(post_order)` at the end. -/
def orderLoop : Nat → List (PCell × Bool) → Std.HashSet Nat → List PCell → Option (List PCell)
  | 0, _, _, _ => none
  | _ + 1, [], _, post => some post
  | fuel + 1, (c, true) :: st, vis, post => orderLoop fuel st vis (c :: post)
  | fuel + 1, (c, false) :: st, vis, post =>
    if vis.contains c.key then orderLoop fuel st vis post
    else orderLoop fuel ((c.refs.reverse.map (fun r => (r, false))) ++ (c, true) :: st) (vis.insert c.key) post

/-- an insertion-ordered dict whose keys are cells: (keys latest-first, key set) -/
abbrev CDict := List PCell × Std.HashSet Nat

/-- `if cell in result: result.pop(cell)` ; `result[cell] = None` -/
def dictMoveToEnd (d : CDict) (c : PCell) : CDict :=
  if d.2.contains c.key then (c :: d.1.filter (fun x => x.key != c.key), d.2)
  else (c :: d.1, d.2.insert c.key)

/-- `Cell.order(result={})` : the keys of the returned dict, in iteration order. -/
def PCell.order (fuel : Nat) (root : PCell) : Option (List PCell) := do
  let revPost ← orderLoop fuel [(root, false)] ∅ []
  let d : CDict := revPost.foldl dictMoveToEnd ([], ∅)
  pure d.1.reverse

/-- `{j: i for i, j in enumerate(indexed)}` -/
def indexMap (cells : List PCell) : Std.HashMap Nat Nat :=
  cells.zipIdx.foldl (fun m (ci : PCell × Nat) => m.insert ci.1.key ci.2) ∅

/-! ### flat records and the byte layout of `to_boc` -/

/-- what `Cell.serialize` writes for one cell: descriptors, data bytes, indices of the references -/
structure Rec where
  desc : Bytes
  data : Bytes
  refs : List Nat
  deriving Repr, DecidableEq

/-- `Cell.serialize(indexes, byte_len)` once the indices have been looked up -/
def Rec.ser (byteLen : Nat) (r : Rec) : Option Bytes := do
  let rs ← r.refs.mapM (toBytesBE? byteLen)
  pure (r.desc ++ r.data ++ rs.flatten)

/-- the `indexes[ref]` lookups of `Cell.serialize` for every cell of the ordered dict -/
def flattenCells (idx : Std.HashMap Nat Nat) (cells : List PCell) : Option (List Rec) :=
  cells.mapM (fun c => do
    let d ← c.desc
    let refs ← c.refs.mapM (fun r => idx[r.key]?)
    pure { desc := d, data := c.data, refs := refs })

/-- `(n.bit_length() + 7) // 8` -/
def byteWidth (n : Nat) : Nat := (bitLength n + 7) / 8

structure Opts where
  hasIdx : Bool
  hasCrc : Bool
  hasCache : Bool
  flags : Nat := 0
  deriving Repr, DecidableEq

/-- the option sets the format allows: cache bits only together with the index; `flags = 0` -/
def Opts.valid (o : Opts) : Bool := (!o.hasCache || o.hasIdx) && o.flags == 0

def b2n (b : Bool) : Nat := if b then 1 else 0

def bocMagic : Bytes := [0xb5, 0xee, 0x9c, 0x72]

/-- running sums `[l0, l0+l1, …]` (the `end_offset` loop) -/
def cumulativeFrom (acc : Nat) : List Nat → List Nat
  | [] => []
  | l :: ls => (acc + l) :: cumulativeFrom (acc + l) ls

def cumulative (lens : List Nat) : List Nat := cumulativeFrom 0 lens

/-- everything `to_boc` does after the cells are ordered -/
def emit (recs : List Rec) (o : Opts) : Option Bytes := do
  let cellsNum := recs.length
  let cellsLen := byteWidth cellsNum
  let flagsV := (b2n o.hasIdx * 128 + b2n o.hasCrc * 64 + b2n o.hasCache * 32 + o.flags * 8 + cellsLen) ||| cellsLen
  let flags ← toBytesBE? 1 flagsV
  let sers ← recs.mapM (Rec.ser cellsLen)
  let payload := sers.flatten
  let maxOffset := if o.hasCache then payload.length * 2 else payload.length
  let payloadLen := byteWidth maxOffset
  let rootIndex := List.replicate cellsLen 0
  let absent := List.replicate cellsLen 0
  let fOff ← toBytesBE? 1 payloadLen
  let fCells ← toBytesBE? cellsLen cellsNum
  let fRoots ← toBytesBE? cellsLen 1
  let fTot ← toBytesBE? payloadLen payload.length
  let header := bocMagic ++ flags ++ fOff ++ fCells ++ fRoots ++ absent ++ fTot ++ rootIndex
  let index ← (if o.hasIdx then
      ((cumulative (sers.map List.length)).mapM
        (fun e => toBytesBE? payloadLen (if o.hasCache then e * 2 else e))).map List.flatten
    else some [])
  let body := header ++ index ++ payload
  if o.hasCrc then do
    let c ← crc32c body
    pure (body ++ c)
  else pure body

/-- `Cell.to_boc(has_idx, hash_crc32, has_cache_bits, flags)` -/
def PCell.toBoc (fuel : Nat) (root : PCell) (o : Opts) : Option Bytes := do
  let cells ← root.order fuel
  let recs ← flattenCells (indexMap cells) cells
  emit recs o

end TonVerif.Model
