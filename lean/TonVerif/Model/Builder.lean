/-
Model of `pytoniq_core/boc/builder.py` and `boc/slice.py` (+ `TvmBitarray` capacity / underflow
checks and the address classes' `to_cell`).

A Python method that mutates `self` and may raise is a function
    Builder R → Builder R × Bool          (`BOp`)   /   Slice R → Slice R × Option α   (`SOp`)
returning the state AFTER the call (partial writes included) and whether it returned normally.
`R` is the type of cell references (trees in the theorems, evaluated DAG nodes in the driver).
-/
import TonVerif.Basic
namespace TonVerif.Model

structure Builder (R : Type) where
  bits : Bits
  refs : List R
  deriving Repr

def Builder.empty {R} : Builder R := ⟨[], []⟩

/-- addresses -/
inductive Addr where
  | none
  | ext (len : Nat) (val : Int)                               -- ExternalAddress(val, len)
  | std (anycast : Option (Nat × Int)) (wc : Int) (hash : Bytes)
  deriving Repr, BEq

/-- builder operation: new state + "returned normally" -/
abbrev BOp (R : Type) := Builder R → Builder R × Bool

namespace BOp
variable {R : Type}

def fail : BOp R := fun b => (b, false)
def skip : BOp R := fun b => (b, true)

def andThen (f g : BOp R) : BOp R := fun b =>
  let r := f b
  if r.2 then g r.1 else (r.1, false)

infixl:60 " ⊳ " => andThen

/-- `TvmBitarray.extend` / `append` / `frombytes`: `check_overflow` then append. -/
def extend (xs : Bits) : BOp R := fun b =>
  if b.bits.length + xs.length > 1023 then (b, false) else ({ b with bits := b.bits ++ xs }, true)

/-- `store_ref` -/
def storeRef (r : R) : BOp R := fun b =>
  if b.refs.length ≥ 4 then (b, false) else ({ b with refs := b.refs ++ [r] }, true)

/-- `int2ba(value, size, signed=False)` : `none` = raises -/
def int2baU (v : Int) (n : Nat) : Option Bits :=
  if n = 0 then none else if v < 0 then none else if v.toNat ≥ 2 ^ n then none else some (natToBits n v.toNat)

/-- `int2ba(value, size, signed=True)` (two's complement) -/
def int2baS (v : Int) (n : Nat) : Option Bits :=
  if n = 0 then none
  else if v < -(2 ^ (n - 1) : Int) ∨ v ≥ (2 ^ (n - 1) : Int) then none
  else some (natToBits n (if v ≥ 0 then v.toNat else (v + (2 ^ n : Int)).toNat))

def storeUint (v : Int) (n : Nat) : BOp R :=
  match int2baU v n with
  | some bs => extend bs
  | none => fail

def storeInt (v : Int) (n : Nat) : BOp R :=
  match int2baS v n with
  | some bs => extend bs
  | none => fail

def storeBit (b : Bool) : BOp R := extend [b]
def storeBits (bs : Bits) : BOp R := extend bs
def storeBytes (bs : Bytes) : BOp R := extend (bytesToBits bs)

/-- `int.bit_length()` of |v| -/
def bitLen : Nat → Nat
  | 0 => 0
  | n+1 => 1 + bitLen ((n+1) / 2)
decreasing_by omega

/-- `store_var_uint(value, bit_length)` -/
def storeVarUint (v : Int) (k : Nat) : BOp R :=
  if v = 0 then storeUint 0 k
  else
    let byteLen := (bitLen v.natAbs + 7) / 8
    storeUint byteLen k ⊳ storeUint v (byteLen * 8)

/-- `store_var_int(value, bit_length)` (after fix F8: minimal two's complement size) -/
def storeVarInt (v : Int) (k : Nat) : BOp R :=
  if v = 0 then storeUint 0 k
  else
    let mag : Nat := if v ≥ 0 then v.toNat else (-v - 1).toNat      -- value if value >= 0 else ~value
    let byteLen := (bitLen mag + 1 + 7) / 8
    storeUint byteLen k ⊳ storeInt v (byteLen * 8)

def storeCoins (v : Int) : BOp R := storeVarUint v 4

def storeMaybeRef (r : Option R) : BOp R :=
  match r with
  | none => storeBit false
  | some c => storeBit true ⊳ storeRef c

/-- `store_cell(cell)` given the cell's bits and refs -/
def storeCell (cbits : Bits) (crefs : List R) : BOp R := fun b =>
  if b.refs.length + crefs.length > 4 then (b, false)
  else
    let r := extend cbits b
    if r.2 then ({ r.1 with refs := r.1.refs ++ crefs }, true) else r

def storeRefs : List R → BOp R
  | [] => skip
  | r :: rs => storeRef r ⊳ storeRefs rs

/-- `store_slice(slice)` (after fix F10) given the slice's remaining bits and remaining refs -/
def storeSlice (sbits : Bits) (srefs : List R) : BOp R := fun b =>
  if b.refs.length + srefs.length > 4 then (b, false)
  else (extend sbits ⊳ storeRefs srefs) b

/-- `store_address` (after fixes F9, zero-length extern: `if self.len or self.external_address`). `ExternalAddress.to_cell()` builds a separate
    cell first (which can itself overflow), then `store_cell`. -/
def storeAddress (a : Addr) : BOp R :=
  match a with
  | .none => storeBits [false, false]
  | .ext len val =>
    let inner : BOp R := storeBits [false, true] ⊳ storeUint len 9 ⊳ (if len = 0 ∧ val = 0 then skip else storeUint val len)
    fun b =>
      let r := inner Builder.empty
      if r.2 then storeCell r.1.bits [] b else (b, false)
  | .std anycast wc hash =>
    storeBits [true, false] ⊳
    ((match anycast with
     | some (depth, pfx) => storeBit true ⊳ storeUint depth 5 ⊳ storeUint pfx depth
     | none => storeBit false) : BOp R) ⊳
    storeInt wc 8 ⊳ storeBytes hash

/-- `store_snake_bytes` ; `mk` is `Builder.end_cell` (cell construction, may raise: depth) -/
def storeSnakeFuel (mk : Bits → List R → Option R) : Nat → Bytes → BOp R
  | 0, _ => fail
  | fuel+1, value => fun b =>
    if value.isEmpty then (b, true)
    else
      let i := (1023 - b.bits.length) / 8
      if value.length ≤ i then storeBytes value b
      else
        -- Python evaluates self.store_bytes(value[:i]) first, then builds the tail cell
        let r1 := storeBytes (value.take i) b
        if !r1.2 then r1 else
        let r := storeSnakeFuel mk fuel (value.drop i) Builder.empty
        if !r.2 then (r1.1, false) else
        match mk r.1.bits r.1.refs with
        | none => (r1.1, false)
        | some c => storeRef c r1.1

def storeSnake (mk : Bits → List R → Option R) (value : Bytes) : BOp R :=
  storeSnakeFuel mk (value.length + 2) value

/-- `store_dict(dict_cell | None)` = `store_maybe_ref` -/
def storeDict (r : Option R) : BOp R := storeMaybeRef r

/-- `store_string(value)`; the argument is `value.encode()`.  `assert len(...) <= 127` then `frombytes`. -/
def storeString (bs : Bytes) : BOp R := if bs.length > 127 then fail else storeBytes bs

/-- `store_snake_string(value, need_prefix)`; the argument is `value.encode()` -/
def storeSnakeString (mk : Bits → List R → Option R) (bs : Bytes) (needPrefix : Bool) : BOp R :=
  storeSnake mk (if needPrefix then 0 :: bs else bs)

end BOp

/-! ### Slice -/

structure Slice (R : Type) where
  bits : Bits
  refs : List R          -- remaining refs (`refs[ref_offset:]`)
  deriving Repr

/-- slice operation: state after + result (`none` = raised) -/
abbrev SOp (R : Type) (α : Type) := Slice R → Slice R × Option α

namespace SOp
variable {R : Type} {α β : Type}

def pure (a : α) : SOp R α := fun s => (s, some a)
def fail : SOp R α := fun s => (s, none)

def bind (f : SOp R α) (g : α → SOp R β) : SOp R β := fun s =>
  match f s with
  | (s1, some a) => g a s1
  | (s1, none) => (s1, none)

instance : Monad (SOp R) where
  pure := SOp.pure
  bind := SOp.bind

/-- `ba2int(bits, signed=False)`; raises on empty -/
def ba2intU (bs : Bits) : Option Int := if bs.isEmpty then none else some (natOfBits bs)

def ba2intS (bs : Bits) : Option Int :=
  match bs with
  | [] => none
  | sign :: _ => some (if sign then (natOfBits bs : Int) - (2 ^ bs.length : Int) else natOfBits bs)

/-- `del self.bits[:n]` with the `__delitem__` underflow check (n = 0 deletes nothing) -/
def delBits (n : Nat) : SOp R Unit := fun s =>
  if n = 0 then (s, some ()) else
  if s.bits.length < n then (s, none) else ({ s with bits := s.bits.drop n }, some ())

/-- `preload_bits(n)` = `self.bits[:n]` : never raises, may be short -/
def peekBits (n : Nat) : SOp R Bits := fun s => (s, some (s.bits.take n))

def ofOption (o : Option α) : SOp R α := fun s => (s, o)

def loadBits (n : Nat) : SOp R Bits := do
  let bs ← peekBits n
  delBits n
  return bs

def preloadUint (n : Nat) : SOp R Int := do let bs ← peekBits n; ofOption (ba2intU bs)
def preloadInt (n : Nat) : SOp R Int := do let bs ← peekBits n; ofOption (ba2intS bs)

def loadUint (n : Nat) : SOp R Int := do
  let v ← preloadUint n
  delBits n
  return v

def loadInt (n : Nat) : SOp R Int := do
  let v ← preloadInt n
  delBits n
  return v

/-- `load_bit` : `self.bits[0]` (IndexError when empty) then `del self.bits[0]` -/
def loadBit : SOp R Bool := fun s =>
  match s.bits with
  | [] => (s, none)
  | b :: rest => ({ s with bits := rest }, some b)

def preloadBit : SOp R Bool := fun s =>
  match s.bits with
  | [] => (s, none)
  | b :: _ => (s, some b)

def skipBits (n : Nat) : SOp R Unit := delBits n

def preloadBytes (n : Nat) : SOp R Bytes := do let bs ← peekBits (n * 8); return bitsToBytes bs

def loadBytes (n : Nat) : SOp R Bytes := do
  let bs ← preloadBytes n
  delBits (n * 8)
  return bs

def loadRef : SOp R R := fun s =>
  match s.refs with
  | [] => (s, none)
  | r :: rest => ({ s with refs := rest }, some r)

def preloadRef : SOp R R := fun s =>
  match s.refs with
  | [] => (s, none)
  | r :: _ => (s, some r)

def loadMaybeRef : SOp R (Option R) := do
  let b ← loadBit
  if b then do let r ← loadRef; return some r else return none

def preloadMaybeRef : SOp R (Option R) := do
  let b ← preloadBit
  if b then do let r ← preloadRef; return some r else return none

def loadVarUint (k : Nat) : SOp R Int := do
  let len ← loadUint k
  if len = 0 then return 0 else loadUint (len.toNat * 8)

def loadVarInt (k : Nat) : SOp R Int := do
  let len ← loadUint k
  if len = 0 then return 0 else loadInt (len.toNat * 8)

def preloadVarUint (k : Nat) : SOp R Int := do
  let len ← preloadUint k
  if len = 0 then return 0 else do
    let bs ← peekBits (k + len.toNat * 8)
    ofOption (ba2intU (bs.drop k))

def preloadVarInt (k : Nat) : SOp R Int := do
  let len ← preloadUint k
  if len = 0 then return 0 else do
    let bs ← peekBits (k + len.toNat * 8)
    ofOption (ba2intS (bs.drop k))

def loadCoins : SOp R Int := loadVarUint 4
def preloadCoins : SOp R Int := preloadVarUint 4

/-- `load_address` (after the fixes) -/
def loadAddress : SOp R Addr := do
  let tag ← loadUint 2
  if tag = 0 then return Addr.none
  else if tag = 1 then do
    let len ← loadUint 9
    if len = 0 then return Addr.ext 0 0
    else do
      let v ← loadUint len.toNat
      return Addr.ext len.toNat v
  else do
    let any ← loadBit
    let anycast ← (if any then do
        let depth ← loadUint 5
        if depth < 1 then fail else do
          let pfx ← loadUint depth.toNat
          return some (depth.toNat, pfx)
      else return none)
    if tag = 2 then do
      let wc ← loadInt 8
      let h ← loadBytes 32
      return Addr.std anycast wc h
    else fail

/-- `preload_address` (after fix F9): its own logic for none / extern / non-anycast std, a copy-and-load otherwise -/
def preloadAddress : SOp R Addr := fun s =>
  match (preloadUint 2 s).2 with
  | none => (s, none)
  | some rem =>
    if rem = 0 then (s, some Addr.none)
    else if rem = 1 then
      -- int(self.preload_bits(11)[2:].to01(), 2) : raises on empty string
      let lb := (s.bits.take 11).drop 2
      if lb.isEmpty then (s, none) else
      let len := natOfBits lb
      if len = 0 then (s, some (Addr.ext 0 0)) else
      let ab := (s.bits.take (11 + len)).drop 11
      if ab.isEmpty then (s, none) else (s, some (Addr.ext len (natOfBits ab)))
    else if rem != 2 then (s, none)
    else
      match (preloadUint 3 s).2 with
      | none => (s, none)
      | some r3 =>
        if r3 % 2 != 0 then (s, (loadAddress s).2)
        else
          let rem := s.bits.take 267
          match ba2intS ((rem.take 11).drop 3) with
          | none => (s, none)
          | some wc => (s, some (Addr.std none wc (bitsToBytes (rem.drop 11))))

/-- `load_string(0)` / `load_bytes(len//8)` when `byte_length == 0` -/
def loadAllBytes : SOp R Bytes := fun s => loadBytes (s.bits.length / 8) s

/-- `load_snake_bytes`; `view c` = `c.begin_parse()` (bits, refs) of a referenced cell -/
def loadSnakeFuel (view : R → Bits × List R) : Nat → SOp R Bytes
  | 0 => fail
  | fuel+1 => fun s =>
    if s.bits.length % 8 != 0 then (s, none)        -- assert
    else if s.refs.length > 1 then (s, none)         -- assert
    else if s.refs.isEmpty then loadBytes (s.bits.length / 8) s
    else
      match loadBytes (s.bits.length / 8) s with
      | (s1, none) => (s1, none)
      | (s1, some hd) =>
        match loadRef s1 with
        | (s2, none) => (s2, none)
        | (s2, some c) =>
          let (cb, cr) := view c
          match loadSnakeFuel view fuel ⟨cb, cr⟩ with
          | (_, none) => (s2, none)
          | (_, some tl) => (s2, some (hd ++ tl))

/-- `load_snake_string` = `load_snake_bytes().decode()` (strings are modelled as their UTF-8 bytes) -/
def loadSnakeStringFuel (view : R → Bits × List R) (fuel : Nat) : SOp R Bytes := loadSnakeFuel view fuel

/-- `load_dict(key_length)` / `preload_dict` at the cell level: the `Maybe ^Cell` part (the parse of the
    referenced dictionary cell is C09's subject). -/
def loadDict : SOp R (Option R) := do
  let b ← loadBit
  if b then do let r ← loadRef; return some r else return none

def preloadDict : SOp R (Option R) := do
  let b ← preloadBit
  if b then do let r ← preloadRef; return some r else return none

/-- `load_string(byte_length)` (`0` = all whole bytes that remain); result = the bytes before `.decode()` -/
def loadString (n : Nat) : SOp R Bytes := fun s => loadBytes (if n = 0 then s.bits.length / 8 else n) s

def preloadString (n : Nat) : SOp R Bytes := fun s => preloadBytes (if n = 0 then s.bits.length / 8 else n) s

def map (f : α → β) (op : SOp R α) : SOp R β := fun s => let r := op s; (r.1, r.2.map f)

end SOp

/-! ### Typed values: one constructor per typed `store_*` operation that has a `load_*` counterpart -/

inductive TVal (R : Type) where
  | uint (n : Nat) (v : Int)          -- store_uint(v, n)
  | int (n : Nat) (v : Int)           -- store_int(v, n)
  | varUint (k : Nat) (v : Int)       -- store_var_uint(v, k)
  | varInt (k : Nat) (v : Int)        -- store_var_int(v, k)
  | coins (v : Int)                   -- store_coins(v)
  | bit (b : Bool)                    -- store_bit(b)
  | bits (bs : Bits)                  -- store_bits(bs)
  | bytes (bs : Bytes)                -- store_bytes(bs)
  | string (bs : Bytes)               -- store_string(s), bs = s.encode()
  | ref (r : R)                       -- store_ref(r)
  | maybeRef (r : Option R)           -- store_maybe_ref(r)
  | dict (r : Option R)               -- store_dict(r)
  | addr (a : Addr)                   -- store_address(a)

/-- what the reader has to know to read a value back (the arguments of the `load_*` call) -/
inductive Kind where
  | uint (n : Nat) | int (n : Nat) | varUint (k : Nat) | varInt (k : Nat) | coins | bit
  | bits (n : Nat) | bytes (n : Nat) | string (n : Nat) | ref | maybeRef | dict | addr

namespace TVal
variable {R : Type}

def store : TVal R → BOp R
  | .uint n v => BOp.storeUint v n
  | .int n v => BOp.storeInt v n
  | .varUint k v => BOp.storeVarUint v k
  | .varInt k v => BOp.storeVarInt v k
  | .coins v => BOp.storeCoins v
  | .bit b => BOp.storeBit b
  | .bits bs => BOp.storeBits bs
  | .bytes bs => BOp.storeBytes bs
  | .string bs => BOp.storeString bs
  | .ref r => BOp.storeRef r
  | .maybeRef r => BOp.storeMaybeRef r
  | .dict r => BOp.storeDict r
  | .addr a => BOp.storeAddress a

def kind : TVal R → Kind
  | .uint n _ => .uint n
  | .int n _ => .int n
  | .varUint k _ => .varUint k
  | .varInt k _ => .varInt k
  | .coins _ => .coins
  | .bit _ => .bit
  | .bits bs => .bits bs.length
  | .bytes bs => .bytes bs.length
  | .string bs => .string bs.length
  | .ref _ => .ref
  | .maybeRef _ => .maybeRef
  | .dict _ => .dict
  | .addr _ => .addr

end TVal

namespace Kind
variable {R : Type}

/-- the consuming read `load_X(args)` -/
def load : Kind → SOp R (TVal R)
  | .uint n => (SOp.loadUint n).map (TVal.uint n)
  | .int n => (SOp.loadInt n).map (TVal.int n)
  | .varUint k => (SOp.loadVarUint k).map (TVal.varUint k)
  | .varInt k => (SOp.loadVarInt k).map (TVal.varInt k)
  | .coins => SOp.loadCoins.map TVal.coins
  | .bit => SOp.loadBit.map TVal.bit
  | .bits n => (SOp.loadBits n).map TVal.bits
  | .bytes n => (SOp.loadBytes n).map TVal.bytes
  | .string n => (SOp.loadString n).map TVal.string
  | .ref => SOp.loadRef.map TVal.ref
  | .maybeRef => SOp.loadMaybeRef.map TVal.maybeRef
  | .dict => SOp.loadDict.map TVal.dict
  | .addr => SOp.loadAddress.map TVal.addr

/-- the non-consuming peek `preload_X(args)` -/
def preload : Kind → SOp R (TVal R)
  | .uint n => (SOp.preloadUint n).map (TVal.uint n)
  | .int n => (SOp.preloadInt n).map (TVal.int n)
  | .varUint k => (SOp.preloadVarUint k).map (TVal.varUint k)
  | .varInt k => (SOp.preloadVarInt k).map (TVal.varInt k)
  | .coins => SOp.preloadCoins.map TVal.coins
  | .bit => SOp.preloadBit.map TVal.bit
  | .bits n => (SOp.peekBits n).map TVal.bits
  | .bytes n => (SOp.preloadBytes n).map TVal.bytes
  | .string n => (SOp.preloadString n).map TVal.string
  | .ref => SOp.preloadRef.map TVal.ref
  | .maybeRef => SOp.preloadMaybeRef.map TVal.maybeRef
  | .dict => SOp.preloadDict.map TVal.dict
  | .addr => SOp.preloadAddress.map TVal.addr

end Kind

/-- every builder operation (typed values + composite stores), for operation histories -/
inductive Op (R : Type) where
  | val (tv : TVal R)
  | cell (bits : Bits) (refs : List R)           -- store_cell(c)
  | slice (bits : Bits) (refs : List R)          -- store_slice(s): remaining bits / refs of s
  | snake (mk : Bits → List R → Option R) (bs : Bytes)   -- store_snake_bytes / store_snake_string

def Op.run {R : Type} : Op R → BOp R
  | .val tv => tv.store
  | .cell b r => BOp.storeCell b r
  | .slice b r => BOp.storeSlice b r
  | .snake mk bs => BOp.storeSnake mk bs

end TonVerif.Model
