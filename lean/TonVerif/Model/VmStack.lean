/-
Model of `pytoniq_core/tlb/vm_stack.py` (after the fixes F20, F21, F22 and the VmControlData
repairs): `VmStack`, `VmStackList`, `VmStackValue`, `VmTuple`, `VmTupleRef`, `VmCellSlice`,
`VmCont`, `VmControlData`, `VmSaveList` — `serialize` on `BOp`, `deserialize` on `SOp`.

Conventions
* `R` = type of cell references.  `mk bits refs` = `Builder.end_cell()` / `Cell(...)` (`none` =
  the constructor raises, e.g. depth 1024), `view c` = `(c.bits, c.refs)` as `begin_parse()` sees
  them, `ord c` = "c is an ordinary cell" (`Cell.to_builder` refuses exotic cells).
* **Python lists are stored last-element-first** (`RList`): the code takes `values.list[-1]` /
  `data.pop()` and recurses on the rest, and the parsers build `result + [value]` /
  `.append(value)`; on a last-first list both are plain structural recursion (`v :: rest`).
  A stack is therefore written top-of-stack first, a tuple last-entry first.  The driver and the
  harness reverse at the boundary; `List.reverse` is a bijection, so "same values, same order" is
  unaffected.
* every raised exception = `none`.
* `save` (`HashmapE 4 VmStackValue`) is the dictionary's root cell, opaque: the HashMap codec is
  C09/C10's subject.
-/
import TonVerif.Model.Builder
import TonVerif.Model.Cell
import TonVerif.Spec.Tlb.VmStack
namespace TonVerif.Model.Vm
open TonVerif TonVerif.Model TonVerif.Spec.Vm


variable {R : Type}

/-- run a builder operation; `none` = it raised -/
def run (op : BOp R) (b : Builder R) : Option (Builder R) :=
  let r := op b
  if r.2 then some r.1 else none

/-- a finished cell together with the content it was built from -/
structure Built (R : Type) where
  bits : Bits
  refs : List R
  cell : R

/-- `builder.end_cell()` -/
def finish (mk : Bits → List R → Option R) (b : Builder R) : Option (Built R) :=
  (mk b.bits b.refs).map (fun c => ⟨b.bits, b.refs, c⟩)

/-- `builder = Builder(); <ops>; return builder.end_cell()` -/
def build (mk : Bits → List R → Option R) (op : BOp R) : Option (Built R) :=
  (run op Builder.empty).bind (finish mk)

def tagInt257 : Bits := [false, false, false, false, false, false, true, false,
                         false, false, false, false, false, false, false]       -- '000000100000000' = #0201_

open BOp in
/-- `if x is not None: store_bit_int(1); store(x)  else: store_bit_int(0)` -/
def storeMaybe (store : Int → BOp R) : Option Int → BOp R
  | some v => storeBit true ⊳ store v
  | none => storeBit false

open BOp in
/-- `VmCellSlice.serialize(value)` for a slice with remaining `bits`, `refs` -/
def serCellSlice (mk : Bits → List R → Option R) (bits : Bits) (refs : List R) : Option (Built R) := do
  let inner ← build mk (storeSlice bits refs)
  build mk (storeRef inner.cell ⊳ storeUint 0 10 ⊳ storeUint bits.length 10 ⊳ storeUint 0 3 ⊳ storeUint refs.length 3)

open BOp in
mutual
/-- `VmStackValue.serialize(value)` -/
def serVal (mk : Bits → List R → Option R) : Val R → Option (Built R)
  | .null => build mk (storeBytes [0])
  | .int v =>
    if -(2 ^ 63 : Int) ≤ v ∧ v < (2 ^ 63 : Int) then build mk (storeBytes [1] ⊳ storeInt v 64)
    else build mk (storeBits tagInt257 ⊳ storeInt v 257)
  | .cell c => build mk (storeBytes [3] ⊳ storeRef c)
  | .slice bits refs => do
    let cs ← serCellSlice mk bits refs
    build mk (storeBytes [4] ⊳ storeCell cs.bits cs.refs)
  | .builder bits refs => do
    let c ← mk bits refs                                         -- value.end_cell()
    build mk (storeBytes [5] ⊳ storeRef c)
  | .cont k => do
    let kc ← serCont mk k
    build mk (storeBytes [6] ⊳ storeCell kc.bits kc.refs)
  | .tuple vs => do
    let t ← serTuple mk vs
    build mk (storeBytes [7] ⊳ storeUint vs.length 16 ⊳ storeCell t.bits t.refs)
/-- `VmTuple.serialize(values)` (list last-first) -/
def serTuple (mk : Bits → List R → Option R) : List (Val R) → Option (Built R)
  | [] => build mk skip                                          -- Cell.empty()
  | v :: rest => do
    let hd ← serTupleRef mk rest                                 -- VmTupleRef.serialize(VmTuple(values.list[:-1]))
    let vc ← serVal mk v                                         -- VmStackValue.serialize(values.list[-1])
    build mk (storeCell hd.bits hd.refs ⊳ storeRef vc.cell)
/-- `VmTupleRef.serialize(values)`; the third case is `Builder().store_ref(VmTuple.serialize(values))`
    with the body of `VmTuple.serialize` written out -/
def serTupleRef (mk : Bits → List R → Option R) : List (Val R) → Option (Built R)
  | [] => build mk skip
  | [v] => do
    let vc ← serVal mk v
    build mk (storeRef vc.cell)
  | v :: w :: rest => do
    let hd ← serTupleRef mk (w :: rest)
    let vc ← serVal mk v
    let t ← build mk (storeCell hd.bits hd.refs ⊳ storeRef vc.cell)
    build mk (storeRef t.cell)
/-- `VmStackList.serialize(data)` (list top first) -/
def serStackList (mk : Bits → List R → Option R) : List (Val R) → Option (Built R)
  | [] => build mk skip
  | v :: rest => do
    let rc ← serStackList mk rest
    let vc ← serVal mk v
    build mk (storeRef rc.cell ⊳ storeCell vc.bits vc.refs)
/-- `VmCont.serialize(value)` -/
def serCont (mk : Bits → List R → Option R) : Cont R → Option (Built R)
  | .std cd cb cr => do
    let c ← serCtl mk cd
    let cs ← serCellSlice mk cb cr
    build mk (storeBits [false, false] ⊳ storeCell c.bits c.refs ⊳ storeCell cs.bits cs.refs)
  | .envelope cd next => do
    let c ← serCtl mk cd
    let n ← serCont mk next
    build mk (storeBits [false, true] ⊳ storeCell c.bits c.refs ⊳ storeRef n.cell)
  | .quit code => build mk (storeBits [true, false, false, false] ⊳ storeInt code 32)
  | .quitExc => build mk (storeBits [true, false, false, true])
  | .repeat_ count body after => do
    let b ← serCont mk body
    let a ← serCont mk after
    build mk (storeBits [true, false, true, false, false] ⊳ storeUint count 63 ⊳ storeRef b.cell ⊳ storeRef a.cell)
  | .until_ body after => do
    let b ← serCont mk body
    let a ← serCont mk after
    build mk (storeBits [true, true, false, false, false, false] ⊳ storeRef b.cell ⊳ storeRef a.cell)
  | .again body => do
    let b ← serCont mk body
    build mk (storeBits [true, true, false, false, false, true] ⊳ storeRef b.cell)
  | .whileCond cond body after => do
    let c ← serCont mk cond
    let b ← serCont mk body
    let a ← serCont mk after
    build mk (storeBits [true, true, false, false, true, false] ⊳ storeRef c.cell ⊳ storeRef b.cell ⊳ storeRef a.cell)
  | .whileBody cond body after => do
    let c ← serCont mk cond
    let b ← serCont mk body
    let a ← serCont mk after
    build mk (storeBits [true, true, false, false, true, true] ⊳ storeRef c.cell ⊳ storeRef b.cell ⊳ storeRef a.cell)
  | .pushint value next => do
    let n ← serCont mk next
    build mk (storeBits [true, true, true, true] ⊳ storeInt value 32 ⊳ storeRef n.cell)
/-- `VmControlData.serialize(value)`; the `stack` case contains `VmStack.serialize(stack)` -/
def serCtl (mk : Bits → List R → Option R) : Ctl R → Option (Built R)
  | .mk nargs none save cp => do
    let sl ← build mk (storeMaybeRef save)                        -- VmSaveList.serialize
    build mk (storeMaybe (fun n => storeUint n 13) nargs ⊳ storeBit false ⊳ storeCell sl.bits sl.refs
      ⊳ storeMaybe (fun c => storeInt c 16) cp)
  | .mk nargs (some st) save cp => do
    let l ← serStackList mk st
    let sc ← build mk (storeUint st.length 24 ⊳ storeCell l.bits l.refs)          -- VmStack.serialize(stack)
    let sl ← build mk (storeMaybeRef save)                        -- VmSaveList.serialize
    build mk (storeMaybe (fun n => storeUint n 13) nargs ⊳ storeBit true ⊳ storeCell sc.bits sc.refs
      ⊳ storeCell sl.bits sl.refs ⊳ storeMaybe (fun c => storeInt c 16) cp)
end

open BOp in
/-- `VmStack.serialize(data)` (data top first) -/
def serStack (mk : Bits → List R → Option R) (vs : List (Val R)) : Option (Built R) := do
  let l ← serStackList mk vs
  build mk (storeUint vs.length 24 ⊳ storeCell l.bits l.refs)

/-- API level: `VmStack.serialize(data)` returns the cell -/
def serialize (mk : Bits → List R → Option R) (vs : List (Val R)) : Option R := (serStack mk vs).map (·.cell)

/-! ### what a successful `serialize` leaves in the caller's objects

Python values are mutable objects: `VmTuple.list`, the `data` list, the lists inside control data.  `post*`
is the state of the caller's value after a call that returned normally.  `pop = true` is the code before fix
F20 (`VmTuple.serialize` did `values.pop()` on the caller's tuple and handed the same object on to
`VmTupleRef.serialize`); `pop = false` is the current code (`VmTuple(values.list[:-1])`, a new list object
holding the same element objects, so only what happens *inside* the elements is visible to the caller).
`VmStack.serialize` works on `data.copy()`, so the outer list keeps its length either way.  Slices, builders
and cells are only read (`store_slice`, `end_cell`, `store_ref`). -/

mutual
/-- state of `value` after `VmStackValue.serialize(value)` -/
def postVal (pop : Bool) : Val R → Val R
  | .tuple vs => .tuple (postTuple pop vs)
  | .cont k => .cont (postCont pop k)
  | v => v
/-- state of `values.list` (last-first) after `VmTuple.serialize(values)` -/
def postTuple (pop : Bool) : List (Val R) → List (Val R)
  | [] => []
  | v :: rest => if pop then postTupleRef pop rest          -- `values.pop()`, then VmTupleRef.serialize(values) on the same object
                 else postVal pop v :: postTupleRef pop rest
/-- state of `values.list` after `VmTupleRef.serialize(values)` -/
def postTupleRef (pop : Bool) : List (Val R) → List (Val R)
  | [] => []
  | [v] => [postVal pop v]                                  -- `values[0]` is serialised in place
  | v :: w :: rest => if pop then postTupleRef pop (w :: rest)   -- = VmTuple.serialize(values): pops `v`
                      else postVal pop v :: postTupleRef pop (w :: rest)
/-- state of the elements of a list handed to `VmStack.serialize` (which pops from a copy) -/
def postList (pop : Bool) : List (Val R) → List (Val R)
  | [] => []
  | v :: rest => postVal pop v :: postList pop rest
def postCont (pop : Bool) : Cont R → Cont R
  | .std cd cb cr => .std (postCtl pop cd) cb cr
  | .envelope cd next => .envelope (postCtl pop cd) (postCont pop next)
  | .quit c => .quit c
  | .quitExc => .quitExc
  | .repeat_ c b a => .repeat_ c (postCont pop b) (postCont pop a)
  | .until_ b a => .until_ (postCont pop b) (postCont pop a)
  | .again b => .again (postCont pop b)
  | .whileCond c b a => .whileCond (postCont pop c) (postCont pop b) (postCont pop a)
  | .whileBody c b a => .whileBody (postCont pop c) (postCont pop b) (postCont pop a)
  | .pushint v n => .pushint v (postCont pop n)
def postCtl (pop : Bool) : Ctl R → Ctl R
  | .mk nargs none save cp => .mk nargs none save cp
  | .mk nargs (some st) save cp => .mk nargs (some (postList pop st)) save cp
end

/-- `VmStack.serialize(data)` as a state transformer on the caller's values: (returned cell, `data` afterwards) -/
def serializeSt (pop : Bool) (mk : Bits → List R → Option R) (vs : List (Val R)) : Option R × List (Val R) :=
  (serialize mk vs, postList pop vs)

/-! ### deserialize -/

namespace De
open SOp

/-- `p(c.begin_parse())`: run `p` on a fresh slice of `c`; the outer slice is untouched -/
def sub (view : R → Bits × List R) {α : Type} (p : SOp R α) (c : R) : SOp R α :=
  fun s => (s, (p ⟨(view c).1, (view c).2⟩).2)

/-- `VmCellSlice.deserialize` -/
def cellSlice (view : R → Bits × List R) : SOp R (Bits × List R) := do
  let c ← loadRef
  let st ← loadUint 10
  let en ← loadUint 10
  if ¬ st ≤ en then SOp.fail else do
  let sr ← loadUint 3
  let er ← loadUint 3
  if ¬ sr ≤ er then SOp.fail else
  return (pySlice (view c).1 st.toNat en.toNat, pySlice (view c).2 sr.toNat er.toNat)

def isPrefix (tag : Bits) (s : Slice R) : Bool := s.bits.take tag.length == tag

/-- the constructor tags `VmCont.deserialize` tests for -/
def contTags : List Bits := [[false, false], [false, true], [true, false, false, false], [true, false, false, true],
  [true, false, true, false, false], [true, true, false, false, false, false], [true, true, false, false, false, true],
  [true, true, false, false, true, false], [true, true, false, false, true, true], [true, true, true, true]]

/-- some branch of `VmCont.deserialize` is taken (otherwise it falls through and returns `None`) -/
def contTagKnown (s : Slice R) : Bool := contTags.any (fun t => isPrefix t s)

mutual
/-- `VmStackValue.deserialize(cell_slice)`; an unknown tag falls through every `elif` and yields `None` -/
def val (view : R → Bits × List R) (ord : R → Bool) : Nat → SOp R (Val R)
  | 0 => SOp.fail
  | fuel + 1 => fun s =>
    if s.bits.take 15 == tagInt257 then
      (do let _ ← loadBits 15; let v ← loadInt 257; return Val.int v) s
    else
      let tag := bitsToBytes (s.bits.take 16)                     -- preload_bytes(2)
      if tag.take 1 == [0] then (do let _ ← loadBytes 1; return Val.null) s
      else if tag.take 1 == [1] then (do let _ ← loadBytes 1; let v ← loadInt 64; return Val.int v) s
      else if tag == [2, 255] then (do let _ ← loadBytes 2; return Val.null) s
      else if tag.take 1 == [3] then (do let _ ← loadBytes 1; let c ← loadRef; return Val.cell c) s
      else if tag.take 1 == [5] then
        (do let _ ← loadBytes 1
            let c ← loadRef
            if ord c then return Val.builder (view c).1 (view c).2 else SOp.fail) s
      else if tag.take 1 == [4] then
        (do let _ ← loadBytes 1; let r ← cellSlice view; return Val.slice r.1 r.2) s
      else if tag.take 1 == [6] then
        -- `return VmCont.deserialize(cell_slice)`: when no constructor tag matches this is `None`
        -- (that call spends its unit of fuel like every other nested call)
        (do let _ ← loadBytes 1
            let known ← (fun s' => (s', some (contTagKnown s')))
            if known then do let k ← cont view ord fuel; return Val.cont k
            else (if fuel = 0 then SOp.fail else return Val.null)) s
      else if tag.take 1 == [7] then
        (do let _ ← loadBytes 1
            let len ← loadUint 16
            let vs ← tuple view ord fuel len.toNat
            return Val.tuple vs) s
      else (s, some Val.null)
/-- `VmTuple.deserialize(cell_slice, length)` (result last-first) -/
def tuple (view : R → Bits × List R) (ord : R → Bool) : Nat → Nat → SOp R (List (Val R))
  | 0, _ => SOp.fail
  | fuel + 1, len =>
    if len = 0 then SOp.pure [] else do
      let hd ← tupleRef view ord fuel (len - 1)
      let c ← loadRef
      let v ← sub view (val view ord fuel) c
      return v :: hd
/-- `VmTupleRef.deserialize(cell_slice, length)` -/
def tupleRef (view : R → Bits × List R) (ord : R → Bool) : Nat → Nat → SOp R (List (Val R))
  | 0, _ => SOp.fail
  | fuel + 1, len =>
    if len = 0 then SOp.pure []
    else if len = 1 then do
      let c ← loadRef
      let v ← sub view (val view ord fuel) c
      return [v]
    else do
      let c ← loadRef
      sub view (tuple view ord fuel len) c
/-- `VmStackList.deserialize(cell_slice, n)` (result top first) -/
def stackList (view : R → Bits × List R) (ord : R → Bool) : Nat → Nat → SOp R (List (Val R))
  | 0, _ => SOp.fail
  | fuel + 1, n =>
    if n = 0 then SOp.pure [] else do
      let c ← loadRef
      let rest ← sub view (stackList view ord fuel (n - 1)) c
      let v ← val view ord fuel
      return v :: rest
/-- `VmCont.deserialize(cell_slice)` (after fix F21: the tag is skipped).  When no tag matches Python returns
    `None`: as a stack value that is handled in `val`; as a field of another continuation (`body=None`) the
    result is not a continuation any more and is `none` here (the harness maps such results to `err`). -/
def cont (view : R → Bits × List R) (ord : R → Bool) : Nat → SOp R (Cont R)
  | 0 => SOp.fail
  | fuel + 1 => fun s =>
    let k : SOp R (Cont R) := do let c ← loadRef; sub view (cont view ord fuel) c
    if isPrefix [false, false] s then
      (do skipBits 2; let cd ← ctl view ord fuel; let cs ← cellSlice view; return Cont.std cd cs.1 cs.2) s
    else if isPrefix [false, true] s then
      (do skipBits 2; let cd ← ctl view ord fuel; let n ← k; return Cont.envelope cd n) s
    else if isPrefix [true, false, false, false] s then
      (do skipBits 4; let c ← loadInt 32; return Cont.quit c) s
    else if isPrefix [true, false, false, true] s then
      (do skipBits 4; return Cont.quitExc) s
    else if isPrefix [true, false, true, false, false] s then
      (do skipBits 5; let c ← loadUint 63; let b ← k; let a ← k; return Cont.repeat_ c b a) s
    else if isPrefix [true, true, false, false, false, false] s then
      (do skipBits 6; let b ← k; let a ← k; return Cont.until_ b a) s
    else if isPrefix [true, true, false, false, false, true] s then
      (do skipBits 6; let b ← k; return Cont.again b) s
    else if isPrefix [true, true, false, false, true, false] s then
      (do skipBits 6; let c ← k; let b ← k; let a ← k; return Cont.whileCond c b a) s
    else if isPrefix [true, true, false, false, true, true] s then
      (do skipBits 6; let c ← k; let b ← k; let a ← k; return Cont.whileBody c b a) s
    else if isPrefix [true, true, true, true] s then
      (do skipBits 4; let v ← loadInt 32; let n ← k; return Cont.pushint v n) s
    else (s, none)
/-- `VmControlData.deserialize(cell_slice)`; contains `VmStack.deserialize` and `VmSaveList.deserialize` -/
def ctl (view : R → Bits × List R) (ord : R → Bool) : Nat → SOp R (Ctl R)
  | 0 => SOp.fail
  | fuel + 1 => do
    let isN ← loadBit
    let nargs ← (if isN then do let n ← loadUint 13; return some n else return none)
    let isS ← loadBit
    let stack ← (if isS then do
        let depth ← loadUint 24
        let st ← stackList view ord fuel depth.toNat
        return some st
      else return none)
    let save ← loadMaybeRef
    let isC ← loadBit
    let cp ← (if isC then do let c ← loadInt 16; return some c else return none)
    return Ctl.mk nargs stack save cp
end

/-- `VmStack.deserialize(cell_slice)` -/
def stack (view : R → Bits × List R) (ord : R → Bool) (fuel : Nat) : SOp R (List (Val R)) := do
  let depth ← loadUint 24
  stackList view ord fuel depth.toNat

end De

/-- API level: `VmStack.deserialize(cell.begin_parse())` (result top first) -/
def deserialize (view : R → Bits × List R) (ord : R → Bool) (fuel : Nat) (c : R) : Option (List (Val R)) :=
  (De.stack view ord fuel ⟨(view c).1, (view c).2⟩).2

end TonVerif.Model.Vm
