/-
Model of `pytoniq_core/tl/generator.py` (`TlSchemas.serialize_field / serialize / deserialize`) and of
`pytoniq_core/tl/block.py`, generic in the schema table.

Mirrors the code as it is (after the `fix:` commits for string fields, the vector length bound, vectors
of base types and unsigned `#`):
* `none` = the Python call raises (any exception); recursion depth is `fuel` (one unit per nested
  `serialize`/`deserialize` call, as Python's recursion limit).
* the parser never checks lengths: a slice past the end is short/empty (`take`/`drop`), the consumed
  count can exceed the input length; an unknown constructor id makes `deserialize` return the raw
  input and its length; an invalid `Bool` leaves the field unset.
* serialisation dispatches on the Python type of the value (`isinstance` order: bool, bytes, int, str);
  values it does not understand are silently skipped.
* with auto-deserialisation on, the content of every `bytes`/`string` field (except the untouchables of
  a boxed object) is re-parsed: an object, a list of objects, or the raw bytes.
-/
import TonVerif.Spec.Tl

namespace TonVerif.Model.Tl
open TonVerif TonVerif.Spec.Tl

/-! ### Python primitives -/

/-- `int.to_bytes(w, 'little', signed=True)` -/
def intToLE? (w : Nat) (i : Int) : Option Bytes :=
  if -(2 ^ (8 * w - 1) : Int) ≤ i ∧ i < (2 ^ (8 * w - 1) : Int) then some (intLE w i) else none

/-- `int.to_bytes(w, 'little', signed=False)` -/
def natToLE? (w : Nat) (i : Int) : Option Bytes :=
  if 0 ≤ i ∧ i < (2 ^ (8 * w) : Int) then some (intLE w i) else none

/-- `int.from_bytes(bs, 'little', signed=True)` (sign taken from the actual length of `bs`). -/
def intOfLE (bs : Bytes) : Int :=
  let n := natOfLE bs
  if bs.length ≠ 0 ∧ 2 ^ (8 * bs.length - 1) ≤ n then (n : Int) - (2 ^ (8 * bs.length) : Nat) else n

def hexChar (n : Nat) : Nat := if n < 10 then 48 + n else 87 + n

/-- ASCII of `b.hex()` -/
def hexAscii (b : Bytes) : Bytes := b.flatMap (fun x => [hexChar (x / 16), hexChar (x % 16)])

/-- framing written by `serialize_field` for `bytes` (`<= 253`, then `len % 4` padding). -/
def frame (b : Bytes) : Bytes :=
  let temp := (if b.length ≤ 253 then natToLE 1 b.length else 254 :: natToLE 3 b.length) ++ b
  if temp.length % 4 ≠ 0 then temp ++ List.replicate (4 - temp.length % 4) 0 else temp

/-- `serialize_field` on a `bytes` value: the 3-byte length `to_bytes(3, 'little')` raises OverflowError from 2^24 bytes on. -/
def frame? (b : Bytes) : Option Bytes := if b.length < 2 ^ 24 then some (frame b) else none

/-- framing reader of `deserialize`: content, declared length, bytes consumed (header, data, padding). -/
def readFrame (d : Bytes) : Bytes × Nat × Nat :=
  if d.take 1 = [254] then
    let n := natOfLE ((d.drop 1).take 3)
    ((d.drop 4).take n, n, 4 + n + (if (n + 4) % 4 ≠ 0 then 4 - (n + 4) % 4 else 0))
  else
    let n := natOfLE (d.take 1)
    ((d.drop 1).take n, n, 1 + n + (if (n + 1) % 4 ≠ 0 then 4 - (n + 1) % 4 else 0))

/-- is bit `idx` set according to `bin(m).replace('0b','')[::-1]` (`'-'` of a negative number counts as set). -/
def maskBit (m : Int) (idx : Nat) : Bool :=
  if 0 ≤ m then m.toNat.testBit idx
  else m.natAbs.testBit idx || idx == m.natAbs.log2 + 1

/-! ### serialisation -/

def fixedLen : ETy → Nat
  | .int => 4 | .long => 8 | .nat => 4 | .int128 => 16 | .int256 => 32 | .bool => 4 | _ => 0

/-- first branch of `serialize_field` for the fixed-length base types. -/
def serFixed (e : ETy) (v : Val) : Option Bytes :=
  let n := fixedLen e
  match v with
  | .bool true => some [0xb5, 0x75, 0x72, 0x99]
  | .bool false => some [0x37, 0x97, 0x79, 0xbc]
  | .bytes b => some ((b.take n).reverse ++ List.replicate (n - b.length) 0)
  | .int i => if e = .nat then natToLE? n i else intToLE? n i
  | .hex b => some b
  | .str _ => none          -- bytes.fromhex of arbitrary text: outside the modelled domain
  | _ => some []

/-- the dict handed to a nested `serialize`: a non-dict value only works when there is no field to look up. -/
def objFields? (c : Ctor) : Val → Option Fields
  | .obj _ fs => some fs
  | _ => if c.args.isEmpty then some [] else none

/-- `serialize_field(type_, value)` for one non-vector type, given `serialize` at the next depth. -/
def serOne (T : Table) (serObj : Ctor → Fields → Bool → Option Bytes) (e : ETy) (v : Val) : Option Bytes :=
  match e with
  | .bytes | .string =>
    let raw : Option (Option Bytes) :=
      match v with
      | .str u => if e = .string then some (some u) else some none
      | .hex b => if e = .string then some (some (hexAscii b)) else some none
      | .obj (some n) fs => (T.byName n).bind (fun c => (serObj c fs true).map some)
      | .bytes b => some (some b)
      | _ => some none
    raw.bind (fun r => match r with | some b => frame? b | none => some [])
  | .bare n =>
    match T.byName n with
    | some c => (objFields? c v).bind (fun fs => serObj c fs false)
    | none => none
  | .boxed cl =>
    match T.byClass cl, v with
    | [], _ => none
    | [c], v => (objFields? c v).bind (fun fs => serObj c fs true)
    | _, .bytes b => some b
    | _, .obj (some n) fs => (T.byName n).bind (fun c => serObj c fs true)
    | _, _ => none
  | .unsup => none
  | _ => serFixed e v

def serMany (one : Val → Option Bytes) : List Val → Option Bytes
  | [] => some []
  | v :: vs => do
    let b1 ← one v
    let b2 ← serMany one vs
    pure (b1 ++ b2)

def serArg (T : Table) (serObj : Ctor → Fields → Bool → Option Bytes) (a : Arg) (v : Val) : Option Bytes :=
  if a.vec then
    match v with
    | .list vs => do
      let cnt ← natToLE? 4 vs.length
      let els ← serMany (serOne T serObj a.ty) vs
      pure (cnt ++ els)
    | _ => none
  else serOne T serObj a.ty v

/-- the field loop of `serialize`: conditional fields are skipped when the dict has no value for them. -/
def serBody (T : Table) (serObj : Ctor → Fields → Bool → Option Bytes) : List Arg → Fields → Option Bytes
  | [], _ => some []
  | a :: as, data =>
    match data.lookup a.name with
    | none => if a.cond.isSome then serBody T serObj as data else none
    | some v => do
      let b1 ← serArg T serObj a v
      let b2 ← serBody T serObj as data
      pure (b1 ++ b2)

/-- `serialize(schema, data, boxed)` -/
def serObj (T : Table) : Nat → Ctor → Fields → Bool → Option Bytes
  | 0, _, _, _ => none
  | fuel+1, c, data, boxed =>
    (serBody T (serObj T fuel) c.args data).map (fun b => (if boxed then natToLE 4 c.id else []) ++ b)

/-- `schemas.serialize(c, v)` (boxed) for a dict value. -/
def serialize (T : Table) (fuel : Nat) (c : Ctor) (v : Val) : Option Bytes :=
  match v with
  | .obj _ fs => serObj T fuel c fs true
  | _ => none

/-! ### parsing -/

/-- fixed-length base types: value (or unset) and consumed bytes. -/
def readFixed (e : ETy) (d : Bytes) : Option Val × Nat :=
  match e with
  | .bool =>
    (if d.take 4 = [0xb5, 0x75, 0x72, 0x99] then some (.bool true)
     else if d.take 4 = [0x37, 0x97, 0x79, 0xbc] then some (.bool false) else none, 4)
  | .int128 => (some (.hex (d.take 16)), 16)
  | .int256 => (some (.hex (d.take 32)), 32)
  | .int => (some (.int (intOfLE (d.take 4))), 4)
  | .long => (some (.int (intOfLE (d.take 8))), 8)
  | .nat => (some (.int (natOfLE (d.take 4))), 4)
  | _ => (none, 0)

/-- `get_by_id(data[0:4], 'little')` -/
def byIdLE (T : Table) (d : Bytes) : Option Ctor :=
  if (d.take 4).length = 4 then T.byId (natOfLE (d.take 4)) else none

/-- the re-parse loop over the rest of a `bytes` content (`n` = declared length). -/
def autoLoop (top : Bytes → Option (Val × Nat)) (content : Bytes) (n : Nat) : Nat → Nat → List Val → Option Val
  | 0, _, acc => some (.list acc)
  | k+1, j, acc =>
    if j < n then
      match top (content.drop j) with
      | none => none
      | some (t, jj) => if jj = 0 then some (.bytes content) else autoLoop top content n k (j + jj) (acc ++ [t])
    else some (.list acc)

/-- auto-deserialisation of a `bytes` content. -/
def autoParse (top : Bytes → Option (Val × Nat)) (content : Bytes) (n : Nat) : Option Val :=
  match top content with
  | none => none
  | some (temp, j) => if j < n then autoLoop top content n n j [temp] else some temp

/-- one non-vector type at the head of `d`.  `rec d none` = `deserialize(d, boxed=True)`,
`rec d (some args)` = `deserialize(d, False, args)`.  Result: value (or field left unset), consumed. -/
def deserOne (T : Table) (auto : Bool) (rec : Bytes → Option (List Arg) → Option (Val × Nat))
    (untouch : Bool) (e : ETy) (inVec : Bool) (d : Bytes) : Option (Option Val × Nat) :=
  match e with
  | .bytes | .string =>
    let (content, n, tot) := readFrame d
    let r : Option Val := if !auto || untouch then some (.bytes content) else autoParse (fun x => rec x none) content n
    match r with
    | none => none
    | some v =>
      if e = .string then
        match v with
        | .bytes b => if utf8Valid b then some (some (.str b), tot) else none
        | _ => none
      else some (some v, tot)
  | .bare n =>
    match T.byName n with
    | some c =>
      match rec d (some c.args) with
      | some (.obj _ fs, j) => some (some (.obj (if inVec then none else some c.name) fs), j)
      | _ => none
    | none => (rec d none).map (fun (v, j) => (some v, j))
  | .boxed _ | .unsup => (rec d none).map (fun (v, j) => (some v, j))
  | _ => some (readFixed e d)

def deserMany (one : Bytes → Option (Val × Nat)) : Nat → Bytes → Option (List Val × Nat)
  | 0, _ => some ([], 0)
  | k+1, d => do
    let (v, j) ← one d
    let (vs, j2) ← deserMany one k (d.drop j)
    pure (v :: vs, j + j2)

/-- one vector element (an element that leaves itself unset - invalid `Bool` - raises). -/
def deserElem (T : Table) (auto : Bool) (rec : Bytes → Option (List Arg) → Option (Val × Nat)) (e : ETy)
    (x : Bytes) : Option (Val × Nat) :=
  match deserOne T auto rec false e true x with
  | some (some v, j) => some (v, j)
  | _ => none

def deserArg (T : Table) (auto : Bool) (rec : Bytes → Option (List Arg) → Option (Val × Nat))
    (untouch : Bool) (a : Arg) (d : Bytes) : Option (Option Val × Nat) :=
  if a.vec then
    let cnt := natOfLE (d.take 4)
    if d.length < 4 + cnt then none
    else
      (deserMany (deserElem T auto rec a.ty) cnt (d.drop 4)).map (fun (vs, j) => (some (.list vs), 4 + j))
  else deserOne T auto rec untouch a.ty false d

/-- `result.get('mode', result.get('flags'))` -/
def flagVal (T : Table) (acc : Fields) : Option Val :=
  match acc.lookup T.modeKey with
  | some v => some v
  | none => acc.lookup T.flagsKey

/-- the field loop of `deserialize`: `acc` = `result` so far, returns all fields and the consumed count. -/
def deserBody (T : Table) (auto : Bool) (rec : Bytes → Option (List Arg) → Option (Val × Nat))
    (schema : Option Nat) : List Arg → Fields → Bytes → Option (Fields × Nat)
  | [], acc, _ => some (acc, 0)
  | a :: as, acc, d =>
    let present : Option Bool :=
      match a.cond with
      | none => some true
      | some (_, bit) =>
        match flagVal T acc with
        | some (.int m) => some (maskBit m bit)
        | some (.bool b) => some (maskBit (if b then 1 else 0) bit)      -- `bin(True)` = '0b1': a bool is an int
        | _ => none
    match present with
    | none => none
    | some false => deserBody T auto rec schema as acc d
    | some true =>
      let ut := match schema with
        | some s => T.untouch.contains (s, a.name)
        | none => false
      match deserArg T auto rec ut a d with
      | none => none
      | some (ov, j) =>
        let acc' := match ov with
          | some v => acc ++ [(a.name, v)]
          | none => acc
        match deserBody T auto rec schema as acc' (d.drop j) with
        | none => none
        | some (fs, j2) => some (fs, j + j2)

/-- `deserialize(data, boxed, args)`: `args = none` is the boxed call. -/
def deserObj (T : Table) (auto : Bool) : Nat → Bytes → Option (List Arg) → Option (Val × Nat)
  | 0, _, _ => none
  | fuel+1, d, some args =>
    (deserBody T auto (deserObj T auto fuel) none args [] d).map (fun (fs, j) => (.obj none fs, j))
  | fuel+1, d, none =>
    match byIdLE T d with
    | none => some (.bytes d, d.length)
    | some c =>
      (deserBody T auto (deserObj T auto fuel) (some c.name) c.args [] (d.drop 4)).map
        (fun (fs, j) => (.obj (some c.name) fs, 4 + j))

/-- `schemas.deserialize(data)` -/
def deserialize (T : Table) (auto : Bool) (fuel : Nat) (d : Bytes) : Option (Val × Nat) :=
  deserObj T auto fuel d none

/-! ### block.py -/

structure BlockId where
  workchain : Int
  shard : Int
  seqno : Int
deriving DecidableEq, Repr

structure BlockIdExt where
  workchain : Int
  shard : Int
  seqno : Int
  rootHash : Bytes
  fileHash : Bytes
deriving DecidableEq, Repr

/-- `int.to_bytes(w, 'big', signed=True)` -/
def intToBE? (w : Nat) (i : Int) : Option Bytes := (intToLE? w i).map List.reverse

/-- `int.from_bytes(bs, 'big', signed=True)` -/
def intOfBE (bs : Bytes) : Int := intOfLE bs.reverse

def BlockIdExt.toBytes (b : BlockIdExt) : Option Bytes := do
  let w ← intToBE? 4 b.workchain
  let s ← intToBE? 8 b.shard
  let q ← intToBE? 4 b.seqno
  pure (w ++ s ++ q ++ b.rootHash ++ b.fileHash)

def BlockIdExt.fromBytes (d : Bytes) : BlockIdExt :=
  { workchain := intOfBE (d.take 4), shard := intOfBE ((d.drop 4).take 8), seqno := intOfBE ((d.drop 12).take 4),
    rootHash := (d.drop 16).take 32, fileHash := (d.drop 48).take 32 }

/-- dict form: (workchain, shard, seqno, root_hash hex, file_hash hex); the hashes are `hex` strings. -/
structure BlockDict where
  workchain : Int
  shard : Int
  seqno : Int
  rootHash : Option Bytes   -- the bytes whose `.hex()` the dict holds
  fileHash : Option Bytes
deriving DecidableEq, Repr

def BlockIdExt.toDict (b : BlockIdExt) : BlockDict :=
  { workchain := b.workchain, shard := b.shard, seqno := b.seqno, rootHash := some b.rootHash, fileHash := some b.fileHash }

/-- `from_dict`: `bytes.fromhex(x.hex()) = x` is the modelled library behaviour. -/
def BlockIdExt.fromDict (d : BlockDict) : Option BlockIdExt := do
  let r ← d.rootHash
  let f ← d.fileHash
  pure { workchain := d.workchain, shard := d.shard, seqno := d.seqno, rootHash := r, fileHash := f }

def BlockId.toDict (b : BlockId) : BlockDict :=
  { workchain := b.workchain, shard := b.shard, seqno := b.seqno, rootHash := none, fileHash := none }

def BlockId.fromDict (d : BlockDict) : BlockId :=
  { workchain := d.workchain, shard := d.shard, seqno := d.seqno }

/-- `__eq__`: all five fields are compared. -/
def BlockIdExt.pyEq (a b : BlockIdExt) : Bool :=
  !(a.seqno != b.seqno || a.workchain != b.workchain || a.shard != b.shard || a.rootHash != b.rootHash ||
    a.fileHash != b.fileHash)

/-- `__hash__` = `hash((workchain, shard, seqno, root_hash, file_hash))`; `H` is Python's tuple hash (an int). -/
def BlockIdExt.pyHash (H : Int × Int × Int × Bytes × Bytes → Int) (a : BlockIdExt) : Int :=
  H (a.workchain, a.shard, a.seqno, a.rootHash, a.fileHash)

end TonVerif.Model.Tl
