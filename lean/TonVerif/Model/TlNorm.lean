/-
`normalize`: what `TlSchemas.deserialize` (auto-deserialisation ON) makes of a well-typed value after it has been
serialised - the value itself except that the content of every `bytes`/`string` field (other than the untouchables
of a boxed object) has gone through the library's re-parse loop (`autoParse`/`autoLoop` of Model/Tl.lean: the
content is parsed as a boxed object; if that consumed less than the content the rest is parsed again and again
and the field becomes a list; a `string` whose content was re-parsed into anything else than bytes makes the
call raise = `none`).

Type directed (the field types of the constructor decide which parts are contents), one unit of `fuel` per
nested object exactly like `deserObj`: the re-parse inside an object parsed with budget `fuel+1` runs with
budget `fuel`.  Values that are not of the declared type are left alone.  Import-free (used by the driver).
-/
import TonVerif.Model.Tl

namespace TonVerif.Model.Tl
open TonVerif TonVerif.Spec.Tl

/-- the library's re-parse of the complete content `b` of a `bytes` field; nested calls have depth budget `fuel`. -/
def reparse (T : Table) (fuel : Nat) (b : Bytes) : Option Val :=
  autoParse (fun x => deserObj T true fuel x none) b b.length

/-- one non-vector value of element type `e`.  `rep` = the re-parse of a content, `rec schema args fs` = the
normal form of the fields of a nested object (`schema` = its name if it is parsed by a boxed call). -/
def normOne (T : Table) (rep : Bytes → Option Val) (rec : Option Nat → List Arg → Fields → Option Fields)
    (untouch : Bool) (e : ETy) (v : Val) : Option Val :=
  match e, v with
  | .bytes, .bytes b => if untouch then some (.bytes b) else rep b
  | .string, .str b =>
    let r : Option Val := if untouch then some (.bytes b) else rep b
    match r with
    | some (.bytes b') => if utf8Valid b' then some (.str b') else none
    | _ => none
  | .bare n, .obj ty fs =>
    match T.byName n with
    | some c => (rec none c.args fs).map (fun fs' => .obj ty fs')
    | none => some v
  | .boxed _, .obj (some n) fs =>
    match T.byName n with
    | some c => (rec (some c.name) c.args fs).map (fun fs' => .obj (some n) fs')
    | none => some v
  | _, v => some v

def normMany (one : Val → Option Val) : List Val → Option (List Val)
  | [] => some []
  | v :: vs => do
    let w ← one v
    let ws ← normMany one vs
    pure (w :: ws)

/-- one field: vector elements are never untouchable. -/
def normArg (T : Table) (rep : Bytes → Option Val) (rec : Option Nat → List Arg → Fields → Option Fields)
    (untouch : Bool) (a : Arg) (v : Val) : Option Val :=
  if a.vec then
    match v with
    | .list vs => (normMany (normOne T rep rec false a.ty) vs).map (fun ws => .list ws)
    | _ => some v
  else normOne T rep rec untouch a.ty v

/-- the fields `args` declares, in declaration order, each in normal form. -/
def normBody (T : Table) (rep : Bytes → Option Val) (rec : Option Nat → List Arg → Fields → Option Fields)
    (schema : Option Nat) : List Arg → Fields → Option Fields
  | [], _ => some []
  | a :: as, whole =>
    match whole.lookup a.name with
    | none => normBody T rep rec schema as whole
    | some v =>
      let ut := match schema with
        | some s => T.untouch.contains (s, a.name)
        | none => false
      match normArg T rep rec ut a v with
      | none => none
      | some w => (normBody T rep rec schema as whole).map (fun fs => (a.name, w) :: fs)

/-- the fields of an object parsed with depth budget `fuel`. -/
def normObj (T : Table) : Nat → Option Nat → List Arg → Fields → Option Fields
  | 0, _, _, _ => none
  | fuel+1, schema, args, fs => normBody T (reparse T fuel) (normObj T fuel) schema args fs

/-- `normalize T fuel c v`: the value `schemas.deserialize(schemas.serialize(c, v))` returns with auto-deserialisation
on and depth budget `fuel` (`none` = it raises). -/
def normalize (T : Table) (fuel : Nat) (c : Ctor) (v : Val) : Option Val :=
  match v with
  | .obj ty fs => (normObj T fuel (some c.name) c.args fs).map (fun fs' => .obj ty fs')
  | _ => none

/-! ### depth of bare nesting (for the explicit depth budget) -/

/-- bare references nest at most `k` deep below `args` (no cycle through bare references). -/
def bareArgsOK (T : Table) : Nat → List Arg → Bool
  | 0, _ => false
  | k+1, args => args.all (fun a =>
      match a.ty with
      | .bare n =>
        match T.byName n with
        | some c => bareArgsOK T k c.args
        | none => true
      | _ => true)

/-- no constructor of the table reaches itself through bare references: below every constructor bare references
nest at most `R` deep. -/
def NoBareCycle (T : Table) (R : Nat) : Prop := ∀ c ∈ T.ctors, bareArgsOK T R c.args = true

/-- recursion depth that suffices for ANY input of `len` bytes under `NoBareCycle T R`: a boxed object costs one
level per 4 bytes of input (its id), bare objects at most `R` levels in between. -/
def tlFuel (R len : Nat) : Nat := (len / 4 + 1) * (R + 2)

end TonVerif.Model.Tl
