/-
Model of the ADNL channel crypto (`pytoniq_core/crypto/ciphers.py`), the signing helpers
(`crypto/signature.py`) and the mnemonic / key derivation code (`crypto/keys.py`), as coded.

Every cryptographic primitive is a FIELD of `Prims` (a parameter, never an axiom); the algebraic laws the
theorems need are hypotheses stated in `Proofs/Adnl.lean` (`ChannelLaws`, `SignLaw`).

Python                                                    model
  hashlib.sha256(x).digest()                                P.H x
  x25519.scalar_mult(priv, pub)                             P.dh priv pub
  AES.new(k, MODE_CTR, initial_value=iv, nonce=b'')         P.ctr k iv d   (one fresh cipher object per call,
      .encrypt(d) / .decrypt(d)                                            exactly as encrypt()/decrypt() do)
  SigningKey(seed).to_curve25519_private_key().encode()     P.edToXPriv seed
  PrivateKey(x).public_key.encode()                         P.xPub x
  SigningKey(seed).verify_key.encode()                      P.edPub seed
  VerifyKey(pub).to_curve25519_public_key().encode()        P.edToXPub pub
  crypto_sign_seed_keypair(seed) -> (pk, sk)                P.keypair seed
  crypto_sign(msg, sk)            (signature ++ message)    P.cryptoSign msg sk
  VerifyKey(pub).verify(msg, sig) (False or raises = false) P.verify pub msg sig
  hmac.new(key, msg, sha512).digest()                       P.hmac512 key msg
  hashlib.pbkdf2_hmac('sha512', pw, salt, iters)            P.pbkdf2 pw salt iters
  " ".join(words).encode('utf-8')                           P.joinWords ws
  os.urandom(n)   (k-th call of the run)                    rnd k   (an arbitrary stream)
A raised exception is `none`.  `while True` loops carry fuel; `none` also stands for "fuel exhausted"
(the Python loop would still be running) — the theorems speak about returned values only.
-/
import TonVerif.Basic

namespace TonVerif.Model.Adnl
open TonVerif

structure Prims (W : Type) where
  H : Bytes → Bytes
  dh : Bytes → Bytes → Bytes
  ctr : Bytes → Bytes → Bytes → Bytes
  edToXPriv : Bytes → Bytes
  xPub : Bytes → Bytes
  edPub : Bytes → Bytes
  edToXPub : Bytes → Bytes
  keypair : Bytes → Bytes × Bytes
  cryptoSign : Bytes → Bytes → Bytes
  verify : Bytes → Bytes → Bytes → Bool
  hmac512 : Bytes → Bytes → Bytes
  pbkdf2 : Bytes → Bytes → Nat → Bytes
  joinWords : List W → Bytes

/-! ## ciphers.py -/

/-- Python `a < b` on `bytes`: lexicographic, a proper prefix is smaller. -/
def bytesLt : Bytes → Bytes → Bool
  | [], [] => false
  | [], _ :: _ => true
  | _ :: _, [] => false
  | x :: xs, y :: ys => if x < y then true else if y < x then false else bytesLt xs ys

/-- Python slice `b[i:j]` for `0 ≤ i ≤ j`. -/
def slice (b : Bytes) (i j : Nat) : Bytes := (b.drop i).take (j - i)

def magicAes : Bytes := [0xd4, 0xad, 0xbc, 0x2d]     -- b'\xd4\xad\xbc-'
def magicKey : Bytes := [0xc6, 0xb4, 0x13, 0x48]

/-- `get_key_aes_id(key) = sha256(b'\xd4\xad\xbc-' + key)`. -/
def keyAesId {W} (P : Prims W) (key : Bytes) : Bytes := P.H (magicAes ++ key)

/-- `Client(ed25519_private_key)`: the four stored keys. -/
structure Client where
  edPriv : Bytes
  edPub : Bytes
  xPriv : Bytes
  xPub : Bytes

def Client.new {W} (P : Prims W) (seed : Bytes) : Client :=
  let xp := P.edToXPriv seed
  { edPriv := seed, edPub := P.edPub seed, xPriv := xp, xPub := P.xPub xp }

/-- `Server(host, port, pub_key)`. -/
structure Server where
  edPub : Bytes
  xPub : Bytes

def Server.new {W} (P : Prims W) (pub : Bytes) : Server := { edPub := pub, xPub := P.edToXPub pub }

/-- `Crypto.get_key_id`. -/
def keyId {W} (P : Prims W) (edPub : Bytes) : Bytes := P.H (magicKey ++ edPub)

/-- the attributes of `AdnlChannel`. -/
structure Channel where
  shared : Bytes
  encKey : Bytes
  decKey : Bytes
  clientAesKeyId : Bytes
  serverAesKeyId : Bytes

/-- `AdnlChannel.__init__(client, server, local_id, peer_id)`: three-way comparison, `[::-1]` reversal. -/
def Channel.new {W} (P : Prims W) (client : Client) (server : Server) (localId peerId : Bytes) : Channel :=
  let shared := P.dh client.xPriv server.xPub
  let (enc, dec) :=
    if bytesLt peerId localId then (shared, shared.reverse)            -- local_id > peer_id
    else if bytesLt localId peerId then (shared.reverse, shared)       -- local_id < peer_id
    else (shared, shared)
  { shared := shared, encKey := enc, decKey := dec,
    clientAesKeyId := keyAesId P enc, serverAesKeyId := keyAesId P dec }

/-- `create_aes_ctr_sipher_from_key_n_data(key, data)` + `create_aes_ctr_cipher`: the (key, iv) of the cipher
object; `none` = "key should be 32 bytes exactly!" or AES.new rejecting an initial value that is not 16 bytes. -/
def cipherParams (key data : Bytes) : Option (Bytes × Bytes) :=
  let k := slice key 0 16 ++ slice data 16 32
  let iv := slice data 0 4 ++ slice key 20 32
  if k.length ≠ 32 then none
  else if iv.length ≠ 16 then none
  else some (k, iv)

/-- `AdnlChannel.encrypt(data)` = key id ‖ sha256(data) ‖ AES-CTR(data). -/
def Channel.encrypt {W} (P : Prims W) (c : Channel) (data : Bytes) : Option Bytes :=
  let checksum := P.H data
  match cipherParams c.encKey checksum with
  | none => none
  | some (k, iv) => some (c.clientAesKeyId ++ checksum ++ P.ctr k iv data)

/-- `AdnlChannel.decrypt(encrypted_data, checksum)`. -/
def Channel.decrypt {W} (P : Prims W) (c : Channel) (enc checksum : Bytes) : Option Bytes :=
  match cipherParams c.decKey checksum with
  | none => none
  | some (k, iv) => some (P.ctr k iv enc)

/-! ## signature.py, `get_signature` -/

/-- `sign_message(message, signing_key)` = `crypto_sign(message, signing_key)[:64]`. -/
def signMessage {W} (P : Prims W) (msg sk : Bytes) : Bytes := slice (P.cryptoSign msg sk) 0 64

/-- `verify_sign(public_key, signed_message, signature)`. -/
def verifySign {W} (P : Prims W) (pub msg sig : Bytes) : Bool := P.verify pub msg sig

/-- `get_signature(private_key, message)` / `Client.sign`: `SigningKey(seed).sign(message)[:64]`. -/
def getSignature {W} (P : Prims W) (seed msg : Bytes) : Bytes :=
  slice (P.cryptoSign msg (P.keypair seed).2) 0 64

/-! ## keys.py -/

def pbkdfIterations : Nat := 100000
def saltVersion : Bytes := "TON seed version".toUTF8.toList.map UInt8.toNat
def saltDefault : Bytes := "TON default seed".toUTF8.toList.map UInt8.toNat

/-- `mnemonic_to_entropy(words)` = HMAC-SHA512(key = " ".join(words), msg = b''). -/
def mnemonicToEntropy {W} (P : Prims W) (ws : List W) : Bytes := P.hmac512 (P.joinWords ws) []

/-- `is_basic_seed(entropy)`: `pbkdf2(entropy, 'TON seed version', max(1, 100000 // 256))[0] == 0`
(an empty PBKDF2 output would raise IndexError; both users treat that as "not valid": `false`). -/
def isBasicSeed {W} (P : Prims W) (entropy : Bytes) : Bool :=
  (P.pbkdf2 entropy saltVersion (max 1 (pbkdfIterations / 256))).head? == some 0

/-- `mnemonic_is_valid(words)`. -/
def mnemonicIsValid {W} (P : Prims W) (ws : List W) : Bool :=
  ws.length == 24 && isBasicSeed P (mnemonicToEntropy P ws)

/-- `mnemonic_to_seed(words, seed)`. -/
def mnemonicToSeed {W} (P : Prims W) (ws : List W) (salt : Bytes) : Bytes :=
  P.pbkdf2 (mnemonicToEntropy P ws) salt pbkdfIterations

/-- `mnemonic_to_private_key(words)` = `crypto_sign_seed_keypair(seed[:32])`. -/
def mnemonicToPrivateKey {W} (P : Prims W) (ws : List W) : Bytes × Bytes :=
  P.keypair (slice (mnemonicToSeed P ws saltDefault) 0 32)

/-- `mnemonic_to_wallet_key(words)`: a second `crypto_sign_seed_keypair` on `priv_k[:32]`. -/
def mnemonicToWalletKey {W} (P : Prims W) (ws : List W) : Bytes × Bytes :=
  P.keypair (slice (mnemonicToPrivateKey P ws).2 0 32)

/-- `math.ceil(math.log2(n))` for `n ≥ 1` (exact in Python for the `n < 2^48` used here). -/
def clog2 (n : Nat) : Nat := if n ≤ 1 then 0 else Nat.log2 (n - 1) + 1

/-- `get_secure_random_number(min_v, max_v)`; state = index of the next `os.urandom` call.
`none`: `log2` of a non-positive range / "Range is too large" / a short urandom answer / fuel exhausted. -/
def secureRandomNumber (rnd : Nat → Bytes) (minV maxV : Nat) : Nat → Nat → Option (Nat × Nat)
  | 0, _ => none
  | fuel + 1, k =>
    let range := maxV - minV
    if maxV ≤ minV then none
    else
      let bits := clog2 range
      if bits > 53 then none
      else
        let bytesNeeded := (bits + 7) / 8
        let mask := 2 ^ bits - 1
        let res := rnd k                              -- os.urandom(bits_needed)
        if res.length < bytesNeeded then none         -- res[i] IndexError (cannot happen with os.urandom)
        else
          let number := (natOfBE (res.take bytesNeeded)) % (mask + 1)      -- int(number_val) & int(mask)
          if number ≥ range then secureRandomNumber rnd minV maxV fuel (k + 1)
          else some (minV + number, k + 1)

/-- the inner `for _ in range(words_count)` of `mnemonic_new`. -/
def drawWords {W} (words : List W) (rnd : Nat → Bytes) (fuel : Nat) : Nat → Nat → Option (List W × Nat)
  | 0, k => some ([], k)
  | n + 1, k =>
    match secureRandomNumber rnd 0 words.length fuel k with
    | none => none
    | some (idx, k') =>
      match words[idx]? with
      | none => none                                   -- words[idx] IndexError
      | some w =>
        match drawWords words rnd fuel n k' with
        | none => none
        | some (ws, k'') => some (w :: ws, k'')

/-- `mnemonic_new(words_count)`: retry until `is_basic_seed(mnemonic_to_entropy(arr))`. -/
def mnemonicNew {W} (P : Prims W) (words : List W) (rnd : Nat → Bytes) (wordsCount : Nat) (innerFuel : Nat) :
    Nat → Nat → Option (List W × Nat)
  | 0, _ => none
  | fuel + 1, k =>
    match drawWords words rnd innerFuel wordsCount k with
    | none => none
    | some (arr, k') =>
      if !isBasicSeed P (mnemonicToEntropy P arr) then mnemonicNew P words rnd wordsCount innerFuel fuel k'
      else some (arr, k')

end TonVerif.Model.Adnl
