/-
C16 source tie — the READER primitives: hand-written meaning of the `pytoniq_core.boc.slice.Slice` methods that the
TL-B parsers (`pytoniq_core/tlb/{account,transaction,block,config,utils}.py`, the `deserialize` classmethods) call, and of
the few pure Python operations those parsers apply to what they read.  `harness/translate/tlbparsers.py` regenerates
`Generated/TlbParsers.lean` from the Python source: one Lean function per class, in the `Option` monad (`none` = the
parser raises), written with exactly these primitives.

A slice is a `Frag` (remaining bits, remaining references) plus its `is_special()` flag (a separate `Bool`, constant
for the life of the slice).  A Python value is a `Val`:
  int → `.int`, bool → `.bool`, `None` → `.unit`, bytes / bitarray / '0101' strings → `.bits`, Cell → `.cell`,
  any other str `'abc'` → `.con "abc" .unit`, `x.hex()` → `.con "hex" x`, an object `cls(a=…, b=…)` → `.con "<Class>"
  (.record [("a", …), ("b", …)])` (positional arguments are named by the parameters of `__init__`).

Core Lean only (the driver links this file).
-/
import TonVerif.Spec.Tlb.Codec

namespace TonVerif.Tlb.Rd
open TonVerif TonVerif.Tlb

abbrev R := Option (Val × Frag)

/-! ### values -/

/-- a Python `str` that is not a bit string -/
def str (s : String) : Val := .con s .unit
/-- `cls(k=v, …)` -/
def obj (cls : String) (kw : List (String × Val)) : Val := .con cls (.record kw)
/-- `x.hex()` -/
def hex (v : Val) : Val := .con "hex" v
/-- a bytes literal, given by its byte values -/
def bytesLit (bs : List Nat) : Val := .bits (bs.flatMap (natToBits 8))
/-- a '0101' literal -/
def bits01 (b : Bits) : Val := .bits b

/-- Python truthiness of what the parsers test (`if cell_slice.load_bit():`, `if not tag:`, `if key_block:`) -/
def truthy : Val → Bool
  | .int i => i != 0
  | .bool b => b
  | .unit => false
  | .bits b => !b.isEmpty
  | _ => true

/-- `a == b` on the values the parsers compare (ints, bools, bytes / bit strings, `None`, plain strings) -/
def veq : Val → Val → Bool
  | .int a, .int b => a == b
  | .bool a, .bool b => a == b
  | .int a, .bool b => a == (if b then 1 else 0)
  | .bool a, .int b => (if a then 1 else 0) == b
  | .bits a, .bits b => a == b
  | .unit, .unit => true
  | .con a .unit, .con b .unit => a == b
  | _, _ => false

def toInt : Val → Option Int
  | .int i => some i
  | .bool b => some (if b then 1 else 0)
  | _ => none

/-- `a <= b` on ints (`none` = TypeError) -/
def vle (a b : Val) : Option Bool := do return decide ((← toInt a) ≤ (← toInt b))
def vlt (a b : Val) : Option Bool := do return decide ((← toInt a) < (← toInt b))

/-- `bin(x)[-1] == '1'` for a non-negative int -/
def lowBit (a : Val) : Option Bool := do
  let i ← toInt a
  if i < 0 then none else return i % 2 == 1

/-- `x[:k]` on bytes -/
def bytesPrefix (k : Nat) : Val → Option Val
  | .bits b => some (.bits (b.take (8 * k)))
  | _ => none

/-- `str(bit)` for a bit read with `load_bit` -/
def strOfBit : Val → Option Val
  | .int 0 => some (.bits [false])
  | .int 1 => some (.bits [true])
  | _ => none

/-- `+` on '0101' strings -/
def bitsCat : Val → Val → Option Val
  | .bits a, .bits b => some (.bits (a ++ b))
  | _, _ => none

/-! ### slice methods (`none` = raises) -/

def takeBits (n : Nat) (s : Frag) : Option (Bits × Frag) :=
  if s.bits.length < n then none else some (s.bits.take n, ⟨s.bits.drop n, s.refs⟩)

/-- `ba2int(bits, signed=True)` -/
def sintOfBits (b : Bits) : Int :=
  let u := natOfBits b
  if u < 2 ^ (b.length - 1) then (u : Int) else (u : Int) - (2 ^ b.length : Int)

/-- `load_uint(n)`; `ba2int` refuses an empty bitarray -/
def loadUint (n : Nat) (s : Frag) : R :=
  if n = 0 then none else (takeBits n s).map fun (b, s') => (.int (natOfBits b), s')

/-- `load_int(n)` -/
def loadInt (n : Nat) (s : Frag) : R :=
  if n = 0 then none else (takeBits n s).map fun (b, s') => (.int (sintOfBits b), s')

/-- `load_bit()` : an int 0 / 1 -/
def loadBit (s : Frag) : R :=
  match s.bits with
  | [] => none
  | b :: r => some (.int (if b then 1 else 0), ⟨r, s.refs⟩)

/-- `load_bool()` -/
def loadBool (s : Frag) : R :=
  match s.bits with
  | [] => none
  | b :: r => some (.bool b, ⟨r, s.refs⟩)

/-- `preload_bit()` -/
def preloadBit (s : Frag) : Option Val :=
  match s.bits with
  | [] => none
  | b :: _ => some (.int (if b then 1 else 0))

/-- `load_bits(n)` (also `.to01()` of it) -/
def loadBits (n : Nat) (s : Frag) : R := (takeBits n s).map fun (b, s') => (.bits b, s')
/-- `preload_bits(n)` -/
def preloadBits (n : Nat) (s : Frag) : Option Val := (takeBits n s).map fun (b, _) => .bits b
/-- `load_bytes(k)` -/
def loadBytes (k : Nat) (s : Frag) : R := loadBits (8 * k) s
/-- `preload_bytes(k)` -/
def preloadBytes (k : Nat) (s : Frag) : Option Val := preloadBits (8 * k) s
/-- `skip_bits(n)` -/
def skipBits (n : Nat) (s : Frag) : Option Frag := (takeBits n s).map (·.2)

/-- `load_var_uint(bit_length)` -/
def loadVarUint (bl : Nat) (s : Frag) : R :=
  match loadUint bl s with
  | some (.int len, s') => if len = 0 then some (.int 0, s') else loadUint (len.toNat * 8) s'
  | _ => none

/-- `load_coins()` -/
def loadCoins (s : Frag) : R := loadVarUint 4 s

/-- `load_ref()` : the next reference, as a cell -/
def loadRef (s : Frag) : Option (Cell × Frag) :=
  match s.refs with
  | [] => none
  | c :: more => some (c, ⟨s.bits, more⟩)

/-- `load_ref()` used as a value (`^Cell` fields) -/
def loadRefV (s : Frag) : R := (loadRef s).map fun (c, s') => (.cell c, s')

/-- `load_maybe_ref()` -/
def loadMaybeRef (s : Frag) : R :=
  match loadBit s with
  | some (b, s') => if truthy b then loadRefV s' else some (.unit, s')
  | none => none

/-- `cell.begin_parse()` : the slice … -/
def beginParse (c : Cell) : Frag := ⟨c.bits, c.refs⟩
/-- … and its `is_special()` -/
def special (c : Cell) : Bool := c.exotic

/-- `slice.to_cell()` / `slice.copy().to_cell()` -/
def toCell (sp : Bool) (s : Frag) : Val := .cell (.mk sp s.bits s.refs)

end TonVerif.Tlb.Rd
