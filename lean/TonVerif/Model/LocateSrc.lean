/-
C11: the TL-B walk of `check_account_proof` on the REGENERATED parsers.

    shard = ShardStateUnsplit.deserialize(state_cell[0].begin_parse())        -- Generated/LocateSrc.lean `SrcLoc.ShardStateUnsplit`
    shard_account = shard.accounts[0][int.from_bytes(address.hash_part, 'big')]
    shard_account.cell[0]

`srcLocate c addr` is that expression with the parser classes taken from the source (Generated/LocateSrc.lean + the C16 files
Generated/TlbParsers{,Tx,Blk}.lean) and the Python glue around them written here: attribute access (`None.accounts` raises),
`tuple[0]`, `dict[int]` (KeyError), `Cell[0]` (IndexError).  The parsers work on `Tlb.Cell` (exotic flag, bits, references);
`tcell` forgets the cached hashes of a constructed cell object.  `srcOpaque` instantiates the two Boolean parameters of the hand
model `locateAccount` (Model/Locate.lean) with the regenerated `Account` / `McStateExtra` parsers.

Core Lean only (the driver links this file).
-/
import TonVerif.Model.Locate
import TonVerif.Generated.LocateSrc
namespace TonVerif.Model
open TonVerif TonVerif.Tlb

mutual
  /-- what a TL-B parser sees of a constructed cell object: `is_special()`, the data bits, the child objects -/
  def tcell : PCell → Tlb.Cell
    | .mk i refs => .mk (i.kind != -1) i.bits (tcells refs)
  def tcells : List PCell → List Tlb.Cell
    | [] => []
    | c :: cs => tcell c :: tcells cs
end

/-- `c.begin_parse()` of a constructed cell -/
def pfrag (c : PCell) : Frag := ⟨c.info.bits, tcells c.refs⟩

/-- a slice of a constructed cell as the parsers see it -/
def psliceFrag (s : PSlice) : Frag := ⟨s.1, tcells s.2⟩

/-- `obj.<name>` on a parsed object (`None.<name>` / anything else raises) -/
def pyAttr : Val → String → Option Val
  | .con _ (.record kw), n => kw.lookup n
  | _, _ => none

/-- `t[0]` on what `load_hashmap_aug_e` returned: a `(dict, extras)` tuple.  `None[0]` (exotic root) raises; for a special `accounts`
slice the result is a `Cell`, whose `[0][key].cell` ends in an IndexError / AttributeError in every case: `none` -/
def pyItem0 : Val → Option Val
  | .con "tuple" (.record kv) => kv.lookup "0"
  | _ => none

/-- `d[key]` on a dict with int keys (a later entry with the same key wins); KeyError = none -/
def pyDictItem : Val → Nat → Option Val
  | .con "dict" (.record kv), k => kv.reverse.lookup (toString k)
  | _, _ => none

/-- `cell[0]` -/
def pyCellItem0 : Val → Option Tlb.Cell
  | .cell c => c.refs[0]?
  | _ => none

/-- `ShardStateUnsplit.deserialize(c.begin_parse()).accounts[0][int.from_bytes(addr, 'big')].cell[0]` on the regenerated parsers -/
def srcLocate (c : Tlb.Cell) (addr : Bytes) : Option Tlb.Cell :=
  match SrcLoc.ShardStateUnsplit (Rd.special c) (Rd.beginParse c) with
  | none => none
  | some (shard, _) =>
    (pyAttr shard "accounts").bind fun accounts =>
    (pyItem0 accounts).bind fun d =>
    (pyDictItem d (natOfBE addr)).bind fun sa =>
    (pyAttr sa "cell").bind pyCellItem0

/-- the two sub-parsers `locateAccount` keeps abstract, read from the source: `Account.deserialize` / `McStateExtra.deserialize`
(regenerated, C16) return on `c.begin_parse()` -/
def srcOpaque : Opaque where
  account c := (SrcBlk.Account (Rd.special (tcell c)) (pfrag c)).isSome
  mcExtra c := (SrcBlk.McStateExtra (Rd.special (tcell c)) (pfrag c)).isSome

mutual
  def tcellBeq : Tlb.Cell → Tlb.Cell → Bool
    | .mk e b r, .mk e' b' r' => e == e' && b == b' && tcellsBeq r r'
  def tcellsBeq : List Tlb.Cell → List Tlb.Cell → Bool
    | [], [] => true
    | a :: as, b :: bs => tcellBeq a b && tcellsBeq as bs
    | _, _ => false
end

end TonVerif.Model
