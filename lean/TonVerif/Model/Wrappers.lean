/-
Model of the stand-alone wrappers: `tlb/utils.py` (`HashUpdate`), `tlb/custom/wallet.py` (`WalletV3Data`,
`WalletV4Data`, `HighloadWalletData`, `WalletMessage`) and `tlb/custom/nft.py` (`NftItemData`,
`NftItemSaleFees`, `NftItemSaleData`), exactly as coded, on `BOp`/`SOp` of `Model/Builder.lean`.

Conventions (as in `Model/Message.lean`)
* `Builder()…end_cell()` is `cellOf ops <program>`; `none` = the method raised.
* `X.deserialize(cell.begin_parse())` runs the slice program on `ops.view cell`; the library does NOT check
  that the slice is exhausted afterwards (trailing data is ignored).
* `store_bytes(b)` appends `8·len(b)` bits whatever the length: the wrappers do not check that a key / hash has
  32 bytes.  `load_bytes(32)` raises when fewer than 256 bits remain (`del self.bits[:256]`).
* `store_bool(v)` = `bits.append(v)`, `load_bool()` = `preload_bit(); del bits[0]` : `storeBit` / `loadBit`.
* dictionaries (`plugins`, `old_queries`) are their optional root cells; `HashMap.serialize` / `HashMap.parse`
  are C09/C10.

The model mirrors the code AFTER the fix of F23 (`HighloadWalletData.serialize` used to serialise a new, empty
`HashMap` instead of `self.old_queries`; `WalletMessage.deserialize` used to be `pass`).
-/
import TonVerif.Model.Message
import TonVerif.Spec.Tlb.Wrappers

namespace TonVerif.Model.Message
open TonVerif TonVerif.Model TonVerif.Model.BOp
open TonVerif.Spec.Tlb

variable {R : Type}

/-- `<Wrapper>.deserialize(cell.begin_parse())` -/
def parseCell {α} (ops : CellOps R) (p : SOp R α) (c : R) : Option α :=
  let v := ops.view c
  (p ⟨v.1, v.2⟩).2

/-! ### `HashUpdate` -/

/-- `HashUpdate.serialize` : `store_bytes(b'\x72')`, two hashes -/
def hashUpdateB (h : HashUpd) : BOp R := storeBytes [0x72] ⊳ storeBytes h.oldHash ⊳ storeBytes h.newHash

/-- `HashUpdate.deserialize` : `tag = load_bytes(1)[:1]; if tag != b'r': raise` -/
def loadHashUpdate : SOp R HashUpd := do
  let tag ← SOp.loadBytes 1
  if tag.take 1 != [0x72] then SOp.fail else do
    let o ← SOp.loadBytes 32
    let n ← SOp.loadBytes 32
    return ⟨o, n⟩

def serializeHashUpd (ops : CellOps R) (h : HashUpd) : Option R := cellOf ops (hashUpdateB h)
def deserializeHashUpd (ops : CellOps R) (c : R) : Option HashUpd := parseCell ops loadHashUpdate c

/-! ### wallets -/

/-- `WalletV3Data.serialize` -/
def walletV3B (w : WalletV3) : BOp R :=
  storeUint w.seqno 32 ⊳ storeUint w.walletId 32 ⊳ storeBytes w.publicKey

/-- `WalletV3Data.deserialize` -/
def loadWalletV3 : SOp R WalletV3 := do
  let s ← SOp.loadUint 32
  let w ← SOp.loadUint 32
  let pk ← SOp.loadBytes 32
  return ⟨s, w, pk⟩

def serializeWalletV3 (ops : CellOps R) (w : WalletV3) : Option R := cellOf ops (walletV3B w)
def deserializeWalletV3 (ops : CellOps R) (c : R) : Option WalletV3 := parseCell ops loadWalletV3 c

/-- `WalletV4Data.serialize` (`store_dict(plugins)` = `store_maybe_ref`) -/
def walletV4B (w : WalletV4 R) : BOp R :=
  storeUint w.seqno 32 ⊳ storeUint w.walletId 32 ⊳ storeBytes w.publicKey ⊳ storeDict w.plugins

/-- `WalletV4Data.deserialize` (`load_maybe_ref`) -/
def loadWalletV4 : SOp R (WalletV4 R) := do
  let s ← SOp.loadUint 32
  let w ← SOp.loadUint 32
  let pk ← SOp.loadBytes 32
  let p ← SOp.loadMaybeRef
  return ⟨s, w, pk, p⟩

def serializeWalletV4 (ops : CellOps R) (w : WalletV4 R) : Option R := cellOf ops (walletV4B w)
def deserializeWalletV4 (ops : CellOps R) (c : R) : Option (WalletV4 R) := parseCell ops loadWalletV4 c

/-- `HighloadWalletData.serialize`: `store_dict(HashMap(64, map_=self.old_queries, value_serializer=…).serialize())`;
    the dictionary is its optional root cell (`None` for `None` / `{}`), built by `HashMap.serialize` (C09/C10) from the
    values' `WalletMessage.serialize()` -/
def highloadB (w : Highload R) : BOp R :=
  storeUint w.walletId 32 ⊳ storeUint w.lastCleaned 64 ⊳ storeBytes w.publicKey ⊳ storeDict w.oldQueries

/-- `HighloadWalletData.deserialize`: `load_dict(64, value_deserializer=WalletMessage.deserialize)`; the model returns the
    dictionary root (`HashMap.parse` is C09/C10; each value is read by `loadWalletMsg`) -/
def loadHighload : SOp R (Highload R) := do
  let w ← SOp.loadUint 32
  let lc ← SOp.loadUint 64
  let pk ← SOp.loadBytes 32
  let q ← SOp.loadDict
  return ⟨w, lc, pk, q⟩

def serializeHighload (ops : CellOps R) (w : Highload R) : Option R := cellOf ops (highloadB w)
def deserializeHighload (ops : CellOps R) (c : R) : Option (Highload R) := parseCell ops loadHighload c

/-- `WalletMessage.serialize`: `store_uint(send_mode, 8)`, then `store_ref(self.message.serialize())` -/
def serializeWalletMsg (ops : CellOps R) (w : WalletMsg R) : Option R :=
  let r := (storeUint w.sendMode 8 : BOp R) Builder.empty
  if !r.2 then none else
  match serialize ops w.message with
  | none => none
  | some mc =>
    let r2 := storeRef mc r.1
    if !r2.2 then none else ops.make r2.1.bits r2.1.refs

/-- `WalletMessage.deserialize`: `cls(send_mode=load_uint(8), message=MessageAny.deserialize(load_ref().begin_parse()))` -/
def loadWalletMsg (ops : CellOps R) : SOp R (WalletMsg R) := do
  let mode ← SOp.loadUint 8
  let r ← SOp.loadRef
  let m ← SOp.ofOption (deserialize ops r)
  return ⟨mode, m⟩

def deserializeWalletMsg (ops : CellOps R) (c : R) : Option (WalletMsg R) := parseCell ops (loadWalletMsg ops) c

/-! ### NFT -/

/-- `NftItemData.serialize` -/
def nftItemB (n : NftItem R) : BOp R :=
  storeUint n.index 64 ⊳ storeAddress n.collection ⊳ storeAddress n.owner ⊳ storeRef n.content

/-- `NftItemData.deserialize` -/
def loadNftItem : SOp R (NftItem R) := do
  let i ← SOp.loadUint 64
  let c ← SOp.loadAddress
  let o ← SOp.loadAddress
  let r ← SOp.loadRef
  return ⟨i, c, o, r⟩

def serializeNftItem (ops : CellOps R) (n : NftItem R) : Option R := cellOf ops (nftItemB n)
def deserializeNftItem (ops : CellOps R) (c : R) : Option (NftItem R) := parseCell ops loadNftItem c

/-- `NftItemSaleFees.serialize` -/
def saleFeesB (f : SaleFees) : BOp R :=
  storeAddress f.marketplaceFeeAddress ⊳ storeCoins f.marketplaceFee ⊳ storeAddress f.royaltyAddress ⊳
  storeCoins f.royaltyAmount

/-- `NftItemSaleFees.deserialize` -/
def loadSaleFees : SOp R SaleFees := do
  let a ← SOp.loadAddress
  let f ← SOp.loadCoins
  let b ← SOp.loadAddress
  let r ← SOp.loadCoins
  return ⟨a, f, b, r⟩

def serializeSaleFees (ops : CellOps R) (f : SaleFees) : Option R := cellOf ops (saleFeesB f)
def deserializeSaleFees (ops : CellOps R) (c : R) : Option SaleFees := parseCell ops loadSaleFees c

/-- the part of `NftItemSaleData.serialize` before `.store_ref(self.fees_cell.serialize())` -/
def saleHeadB (s : SaleData) : BOp R :=
  storeBit s.isComplete ⊳ storeUint s.createdAt 32 ⊳ storeAddress s.marketplace ⊳ storeAddress s.nft ⊳
  storeAddress s.nftOwner ⊳ storeCoins s.fullPrice

/-- `NftItemSaleData.serialize`: the receiver chain up to `store_coins` is evaluated first, then the argument
    `self.fees_cell.serialize()`, then `store_ref`, `store_bool`, `end_cell` -/
def serializeSaleData (ops : CellOps R) (s : SaleData) : Option R :=
  let r := (saleHeadB s : BOp R) Builder.empty
  if !r.2 then none else
  match serializeSaleFees ops s.fees with
  | none => none
  | some fc =>
    let r2 := (storeRef fc ⊳ storeBit s.canDeployByExternal) r.1
    if !r2.2 then none else ops.make r2.1.bits r2.1.refs

/-- `NftItemSaleData.deserialize` (keyword arguments are evaluated in order) -/
def loadSaleData (ops : CellOps R) : SOp R SaleData := do
  let c ← SOp.loadBit
  let t ← SOp.loadUint 32
  let m ← SOp.loadAddress
  let n ← SOp.loadAddress
  let o ← SOp.loadAddress
  let p ← SOp.loadCoins
  let r ← SOp.loadRef
  let v := ops.view r
  let fees ← SOp.ofOption ((loadSaleFees ⟨v.1, v.2⟩).2)     -- NftItemSaleFees.deserialize(ref.begin_parse())
  let e ← SOp.loadBit
  return ⟨c, t, m, n, o, p, fees, e⟩

def deserializeSaleData (ops : CellOps R) (c : R) : Option SaleData := parseCell ops (loadSaleData ops) c

end TonVerif.Model.Message
