/-
The regenerated cell record (`Generated.BocCells.CellOut`, the dict built by `Boc.deserialize_cell` as the translator reads
it) seen from the hand model's `RawCell` (Model/BocParse.lean), and the hand model's `deserialize` seen as a function of the
callback the regenerated `deserialize` takes.  No proofs here: this file is also used by the failing-input search
(harness/translate/boccells.py), which must work when a proof is broken.
-/
import TonVerif.Model.BocParse
import TonVerif.Model.BocHeaderView
import TonVerif.Generated.BocCells

namespace TonVerif.Generated.BocCells
open TonVerif TonVerif.Model TonVerif.Model.BocParse

/-- the dict `deserialize_cell` builds when the hand model returns the record `c` (`'result': None`). -/
def CellOut.ofModel {R : Type} (c : RawCell) : CellOut R :=
  { bits := c.bits, refs := c.refs, type := c.type, result := none }

/-- the hand model's cell reader with its result rendered as the Python function's `(dict, consumed)`. -/
def cellOfModel {R : Type} (data : Bytes) (refSize : Nat) : Option (CellOut R × Nat) :=
  (deserializeCell data refSize).map fun p => (CellOut.ofModel p.1, p.2)

/-- the end of the hand model's `deserializeCell` as a function of the final data bits: exotic type byte (`ex`), the `tr` reference
indices of width `rs` read from position `i`, the number of bytes consumed. -/
def tailM {R : Type} (data : Bytes) (rs tr : Nat) (ex : Bool) (i : Nat) (bits : Bits) : Option (CellOut R × Nat) :=
  (if ex then (if bits.length < 8 then none else some (signed8 bits)) else some (-1)).bind fun ty =>
  some ({ bits := bits, refs := uintsAt data i rs tr, type := ty, result := none }, i + tr * rs)

/-- the callback the regenerated `deserialize` is given when the hand model is given `mk`: the Python constructor receives the
children as a list that may contain `None` (a self reference picks up the not yet set `'result'`); every cell constructor
raises on a `None` child, otherwise it is `mk` on the children. -/
def liftMk {R : Type} (mk : Bits → List R → Int → Option R) (bits : Bits) (refs : List (Option R)) (ty : Int) : Option R :=
  (refs.mapM id).bind fun rs => mk bits rs ty

/-- a cell record whose `'result'` has been set. -/
def setRes {R : Type} (c : RawCell) (r : R) : CellOut R := { bits := c.bits, refs := c.refs, type := c.type, result := some r }

end TonVerif.Generated.BocCells
