/-
The regenerated header record (`Generated.BocHeader.HeaderOut`, the dict returned by `Boc.deserialize_boc_header` as the
translator reads it) seen from the hand model's `Header` (Model/BocParse.lean).  No proofs here: this file is also used
by the failing-input search (harness/translate/bocheader.py `lean_eval`), which must work when a proof is broken.
-/
import TonVerif.Model.BocParse
import TonVerif.Generated.BocHeader

namespace TonVerif.Generated.BocHeader
open TonVerif TonVerif.Model.BocParse

/-- the dict the Python function returns when the hand model returns `h`: flag entries by truthiness, `index` is `None`
exactly when `has_idx` is false. -/
def HeaderOut.ofModel (h : Header) : HeaderOut :=
  { has_idx := h.fl.hasIdx, hash_crc32 := h.fl.hasCrc, has_cache_bits := h.fl.hasCacheBits, flags := h.fl.flags,
    size_bytes := h.fl.sizeBytes, offset_bytes := h.offsetBytes, cells_num := h.cellsNum, roots_num := h.rootsNum,
    absent_num := h.absentNum, tot_cells_size := h.totCellsSize, root_list := h.rootList,
    index := if h.fl.hasIdx then some h.index else none, cells_data := h.cellsData }

end TonVerif.Generated.BocHeader
