/-
The regenerated header record (`Generated.BocHeader.HeaderOut`, the dict returned by `Boc.deserialize_boc_header` as the
translator reads it) seen from the hand model's `Header` (Model/BocParse.lean).  No proofs here: this file is also used
by the failing-input search (harness/translate/bocheader.py `lean_eval`), which must work when a proof is broken.
-/
import TonVerif.Model.BocParse
import TonVerif.Generated.BocHeader

namespace TonVerif.Generated.BocHeader
open TonVerif TonVerif.Model.BocParse

/-- the dict the Python function returns when the hand model returns `h`: flag entries by truthiness, `index` is `None`
exactly when `has_idx` is false. -/
def HeaderOut.ofModel (h : Header) : HeaderOut :=
  { has_idx := h.fl.hasIdx, hash_crc32 := h.fl.hasCrc, has_cache_bits := h.fl.hasCacheBits, flags := h.fl.flags,
    size_bytes := h.fl.sizeBytes, offset_bytes := h.offsetBytes, cells_num := h.cellsNum, roots_num := h.rootsNum,
    absent_num := h.absentNum, tot_cells_size := h.totCellsSize, root_list := h.rootList,
    index := if h.fl.hasIdx then some h.index else none, cells_data := h.cellsData }

/-- two returned dicts are equal when all entries are. -/
theorem HeaderOut.eq_of (a b : HeaderOut) (h1 : a.has_idx = b.has_idx) (h2 : a.hash_crc32 = b.hash_crc32)
    (h3 : a.has_cache_bits = b.has_cache_bits) (h4 : a.flags = b.flags) (h5 : a.size_bytes = b.size_bytes)
    (h6 : a.offset_bytes = b.offset_bytes) (h7 : a.cells_num = b.cells_num) (h8 : a.roots_num = b.roots_num)
    (h9 : a.absent_num = b.absent_num) (h10 : a.tot_cells_size = b.tot_cells_size) (h11 : a.root_list = b.root_list)
    (h12 : a.index = b.index) (h13 : a.cells_data = b.cells_data) : a = b := by
  cases a; cases b; simp_all

end TonVerif.Generated.BocHeader
