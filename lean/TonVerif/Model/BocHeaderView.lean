/-
The regenerated header record (`Generated.BocHeader.HeaderOut`, the dict returned by `Boc.deserialize_boc_header` as the
translator reads it) seen from the hand model's `Header` (Model/BocParse.lean).  No proofs here: this file is also used
by the failing-input search (harness/translate/bocheader.py `lean_eval`), which must work when a proof is broken.
-/
import TonVerif.Model.BocParse
import TonVerif.Generated.BocHeader

namespace TonVerif.Generated.BocHeader
open TonVerif TonVerif.Model TonVerif.Model.BocParse

/-- the dict the Python function returns when the hand model returns `h`: flag entries by truthiness, `index` is `None`
exactly when `has_idx` is false. -/
def HeaderOut.ofModel (h : Header) : HeaderOut :=
  { has_idx := h.fl.hasIdx, hash_crc32 := h.fl.hasCrc, has_cache_bits := h.fl.hasCacheBits, flags := h.fl.flags,
    size_bytes := h.fl.sizeBytes, offset_bytes := h.offsetBytes, cells_num := h.cellsNum, roots_num := h.rootsNum,
    absent_num := h.absentNum, tot_cells_size := h.totCellsSize, root_list := h.rootList,
    index := if h.fl.hasIdx then some h.index else none, cells_data := h.cellsData }

/-- the first part of the hand model's `deserializeCell` (Model/BocParse.lean): descriptor bytes, absent marker, size of the
stored hash / depth block, length check; result = number of references, exotic flag, completion-tag flag, number of data
bytes and the position where the data bytes start — the locals of `Boc.deserialize_cell` when it reaches
`bits = bitarray()`. -/
def cellLayout (data : Bytes) (refSize : Nat) : Option CellLayoutOut :=
  (data[0]?).bind fun d1 =>
  let level := d1 / 32
  let totalRefs := d1 % 8
  let hasHashes := d1 / 16 % 2 == 1
  let isExotic := d1 / 8 % 2 == 1
  if totalRefs == 7 && hasHashes then none
  else (data[1]?).bind fun d2 =>
  let aug := d2 % 2
  let dataSize := d2 / 2 + aug
  let hashesCount := popcount level + 1
  let hashesSize := if hasHashes then hashesCount * 32 else 0
  let depthSize := if hashesSize != 0 then hashesCount * 2 else 0
  if data.length < 2 + (hashesSize + depthSize + dataSize + refSize * totalRefs) then none
  else some { total_refs := totalRefs, is_exotic := isExotic, is_augmented := aug == 1, data_size := dataSize,
              i := 2 + (if hasHashes then hashesSize + depthSize else 0) }

/-- the second part of `deserializeCell`: data bits, completion tag, exotic type byte, reference indices. -/
def cellRest (data : Bytes) (refSize : Nat) (L : CellLayoutOut) : Option (RawCell × Nat) :=
  let bits0 := bytesToBits (pySlice data L.i (L.i + L.data_size))
  let i := L.i + L.data_size
  let bits := if L.is_augmented && !bits0.isEmpty then stripTag bits0 else bits0
  (if L.is_exotic then (if bits.length < 8 then none else some (signed8 bits)) else some (-1)).bind fun ty =>
  some ({ bits := bits, refs := uintsAt data i refSize L.total_refs, type := ty }, i + L.total_refs * refSize)

/-- two returned dicts are equal when all entries are. -/
theorem HeaderOut.eq_of (a b : HeaderOut) (h1 : a.has_idx = b.has_idx) (h2 : a.hash_crc32 = b.hash_crc32)
    (h3 : a.has_cache_bits = b.has_cache_bits) (h4 : a.flags = b.flags) (h5 : a.size_bytes = b.size_bytes)
    (h6 : a.offset_bytes = b.offset_bytes) (h7 : a.cells_num = b.cells_num) (h8 : a.roots_num = b.roots_num)
    (h9 : a.absent_num = b.absent_num) (h10 : a.tot_cells_size = b.tot_cells_size) (h11 : a.root_list = b.root_list)
    (h12 : a.index = b.index) (h13 : a.cells_data = b.cells_data) : a = b := by
  cases a; cases b; simp_all

end TonVerif.Generated.BocHeader
