/-
Input forms accepted by `Boc.__init__(data)`: raw bytes, hex text, base64 text.

    if not isinstance(data, bytes):
        try: data = bytes.fromhex(data)
        except ValueError:
            try: data = base64.b64decode(data)
            except binascii.Error: raise BocError(...)

Executable models of `bytes.hex`, `bytes.fromhex`, `base64.b64encode`,
`base64.b64decode` (non-strict, i.e. `validate=False`) on `List Char`, and of the
detection order above.  `none` stands for "an exception is raised".

The base64 decoder follows the state machine of CPython >= 3.11
`binascii.a2b_base64` (strict_mode = 0):
  * characters outside the alphabet (and not `=`) are skipped;
  * `=` while fewer than two sextets of the current quad were read is skipped;
  * `=` with quad position q >= 2 increments the pad counter; as soon as
    q + pads >= 4 decoding stops successfully (rest of the input is ignored);
  * an alphabet character resets the pad counter;
  * end of input with q /= 0 is an error (q = 1: "number of data characters cannot
    be 1 more than a multiple of 4", q = 2,3: "Incorrect padding").
`base64.b64decode(str)` first does `str.encode('ascii')`; a non-ASCII character
makes that raise (a plain ValueError), which is modelled as `none` as well.
-/
import TonVerif.Basic

namespace TonVerif.Model.BocForms
open TonVerif

/-! ### hex -/

/-- `bytes.hex()`: two lower-case hex digits per byte. -/
def hexEnc (bs : Bytes) : List Char :=
  bs.flatMap (fun b => [hexDigit (b / 16), hexDigit (b % 16)])

/-- upper-case hex digit. -/
def hexDigitUpper (n : Nat) : Char :=
  if n < 10 then Char.ofNat (48 + n) else Char.ofNat (55 + n)

/-- `bytes.hex().upper()`. -/
def hexEncUpper (bs : Bytes) : List Char :=
  bs.flatMap (fun b => [hexDigitUpper (b / 16), hexDigitUpper (b % 16)])

/-- `Py_ISSPACE`: space, \t, \n, \v, \f, \r. -/
def isAsciiSpace (c : Char) : Bool :=
  c == ' ' || c == '\t' || c == '\n' || c == '\r' || c == '\x0b' || c == '\x0c'

/-- The `bytes.fromhex` state machine (CPython `_PyBytes_FromHex`).  The second argument is
the pending high nibble: `none` = between byte pairs (ASCII whitespace is skipped here and
only here), `some x` = the first digit `x` of a pair has been read and the very next
character must be the second digit.  `none` result = ValueError.
(One-step recursion with a state rather than a two-step `c :: d :: rest` recursion so that
kernel evaluation on concrete inputs is linear.) -/
def fromHexGo : List Char → Option Nat → Option Bytes
  | [], none => some []
  | [], some _ => none
  | c :: cs, none =>
    if isAsciiSpace c then fromHexGo cs none
    else match hexVal? c with
      | none => none
      | some x => fromHexGo cs (some x)
  | c :: cs, some x =>
    match hexVal? c with
    | none => none
    | some y => (fromHexGo cs none).map (fun r => (x * 16 + y) :: r)

/-- `bytes.fromhex(s)` (Python >= 3.7): ASCII whitespace is skipped before each
byte pair; then two hex digits (either case) are required.  `none` = ValueError. -/
def fromHex (s : List Char) : Option Bytes := fromHexGo s none

/-! ### base64 -/

/-- standard alphabet `A–Z a–z 0–9 + /`. -/
def b64Char (n : Nat) : Char :=
  if n < 26 then Char.ofNat (65 + n)
  else if n < 52 then Char.ofNat (71 + n)
  else if n < 62 then Char.ofNat (n - 4)
  else if n = 62 then '+' else '/'

def b64Val? (c : Char) : Option Nat :=
  if 'A' ≤ c ∧ c ≤ 'Z' then some (c.toNat - 65)
  else if 'a' ≤ c ∧ c ≤ 'z' then some (c.toNat - 71)
  else if '0' ≤ c ∧ c ≤ '9' then some (c.toNat + 4)
  else if c = '+' then some 62
  else if c = '/' then some 63
  else none

/-- `base64.b64encode`: standard alphabet with `=` padding. -/
def b64Enc : Bytes → List Char
  | [] => []
  | [a] => [b64Char (a / 4), b64Char (a % 4 * 16), '=', '=']
  | [a, b] => [b64Char (a / 4), b64Char (a % 4 * 16 + b / 16), b64Char (b % 16 * 4), '=']
  | a :: b :: c :: rest =>
    b64Char (a / 4) :: b64Char (a % 4 * 16 + b / 16) :: b64Char (b % 16 * 4 + c / 64)
      :: b64Char (c % 64) :: b64Enc rest

/-- The `a2b_base64` state machine.  `q` = position in the current quad (0..3),
`left` = bits left over from the previous sextets, `pads` = number of `=` seen since
the last alphabet character (only counted while `q ≥ 2`). -/
def b64Go : List Char → (q left pads : Nat) → Option Bytes
  | [], q, _, _ => if q = 0 then some [] else none
  | c :: cs, q, left, pads =>
    if c = '=' then
      if 2 ≤ q then
        if 4 ≤ q + (pads + 1) then some [] else b64Go cs q left (pads + 1)
      else b64Go cs q left pads
    else
      match b64Val? c with
      | none => b64Go cs q left pads
      | some v =>
        if q = 0 then b64Go cs 1 v 0
        else if q = 1 then (b64Go cs 2 (v % 16) 0).map (fun r => (left * 4 + v / 16) :: r)
        else if q = 2 then (b64Go cs 3 (v % 4) 0).map (fun r => (left * 16 + v / 4) :: r)
        else (b64Go cs 0 0 0).map (fun r => (left * 64 + v) :: r)

def isAscii (c : Char) : Bool := c.toNat < 128

/-- non-strict `base64.b64decode(s)` for a `str` argument. `none` = exception. -/
def b64Dec (s : List Char) : Option Bytes :=
  if s.all isAscii then b64Go s 0 0 0 else none

/-! ### `Boc.__init__` input detection -/

/-- `inl` = a `bytes` object, `inr` = a `str`: hex is tried first, then base64. -/
def inputBytes : Sum Bytes (List Char) → Option Bytes
  | .inl b => some b
  | .inr s =>
    match fromHex s with
    | some b => some b
    | none => b64Dec s

/-! ### `String` wrappers -/

def hexEncStr (bs : Bytes) : String := String.ofList (hexEnc bs)
def b64EncStr (bs : Bytes) : String := String.ofList (b64Enc bs)
def fromHexStr (s : String) : Option Bytes := fromHex s.toList
def b64DecStr (s : String) : Option Bytes := b64Dec s.toList

def inputBytesStr : Sum Bytes String → Option Bytes
  | .inl b => some b
  | .inr s => inputBytes (.inr s.toList)

end TonVerif.Model.BocForms
