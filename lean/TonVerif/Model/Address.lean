/-
Executable model of `pytoniq_core/boc/address.py` class `Address`:
`__init__` (tuple / Address / str inputs), `is_hex`, `is_b64`, `to_str`, `__eq__`, `__hash__`.

The model mirrors the code as written, including its leniencies:
* `is_b64` decodes with `base64.urlsafe_b64decode` for BOTH alphabets (non-alphabet characters are dropped),
  accepts any tag byte (only `tag & 0x7f == 0x11` means bounceable), and rejects exactly when
  `decoded[34:] != crc16(decoded[:34])` (so exactly 36 decoded bytes are required) or the decode fails;
* `is_hex` accepts whatever `int(wc)`, `int(hash, 16)` and `bytes.fromhex(hash)` accept (ASCII white space,
  sign, ... as in CPython 3.12), any hash length, any integer workchain;
* `to_str(user-friendly)` raises for a workchain outside -128..127; the raw form and `int(wc)` obey
  CPython's default 4300-digit limit of int<->str conversion.

Texts are ASCII `List Char`; every Python exception is `none`.  Built-ins that are modelled by hand
(trusted, validated by the correspondence): `str.split`, `int(str[, 16])`, `bytes.fromhex`, `str(int)`,
`bytes.hex`, `int.to_bytes/from_bytes`, `base64` (Model/Base64.lean).
-/
import TonVerif.Basic
import TonVerif.Model.Crc
import TonVerif.Model.Base64
namespace TonVerif.Model.Address
open TonVerif

/-! ### Python built-ins on ASCII text -/

/-- `Py_ISSPACE`: the ASCII white space that `int()` strips and `bytes.fromhex` skips. -/
def isPySpace (c : Char) : Bool := c.toNat = 32 || (9 ≤ c.toNat && c.toNat ≤ 13)

def stripSpace (s : List Char) : List Char :=
  ((s.dropWhile isPySpace).reverse.dropWhile isPySpace).reverse

/-- `str.split(':')` (never returns an empty list). -/
def splitColon : List Char → List (List Char)
  | [] => [[]]
  | c :: rest =>
    if c = ':' then [] :: splitColon rest
    else match splitColon rest with
      | p :: ps => (c :: p) :: ps
      | [] => [[c]]

def digitVal? (base : Nat) (c : Char) : Option Nat :=
  match hexVal? c with
  | some v => if v < base then some v else none
  | none => none

/-- digits with single underscores between them; returns (value, number of digits). -/
def digitsGo (base : Nat) : List Char → (acc cnt : Nat) → Option (Nat × Nat)
  | [], acc, cnt => some (acc, cnt)
  | c :: rest, acc, cnt =>
    if c = '_' then
      match rest with
      | [] => none
      | d :: rest' =>
        match digitVal? base d with
        | some v => digitsGo base rest' (acc * base + v) (cnt + 1)
        | none => none
    else
      match digitVal? base c with
      | some v => digitsGo base rest (acc * base + v) (cnt + 1)
      | none => none

def stripSign : List Char → Bool × List Char
  | [] => (false, [])
  | c :: r => if c = '-' then (true, r) else if c = '+' then (false, r) else (false, c :: r)

/-- the optional `0x`/`0X` prefix of base 16, with the one underscore CPython allows after it. -/
def stripHexPrefix : List Char → List Char
  | c :: x :: r =>
    if c = '0' ∧ (x = 'x' ∨ x = 'X') then
      (match r with
       | u :: r' => if u = '_' then r' else u :: r'
       | [] => [])
    else c :: x :: r
  | s => s

/-- CPython's default `sys.get_int_max_str_digits()`. -/
def maxStrDigits : Nat := 4300

/-- `int(s)` (`base = 10`) / `int(s, 16)` on ASCII text; `none` = ValueError. -/
def pyInt (base : Nat) (s : List Char) : Option Int :=
  let s := stripSpace s
  let (neg, s) := stripSign s
  let s := if base = 16 then stripHexPrefix s else s
  match s with
  | [] => none
  | c :: _ =>
    if c = '_' then none else
    match digitsGo base s 0 0 with
    | some (v, cnt) =>
      if base = 10 ∧ maxStrDigits < cnt then none
      else some (if neg then -(v : Int) else (v : Int))
    | none => none

/-- `bytes.fromhex(s)` of CPython 3.12 (white space allowed between byte pairs); `none` = ValueError. -/
def pyFromHex : List Char → Option Bytes
  | [] => some []
  | c :: rest =>
    if isPySpace c then pyFromHex rest
    else match rest with
      | [] => none
      | d :: rest' =>
        match hexVal? c, hexVal? d, pyFromHex rest' with
        | some x, some y, some r => some ((x * 16 + y) :: r)
        | _, _, _ => none

/-- decimal digits of a natural number, most significant first. -/
def decDigits (n : Nat) : List Char :=
  if n < 10 then [Char.ofNat (48 + n)] else decDigits (n / 10) ++ [Char.ofNat (48 + n % 10)]
termination_by n
decreasing_by omega

/-- `str(z)`; `none` = ValueError (more than 4300 digits). -/
def pyStrInt (z : Int) : Option (List Char) :=
  let ds := decDigits z.natAbs
  if maxStrDigits < ds.length then none
  else some (if z < 0 then '-' :: ds else ds)

/-- `bytes.hex()` -/
def hexChars (bs : Bytes) : List Char := bs.flatMap (fun b => [hexDigit (b / 16), hexDigit (b % 16)])

/-- `int.from_bytes(bs, 'big', signed=True)` for the at most one byte `decoded[1:2]`. -/
def signedByte : Bytes → Int
  | [] => 0
  | b :: _ => if 128 ≤ b then (b : Int) - 256 else (b : Int)

/-- `wc.to_bytes(1, 'big', signed=True)`; `none` = OverflowError. -/
def wcByte? (wc : Int) : Option Nat :=
  if -128 ≤ wc ∧ wc ≤ 127 then some (wc % 256).toNat else none

/-! ### the class -/

/-- the observable state of an `Address` object (anycast is not part of the text forms). -/
structure Addr where
  wc : Int
  hash : Bytes
  bounceable : Bool := false
  testOnly : Bool := false
deriving Repr, DecidableEq

/-- `Address((wc, hash_part))` -/
def ofTuple (wc : Int) (hash : Bytes) : Addr := { wc := wc, hash := hash }

/-- `Address(other_address)`: workchain and hash are copied, the flags are NOT. -/
def ofAddr (a : Addr) : Addr := { wc := a.wc, hash := a.hash }

/-- `is_hex`: `none` = returns False. -/
def isHex (s : List Char) : Option Addr :=
  match splitColon s with
  | [w, h] =>
    match pyInt 16 h, pyInt 10 w, pyFromHex h with
    | some _, some wc, some hp => some { wc := wc, hash := hp }
    | _, _, _ => none
  | _ => none

/-- `is_b64`: `none` = returns False or raises (both make `Address(s)` raise). -/
def isB64 (s : List Char) : Option Addr :=
  match Base64.decodeUrlsafe s with
  | none => none
  | some [] => none                                   -- decoded[0]: IndexError
  | some (tag0 :: rest) =>
    let d := tag0 :: rest
    let testOnly := (tag0 &&& 0x80) != 0
    let tag := if testOnly then tag0 ^^^ 0x80 else tag0
    let bounceable := tag == 0x11
    let wc := signedByte ((d.drop 1).take 1)
    let hash := (d.drop 2).take 32
    match Model.crc16 (d.take 34) with
    | none => none
    | some crc =>
      if d.drop 34 != crc then none                   -- AddressError('the address is invalid')
      else some { wc := wc, hash := hash, bounceable := bounceable, testOnly := testOnly }

/-- `Address(s)` for a `str` argument; `none` = an exception. -/
def parse (s : List Char) : Option Addr :=
  match isHex s with
  | some a => some a
  | none => isB64 s

/-- `to_str(is_user_friendly, is_url_safe, is_bounceable, is_test_only)`; `none` = an exception. -/
def toStr (a : Addr) (userFriendly urlSafe bounceable testOnly : Bool) : Option (List Char) :=
  if !userFriendly then
    match pyStrInt a.wc with
    | some w => some (w ++ ':' :: hexChars a.hash)
    | none => none
  else
    let tag := if bounceable then 0x11 else 0x51
    let tag := if testOnly then tag ||| 0x80 else tag
    match wcByte? a.wc with
    | none => none
    | some wcb =>
      let result := tag :: wcb :: a.hash
      match Model.crc16 result with
      | none => none
      | some crc => some (Base64.encode urlSafe (result ++ crc))

/-- `a == b` -/
def eq (a b : Addr) : Bool := a.wc == b.wc && a.hash == b.hash

/-- `a.__hash__()` (Python's `hash()` is a function of this integer). -/
def pyHash (a : Addr) : Int := (natOfBE a.hash : Int) + a.wc

end TonVerif.Model.Address
