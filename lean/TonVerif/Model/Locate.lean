/-
The TL-B walk of `check_account_proof`, statement by statement:

    shard = ShardStateUnsplit.deserialize(state_cell[0].begin_parse())          # tlb/block.py
    shard_account = shard.accounts[0][int.from_bytes(address.hash_part, 'big')]
    shard_account.cell[0]

`locateAccount O st addr` is that expression on constructed cell objects (`PCell`); `none` = any exception
(KeyError, IndexError, slice underflow, BlockError, `None[...]`, AttributeError ...).

Mirrored concretely
  * `ShardStateUnsplit.deserialize`: `is_special` test, tag `9023afe2`, `global_id`, `ShardIdent` (tag `00`, 6 + 32 + 64
    bits), `seq_no`, `vert_seq_no`, `gen_utime`, `gen_lt`, `min_ref_mc_seqno` (360 bits), `out_msg_queue_info` (`load_ref`, not
    parsed), `before_split` (1 bit), `accounts` (`load_ref` + `ShardAccounts.deserialize`), the `^[ overload_history …
    master_ref ]` reference (`stateRefGroup`: skipped when special, else 2 × uint64, 2 × CurrencyCollection, `load_dict(256)`,
    `Maybe BlkMasterInfo` = 608 bits), `custom:(Maybe ^McStateExtra)` (bit, `load_ref`, special → `None`);
  * `Slice.load_hashmap_aug_e` (after fix f2933e1: the top-level extra is read) and boc/hashmap/parse.py
    `parse_hashmap_aug` / `parse_aug` / `deserialize_hashmap_aug_node` over the WHOLE dictionary (`parseAugP`: every
    unpruned edge, fork extra and leaf is read; a non-ordinary cell is skipped silently), labels through the C10 model
    `Hashmap.deserializeHml`; the `int(i, 2)` re-keying (`Hashmap.intKeys`) and the `dict[key]` lookup;
  * `DepthBalanceInfo.deserialize` (`load_uint(5)`, `load_coins`, `ExtraCurrencyCollection` = `load_dict(32, load_var_uint(5))`
    through the C10 model `Hashmap.parseHashmap`), `ShardAccount.deserialize` (`load_ref`, the first bit of the account cell,
    256 + 64 bits; `.cell[0]` = the account reference).

Still abstract (`Opaque`, two Boolean functions; every theorem holds for ALL their values unless it says otherwise):
  * `Account.deserialize` on an account cell whose first data bit is 1 (`account$1 addr storage_stat storage`);
  * `McStateExtra.deserialize` on an ORDINARY cell (masterchain states whose `custom` is not pruned).
-/
import TonVerif.Model.PCell
import TonVerif.Model.Hashmap
namespace TonVerif.Model
open TonVerif

/-! ### views: the lookup-only walk is written once for trees (`Cell`) and constructed objects (`PCell`) -/

/-- what a TL-B reader sees of a cell: type, data bits, references -/
structure CellView (C : Type) where
  kind : C → Int
  bits : C → Bits
  refs : C → List C

def cellView : CellView Cell where
  kind | .mk k _ _ => k
  bits | .mk _ b _ => b
  refs | .mk _ _ r => r

def pcellView : CellView PCell where
  kind c := c.info.kind
  bits c := c.info.bits
  refs c := c.refs

mutual
  /-- forget the cached values: the tree a constructed cell was built from -/
  def PCell.toCell : PCell → Cell
    | .mk i refs => .mk i.kind i.bits (PCell.toCells refs)
  def PCell.toCells : List PCell → List Cell
    | [] => []
    | c :: cs => c.toCell :: PCell.toCells cs
end

/-- a slice of a constructed cell: remaining bits, remaining references -/
abbrev PSlice := Bits × List PCell

/-! ### TL-B readers on slices (`none` = raises) -/

/-- `load_coins()` / `Grams`: 4-bit byte length, then that many bytes; returns the rest -/
def loadCoinsRest (bits : Bits) : Option Bits :=
  if bits.length < 4 then none else
  let l := natOfBits (bits.take 4)
  let r := bits.drop 4
  if r.length < 8 * l then none else some (r.drop (8 * l))

/-- `load_var_uint(w)` returns (does not raise) on these bits -/
def varUintOk (w : Nat) (bits : Bits) : Bool :=
  if bits.length < w then false else
  let l := natOfBits (bits.take w)
  decide (8 * l ≤ (bits.drop w).length)

/-- `ExtraCurrencyCollection.deserialize` = `load_dict(32, value_deserializer=load_var_uint(5))`: the Maybe bit; the
referenced root goes through `HashMap.parse` (an exotic root gives `None`; every value is then deserialised) -/
def readExtraCurrencies (s : PSlice) : Option PSlice :=
  match s.1 with
  | [] => none
  | false :: r => some (r, s.2)
  | true :: r =>
    match s.2 with
    | [] => none
    | c :: more =>
      if c.info.kind ≠ -1 then some (r, more)
      else match Hashmap.parseHashmap c.toCell 32 with
        | none => none
        | some kv => if kv.all (fun p => varUintOk 5 p.2.1) then some (r, more) else none

/-- `CurrencyCollection.deserialize` -/
def readCurrencyCollection (s : PSlice) : Option PSlice :=
  match loadCoinsRest s.1 with
  | none => none
  | some r => readExtraCurrencies (r, s.2)

/-- `DepthBalanceInfo.deserialize`: `split_depth:(#<= 30)` read as `load_uint(5)`, `balance:CurrencyCollection` -/
def readDepthBalance (s : PSlice) : Option PSlice :=
  if s.1.length < 5 then none else readCurrencyCollection (s.1.drop 5, s.2)

/-- the two sub-parsers that are NOT modelled: does the call return (true) or raise (false)? -/
structure Opaque where
  /-- `Account.deserialize(c.begin_parse())` for a cell `c` whose first data bit is 1 -/
  account : PCell → Bool
  /-- `McStateExtra.deserialize(c.begin_parse())` for an ordinary cell `c` -/
  mcExtra : PCell → Bool

/-- `ShardAccount.deserialize(cs)` followed by `.cell[0]`: `cell_copy = cs.copy()`; `Account.deserialize` of the first
remaining reference (`load_bit`: 0 → `None`; 1 → the full `Account` parser, `O.account`); `last_trans_hash:bits256`,
`last_trans_lt:uint64`.  `cell_copy.to_cell()[0]` is that first reference. -/
def readShardAccount (O : Opaque) (s : PSlice) : Option PCell :=
  match s.2 with
  | [] => none
  | acc :: _ =>
    match acc.info.bits with
    | [] => none
    | b :: _ =>
      if b && !O.account acc then none
      else if s.1.length < 320 then none else some acc

/-! ### `parse_aug` on constructed cells -/

mutual
  /-- `parse_aug(slice, key_length, ret_dict, extras, prefix, x, y)` + `deserialize_hashmap_aug_node`: the entries added
  to `ret_dict`, in order (the extras list is never used by the callers here: only whether `y` raises matters) -/
  def parseAugP {X : Type} (decY : PSlice → Option PSlice) (decX : PSlice → Option X) :
      PCell → Int → Bits → Option (List (Bits × X))
    | .mk info refs, keyLen, pfx =>
      if info.kind ≠ -1 then some []
      else match Hashmap.deserializeHml info.bits keyLen with
        | none => none
        | some (n, s, rest) =>
          if keyLen - n = 0 then
            match decY (rest, refs) with
            | none => none
            | some sl =>
              match decX sl with
              | none => none
              | some x => some [(pfx ++ s, x)]
          else parseAugForkP decY decX refs rest (keyLen - n - 1) (pfx ++ s)
  def parseAugForkP {X : Type} (decY : PSlice → Option PSlice) (decX : PSlice → Option X) :
      List PCell → Bits → Int → Bits → Option (List (Bits × X))
    | l :: r :: more, rest, m, pfx =>
      match parseAugP decY decX l m (pfx ++ [false]), parseAugP decY decX r m (pfx ++ [true]) with
      | some a, some b =>
        match decY (rest, more) with
        | none => none
        | some _ => some (a ++ b)
      | _, _ => none
    | _, _, _, _ => none
end

/-- `ShardAccounts.deserialize(accs.begin_parse())[0]` = `load_hashmap_aug_e(256, ShardAccount, DepthBalanceInfo)[0]`:
the int-keyed dict of `.cell[0]` of every unpruned leaf.  `none` also where the library returns something that the
following `[0][key]` cannot index (special slice → the cell; `ahme_empty` → `{}`; exotic root → `None`). -/
def loadShardAccounts (O : Opaque) (accs : PCell) : Option (Hashmap.Dict PCell) :=
  if accs.info.kind ≠ -1 then none
  else match accs.info.bits with
  | [] => none
  | false :: _ => none
  | true :: rest =>
    match accs.refs with
    | [] => none
    | root :: more =>
      if root.info.kind ≠ -1 then none
      else match parseAugP readDepthBalance (readShardAccount O) root 256 [] with
        | none => none
        | some kv =>
          if kv.any (fun p => p.1.isEmpty) then none
          else match readDepthBalance (rest, more) with
            | none => none
            | some _ => some (Hashmap.intKeys kv)

/-- `Slice.load_dict(n)` without value deserialiser: does it return, and what is left -/
def readDictRaw (n : Nat) (s : PSlice) : Option PSlice :=
  match s.1 with
  | [] => none
  | false :: r => some (r, s.2)
  | true :: r =>
    match s.2 with
    | [] => none
    | c :: more =>
      if c.info.kind ≠ -1 then some (r, more)
      else match Hashmap.parseHashmap c.toCell n with
        | none => none
        | some _ => some (r, more)

/-- the reference `^[ overload_history:uint64 underload_history:uint64 total_balance total_validator_fees
libraries:(HashmapE 256 LibDescr) master_ref:(Maybe BlkMasterInfo) ]`: skipped when special -/
def stateRefGroup (c : PCell) : Bool :=
  if c.info.kind ≠ -1 then true
  else if c.info.bits.length < 128 then false
  else match readCurrencyCollection (c.info.bits.drop 128, c.refs) with
    | none => false
    | some s1 =>
      match readCurrencyCollection s1 with
      | none => false
      | some s2 =>
        match readDictRaw 256 s2 with
        | none => false
        | some s3 =>
          match s3.1 with
          | [] => false
          | false :: _ => true
          | true :: r => decide (608 ≤ r.length)      -- ExtBlkRef: uint64 uint32 bits256 bits256

/-- `shard_state#9023afe2` -/
def shardStateTag : Bits := bytesToBits [0x90, 0x23, 0xaf, 0xe2]

/-- `ShardStateUnsplit.deserialize(st.begin_parse()).accounts[0][int.from_bytes(addr, 'big')].cell[0]` -/
def locateAccount (O : Opaque) (st : PCell) (addr : Bytes) : Option PCell :=
  let bits := st.info.bits
  if st.info.kind ≠ -1 then none                                      -- `deserialize` returns None
  else if bits.length < 361 then none
  else if bits.take 32 ≠ shardStateTag then none
  else if (bits.drop 64).take 2 ≠ [false, false] then none             -- ShardIdent tag
  else match st.refs with
    | _omq :: accs :: rest =>
      match loadShardAccounts O accs with
      | none => none
      | some d =>
        match rest with
        | [] => none
        | grp :: rest2 =>
          if !stateRefGroup grp then none
          else match bits.drop 361 with
            | [] => none
            | false :: _ => Hashmap.dictGet (natOfBE addr) d
            | true :: _ =>
              match rest2 with
              | [] => none
              | cu :: _ =>
                if cu.info.kind ≠ -1 || O.mcExtra cu then Hashmap.dictGet (natOfBE addr) d else none
    | _ => none

/-! ### the dictionary lookup of hashmap.tlb (specification side, lookup only) -/

/-- `lookupAug V fuel c n key`: look the `n`-bit `key` up in the `HashmapAug n X Y` whose root edge is the cell `c`
(dict.cpp `lookup`): read the label, it must be a prefix of the key; with no key bits left this is the leaf and the
answer is what follows the label (`extra:Y value:X`, all references); otherwise the next key bit selects the left or
right reference.  Nothing off the path is looked at.  `fuel > n` suffices. -/
def lookupAug {C : Type} (V : CellView C) : Nat → C → Nat → Bits → Option (Bits × List C)
  | 0, _, _, _ => none
  | fuel + 1, c, n, key =>
    if V.kind c ≠ -1 then none
    else match Hashmap.deserializeHml (V.bits c) (n : Int) with
      | none => none
      | some (l, s, rest) =>
        if l > n ∨ key.take l ≠ s then none
        else if n - l = 0 then some (rest, V.refs c)
        else match key.drop l, V.refs c with
          | b :: key', c0 :: c1 :: _ => lookupAug V fuel (if b then c1 else c0) (n - l - 1) key'
          | _, _ => none

/-- size of `DepthBalanceInfo` on these bits: the rest, and the number of references it owns (5 bits, `Grams`, the
`Maybe ^` of the extra-currency dictionary) -/
def skipDepthBalance (bits : Bits) : Option (Bits × Nat) :=
  if bits.length < 5 then none else
  match loadCoinsRest (bits.drop 5) with
  | none => none
  | some r =>
    match r with
    | [] => none
    | false :: r' => some (r', 0)
    | true :: r' => some (r', 1)

/-- the root of the `ShardAccounts` dictionary of a `ShardStateUnsplit` cell: ordinary cell, tag, ≥ 361 bits, second
reference = `ahme_root$1 root:^(HashmapAug 256 ShardAccount DepthBalanceInfo) …` -/
def accountsRoot {C : Type} (V : CellView C) (st : C) : Option C :=
  if V.kind st ≠ -1 then none
  else if (V.bits st).length < 361 then none
  else if (V.bits st).take 32 ≠ shardStateTag then none
  else match (V.refs st)[1]? with
    | none => none
    | some accs =>
      if V.kind accs ≠ -1 then none
      else match V.bits accs, V.refs accs with
        | true :: _, root :: _ => some root
        | _, _ => none

/-- block.tlb reading of "the account cell of address `key` in this shard state": the `account:^Account` reference of
the `ShardAccount` that the `ShardAccounts` dictionary holds under `key` -/
def lookupShardAccount {C : Type} (V : CellView C) (st : C) (key : Bits) : Option C :=
  match accountsRoot V st with
  | none => none
  | some root =>
    match lookupAug V 257 root 256 key with
    | none => none
    | some (rest, refs) =>
      match skipDepthBalance rest with
      | none => none
      | some (r, k) => if r.length < 320 then none else refs[k]?

end TonVerif.Model
