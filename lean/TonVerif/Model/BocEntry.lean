/-
Model of the three `one_from_boc` entry points (`boc/cell.py`, `boc/slice.py`, `boc/builder.py`), on top of
`Boc.__init__` (Model/BocForms.lean `inputBytes`: bytes as is; `str` → `bytes.fromhex`, on ValueError non-strict
`base64.b64decode`) and the parser model `BocParse.fromBoc` (Model/BocParse.lean):

    Cell.one_from_boc(data):    cells = Boc(data).deserialize(cls); if len(cells) > 1: raise; return cells[0]
    Slice.one_from_boc(data):   cells = Boc(data).deserialize();    return cells[0].begin_parse()
    Builder.one_from_boc(data): cells = Boc(data).deserialize();    return cells[0].to_builder()

    Cell.begin_parse():  Slice(self.bits.copy(), self.refs.copy(), self.type_)
    Cell.to_builder():   if self.is_exotic: raise CellError(...);  return Builder().store_cell(self)

`none` = the call raises (`cells[0]` on an empty list is an IndexError).  References held by a slice / builder are the
parsed child cells; they are represented by the trees they denote (`R = Model.Cell`, as in the Builder/Slice theorems).
The model `Slice` has no `type_` field (no slice operation modelled in Model/Builder.lean reads it).
-/
import TonVerif.Model.BocParse
import TonVerif.Model.BocForms
import TonVerif.Model.Builder

namespace TonVerif.Model.BocEntry
open TonVerif TonVerif.Model

/-- the argument of `one_from_boc`: a `bytes` object or a `str` -/
abbrev Input := Sum Bytes (List Char)

/-! ### generic in the cell representation `R` (trees with cached info in the theorems, shared evaluated nodes in the driver) -/

/-- `Boc(data).deserialize(cls)` with `cls(bits, refs, type) = mk` -/
def fromBocAnyG {R : Type} (mk : Bits → List R → Int → Option R) (inp : Input) : Option (List R) :=
  (BocForms.inputBytes inp).bind (BocParse.deserialize mk)

/-- `Cell.one_from_boc(data)` -/
def cellOneG {R : Type} (mk : Bits → List R → Int → Option R) (inp : Input) : Option R :=
  (fromBocAnyG mk inp).bind fun cells => if cells.length > 1 then none else cells[0]?

/-- `Slice.one_from_boc(data)`; `bp` = `cell.begin_parse()` -/
def sliceOneG {R S : Type} (mk : Bits → List R → Int → Option R) (bp : R → S) (inp : Input) : Option S :=
  (fromBocAnyG mk inp).bind fun cells => (cells[0]?).map bp

/-- `Builder.one_from_boc(data)`; `tb` = `cell.to_builder()` -/
def builderOneG {R B : Type} (mk : Bits → List R → Int → Option R) (tb : R → Option B) (inp : Input) : Option B :=
  (fromBocAnyG mk inp).bind fun cells => (cells[0]?).bind tb

/-- `cell.begin_parse()` for a cell with these data bits and references -/
def beginParseG {R : Type} (bits : Bits) (refs : List R) : Slice R := ⟨bits, refs⟩

/-- `cell.to_builder()` for a cell of this type with these data bits and references: refuses exotic cells, otherwise
`Builder().store_cell(cell)` -/
def toBuilderG {R : Type} (kind : Int) (bits : Bits) (refs : List R) : Option (Builder R) :=
  if kind != kOrdinary then none
  else
    let r := BOp.storeCell bits refs (Builder.empty : Builder R)
    if r.2 then some r.1 else none

/-! ### on parsed cells `CellV` = (denoted tree, cached info) -/

/-- `Boc(data).deserialize(Cell)` -/
def fromBocAny (H : Bytes → Bytes) (inp : Input) : Option (List BocParse.CellV) := fromBocAnyG (BocParse.mkCell H) inp

/-- `Cell.one_from_boc(data)` -/
def cellOne (H : Bytes → Bytes) (inp : Input) : Option BocParse.CellV := cellOneG (BocParse.mkCell H) inp

/-- `cell.begin_parse()` -/
def beginParse : Cell → Slice Cell
  | .mk _ bits refs => beginParseG bits refs

/-- `cell.to_builder()` -/
def toBuilder : Cell → Option (Builder Cell)
  | .mk kind bits refs => toBuilderG kind bits refs

/-- `Slice.one_from_boc(data)` -/
def sliceOne (H : Bytes → Bytes) (inp : Input) : Option (Slice Cell) :=
  sliceOneG (BocParse.mkCell H) (fun c => beginParse c.1) inp

/-- `Builder.one_from_boc(data)` -/
def builderOne (H : Bytes → Bytes) (inp : Input) : Option (Builder Cell) :=
  builderOneG (BocParse.mkCell H) (fun c => toBuilder c.1) inp

end TonVerif.Model.BocEntry
