/-
Model of the three `one_from_boc` entry points (`boc/cell.py`, `boc/slice.py`, `boc/builder.py`), on top of
`Boc.__init__` (Model/BocForms.lean `inputBytes`: bytes as is; `str` → `bytes.fromhex`, on ValueError non-strict
`base64.b64decode`) and the parser model `BocParse.fromBoc` (Model/BocParse.lean):

    Cell.one_from_boc(data):    cells = Boc(data).deserialize(cls); if len(cells) > 1: raise; return cells[0]
    Slice.one_from_boc(data):   cells = Boc(data).deserialize();    return cells[0].begin_parse()
    Builder.one_from_boc(data): cells = Boc(data).deserialize();    return cells[0].to_builder()

    Cell.begin_parse():  Slice(self.bits.copy(), self.refs.copy(), self.type_)
    Cell.to_builder():   if self.is_exotic: raise CellError(...);  return Builder().store_cell(self)

`none` = the call raises (`cells[0]` on an empty list is an IndexError).  References held by a slice / builder are the
parsed child cells; they are represented by the trees they denote (`R = Model.Cell`, as in the Builder/Slice theorems).
The model `Slice` has no `type_` field (no slice operation modelled in Model/Builder.lean reads it).
-/
import TonVerif.Model.BocParse
import TonVerif.Model.BocForms
import TonVerif.Model.Builder

namespace TonVerif.Model.BocEntry
open TonVerif TonVerif.Model

/-- the argument of `one_from_boc`: a `bytes` object or a `str` -/
abbrev Input := Sum Bytes (List Char)

/-- `Boc(data).deserialize(Cell)` -/
def fromBocAny (H : Bytes → Bytes) (inp : Input) : Option (List BocParse.CellV) :=
  (BocForms.inputBytes inp).bind (BocParse.fromBoc H)

/-- `Cell.one_from_boc(data)` -/
def cellOne (H : Bytes → Bytes) (inp : Input) : Option BocParse.CellV :=
  (fromBocAny H inp).bind fun cells => if cells.length > 1 then none else cells[0]?

/-- `cell.begin_parse()` -/
def beginParse : Cell → Slice Cell
  | .mk _ bits refs => ⟨bits, refs⟩

/-- `cell.to_builder()`: refuses exotic cells, otherwise `Builder().store_cell(cell)` -/
def toBuilder : Cell → Option (Builder Cell)
  | .mk kind bits refs =>
    if kind != kOrdinary then none
    else
      let r := BOp.storeCell bits refs (Builder.empty : Builder Cell)
      if r.2 then some r.1 else none

/-- `Slice.one_from_boc(data)` -/
def sliceOne (H : Bytes → Bytes) (inp : Input) : Option (Slice Cell) :=
  (fromBocAny H inp).bind fun cells => (cells[0]?).map fun c => beginParse c.1

/-- `Builder.one_from_boc(data)` -/
def builderOne (H : Bytes → Bytes) (inp : Input) : Option (Builder Cell) :=
  (fromBocAny H inp).bind fun cells => (cells[0]?).bind fun c => toBuilder c.1

end TonVerif.Model.BocEntry
