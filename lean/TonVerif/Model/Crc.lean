/-
Model of `pytoniq_core.crypto.crc.crc16 / crc32c` as byte-list functions.
The integer part is the *generated* translation of the Python loop; only
`int.to_bytes` is hand-modelled (`toBytesBE?`).
-/
import TonVerif.Basic
import TonVerif.Generated.Crc
namespace TonVerif.Model

def crcToBytes (width : Nat) (fixed : Option Bool) (argBig : Bool) (v : Nat) : Option Bytes :=
  let big := match fixed with | some b => b | none => argBig
  if big then toBytesBE? width v else toBytesLE? width v

/-- `crc16(data)`; `none` = the Python code raises. -/
def crc16 (data : Bytes) : Option Bytes :=
  crcToBytes Generated.crc16_width Generated.crc16_bigEndian true (Generated.crc16 data)

/-- `crc32c(data, byteorder)`; `big = false` is the default `'little'`. -/
def crc32c (data : Bytes) (big : Bool := false) : Option Bytes :=
  crcToBytes Generated.crc32c_width Generated.crc32c_bigEndian big (Generated.crc32c data)

end TonVerif.Model
