/-
Model of `pytoniq_core/proof/check_proof.py`: `check_proof`, `check_block_header_proof`,
`check_account_proof`, `check_shard_proof`, as compositions over the cell model (Model/Cell.lean).

A constructed Python `Cell` object is a `PCell`: the cached `CellInfo` (level mask, `_hashes`, `_depths`,
bits, type) plus the child objects.  "raises" = `false` / `none`: the property never distinguishes
exception classes.  The model mirrors the code AFTER the fix commits of fix/mk:
  * 56bdc07  check_account_proof compares the supplied state's `.hash` (F12),
  * 3b51ac3  check_proof also requires the proof cell to be exactly `03 ++ hash ++ depth(child,0)`, one ref,
  * 83e0e94  check_account_proof / check_shard_proof run check_proof on both roots,
  * 67bd38d  check_block_header_proof(.., True) requires root[2] to be a Merkle update cell whose stored new hash
             (data[33:65]) is the returned `root[2][1].get_hash(0)`.

What is NOT mirrored statement by statement (abstracted to exactly the facts the checks use):
  * `Cell.from_boc(proof)` — the argument `roots` is its result (BoC decoding is C03/C05's business);
  * the TL-B parsing `ShardStateUnsplit.deserialize(...)`, `.accounts[0][key]`, `.cell[0]` — the checks only use
    WHICH cell below the proved state root is the account cell of the address; that is the parameter
    `locate : PCell → Bytes → Option PCell` (`none` = any exception on the way: KeyError, malformed TL-B,
    pruned dictionary path ...).  `locateAccount` below is a concrete lookup-only instance (block.tlb layout)
    used by the driver; it agrees with the library whenever the library's full deserialisation succeeds;
  * `Block.deserialize(...).info` comparison and the `ShardHashes` lookup of `check_shard_proof` — Boolean
    parameters/functions of the same kind.
-/
import TonVerif.Model.Cell
import TonVerif.Model.PCell
namespace TonVerif.Model

mutual
  /-- build the objects of a tree bottom-up (`none` = some constructor raises) -/
  def PCell.ofCell (H : Bytes → Bytes) : Cell → Option PCell
    | .mk kind bits refs => do
      let rs ← PCell.ofCells H refs
      let i ← construct H kind bits (rs.map PCell.info)
      pure (.mk i rs)
  def PCell.ofCells (H : Bytes → Bytes) : List Cell → Option (List PCell)
    | [] => some []
    | c :: cs => do
      let p ← PCell.ofCell H c
      let ps ← PCell.ofCells H cs
      pure (p :: ps)
end

/-- `check_proof(cell, hash_)`: `true` = returns, `false` = raises. -/
def checkProof (c : PCell) (h : Bytes) : Bool :=
  if c.info.kind != kMerkleProof then false                 -- 'Expected Merkle proof Cell'
  else if pySlice c.data 1 33 != h then false               -- 'Provided invalid hash'
  else match c.refs[0]? with
    | none => false                                         -- cell[0]: IndexError
    | some r =>
      if r.info.getHash 0 != some h then false              -- 'Merkle proof is invalid'
      else match (r.info.getDepth 0).bind (toBytesBE? 2) with
        | none => false
        | some db =>
          -- 'Malformed Merkle proof cell'
          if c.refs.length != 1 || c.info.bits.length != 280 || c.data != [3] ++ h ++ db then false
          else true

/-- `check_block_header_proof(root_cell, block_hash, False)` -/
def checkBlockHeaderProof (root : PCell) (blockHash : Bytes) : Bool :=
  root.info.getHash 0 == some blockHash

/-- `check_block_header_proof(root_cell, block_hash, True)`: the returned `root_cell[2][1].get_hash(0)`; `none` = raises -/
def checkBlockHeaderProofState (root : PCell) (blockHash : Bytes) : Option Bytes :=
  if checkBlockHeaderProof root blockHash then do
    let su ← root.refs[2]?                                  -- state_update = root_cell[2]
    let r21 ← su.refs[1]?
    let sh ← r21.info.getHash 0
    -- 'state update does not commit to the state hash' (fix 67bd38d)
    if su.info.kind != kMerkleUpdate || pySlice su.data 33 65 != sh then none else some sh
  else none

/-- `check_account_proof(proof, shrd_blk, address, account_state_root)`.
`roots = Cell.from_boc(proof)`, `blkRootHash = shrd_blk.root_hash`, `addr = address.hash_part`,
`locate st addr` = `ShardStateUnsplit.deserialize(st.begin_parse()).accounts[0][int(addr)].cell[0]`. -/
def checkAccountProof (locate : PCell → Bytes → Option PCell) (roots : List PCell) (blkRootHash : Bytes)
    (addr : Bytes) (state : PCell) : Bool :=
  match roots with
  | [p0, p1] =>                                             -- 'expected 2 root cells'
    if !checkProof p0 blkRootHash then false else
    match p0.refs[0]? with
    | none => false
    | some hdr =>
    match checkBlockHeaderProofState hdr blkRootHash with
    | none => false
    | some stateHash =>
    match p1.refs[0]? with
    | none => false
    | some st =>
    if st.info.getHash 0 != some stateHash then false else  -- 'state hashes mismatch'
    if !checkProof p1 stateHash then false else
    match locate st addr with
    | none => false
    | some acc => acc.info.getHash 0 == some state.info.hash  -- 'account state proof invalid'
  | _ => false

/-- `check_shard_proof(shard_proof, blk, shrd_blk)`; `same` = `blk == shrd_blk`, `masterchain` = `blk.workchain == -1`,
`blockInfoOk hdr` = the seqno/workchain comparison on `Block.deserialize(hdr).info`,
`findShard st` = the shard descriptor with `shrd_blk.root_hash` is found in `ShardStateUnsplit.deserialize(st).custom.shard_hashes`. -/
def checkShardProof (blockInfoOk : PCell → Bool) (findShard : PCell → Bool) (same masterchain : Bool)
    (roots : List PCell) (blkRootHash : Bytes) : Bool :=
  if same then true
  else if !masterchain then false
  else match roots with
  | [b, s] =>
    match b.refs[0]?, s.refs[0]? with
    | some hdr, some st =>
      if !blockInfoOk hdr then false else
      match st.info.getHash 0 with
      | none => false
      | some mcStateHash =>
        if !checkProof b blkRootHash then false else
        match checkBlockHeaderProofState hdr blkRootHash with
        | none => false
        | some stateHash =>
          if mcStateHash != stateHash then false else
          if !checkProof s stateHash then false else findShard st
    | _, _ => false
  | _ => false

/-! ### a concrete `locate`: lookup in `ShardStateUnsplit` (block.tlb), used by the driver -/

/-- `HmLabel ~l n`: returns (label bits, rest) ; `none` = slice underflow -/
def readLabel (bits : Bits) (n : Nat) : Option (Bits × Bits) :=
  match bits with
  | false :: rest =>                       -- hml_short: unary length
    let len := (rest.takeWhile id).length
    let r1 := rest.drop len
    match r1 with
    | false :: r2 => if r2.length < len then none else some (r2.take len, r2.drop len)
    | _ => none
  | true :: false :: rest =>               -- hml_long
    let w := bitLength n                   -- `(#<= 0)`: a zero-width field reads as 0 (fix 602ccc8)
    if rest.length < w then none else
    let len := natOfBits (rest.take w)
    let r1 := rest.drop w
    if r1.length < len then none else some (r1.take len, r1.drop len)
  | true :: true :: v :: rest =>           -- hml_same
    let w := bitLength n                   -- `(#<= 0)`: a zero-width field reads as 0 (fix 602ccc8)
    if rest.length < w then none else
    let len := natOfBits (rest.take w)
    some (List.replicate len v, rest.drop w)
  | _ => none

/-- skip `DepthBalanceInfo` (5 bits + Grams + ExtraCurrencyCollection): rest of bits and number of refs consumed -/
def skipDepthBalance (bits : Bits) : Option (Bits × Nat) :=
  if bits.length < 9 then none else
  let l := natOfBits ((bits.drop 5).take 4)
  let r := bits.drop (9 + 8 * l)
  if bits.length < 9 + 8 * l then none else
  match r with
  | false :: r' => some (r', 0)
  | true :: r' => some (r', 1)
  | [] => none

/-- walk the `HashmapAug 256` from `c` with `n` key bits left -/
def lookupAug : Nat → PCell → Nat → Bits → Option PCell
  | 0, _, _, _ => none
  | fuel+1, c, n, key =>
    if c.info.kind != kOrdinary then none else
    match readLabel c.info.bits n with
    | none => none
    | some (lbl, rest) =>
      if lbl.length > n then none else
      if key.take lbl.length != lbl then none else
      let key' := key.drop lbl.length
      let m := n - lbl.length
      if m == 0 then
        -- leaf: extra, then ShardAccount = ^Account bits256 uint64 ; `.cell[0]` = first ref after the extra's
        match skipDepthBalance rest with
        | none => none
        | some (r, k) => if r.length < 320 then none else c.refs[k]?
      else
        match key' with
        | [] => none
        | b :: key'' =>
          if c.refs.length < 2 then none else
          match c.refs[if b then 1 else 0]? with
          | none => none
          | some ch => lookupAug fuel ch (m - 1) key''

/-- can `DepthBalanceInfo.deserialize` read `split_depth:(#<= 30) balance:CurrencyCollection` from these bits / remaining refs?
(`load_uint(5)`, `load_coins`, the extra-currency Maybe-ref; the referenced dictionary is assumed parseable) -/
def readsDepthBalance (bits : Bits) (nrefs : Nat) : Bool :=
  if bits.length < 9 then false else
  let len := natOfBits ((bits.drop 5).take 4)
  if bits.length < 9 + 8 * len then false else
  match bits.drop (9 + 8 * len) with
  | [] => false
  | b :: _ => if b then decide (nrefs ≥ 1) else true

/-- `ShardStateUnsplit.deserialize(st.begin_parse()).accounts[0][int(addr)].cell[0]` as a lookup
(valid for states without `custom`; everything off the path is assumed parseable). -/
def locateAccount (st : PCell) (addr : Bytes) : Option PCell :=
  let bits := st.info.bits
  if st.info.kind != kOrdinary then none else
  if bits.length < 362 then none else
  if bits.take 32 != bytesToBits [0x90, 0x23, 0xaf, 0xe2] then none else
  if (bits.drop 64).take 2 != [false, false] then none else          -- ShardIdent tag
  if bits.getD 361 false then none else                                -- custom present: not modelled
  if st.refs.length < 3 then none else
  match st.refs[1]? with
  | none => none
  | some accs =>
    if accs.info.kind != kOrdinary then none else
    match accs.info.bits with
    | true :: rest =>
      match accs.refs[0]? with
      | none => none
      | some root =>
        -- `ahme_root$1 root:^(HashmapAug 256 ShardAccount DepthBalanceInfo) extra:DepthBalanceInfo`: since fix f2933e1
        -- `load_hashmap_aug_e` reads the top-level extra after the root, so it must be readable
        if readsDepthBalance rest (accs.refs.length - 1) then lookupAug 300 root 256 (bytesToBits addr) else none
    | _ => none

end TonVerif.Model
