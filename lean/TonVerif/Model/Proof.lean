/-
Model of `pytoniq_core/proof/check_proof.py`: `check_proof`, `check_block_header_proof`,
`check_account_proof`, `check_shard_proof`, as compositions over the cell model (Model/Cell.lean).

A constructed Python `Cell` object is a `PCell`: the cached `CellInfo` (level mask, `_hashes`, `_depths`,
bits, type) plus the child objects.  "raises" = `false` / `none`: the property never distinguishes
exception classes.  The model mirrors the code AFTER the fix commits of fix/mk:
  * 56bdc07  check_account_proof compares the supplied state's `.hash` (F12),
  * 3b51ac3  check_proof also requires the proof cell to be exactly `03 ++ hash ++ depth(child,0)`, one ref,
  * 83e0e94  check_account_proof / check_shard_proof run check_proof on both roots,
  * 67bd38d  check_block_header_proof(.., True) requires root[2] to be a Merkle update cell whose stored new hash
             (data[33:65]) is the returned `root[2][1].get_hash(0)`.

What is NOT mirrored statement by statement (abstracted to exactly the facts the checks use):
  * `Cell.from_boc(proof)` — the argument `roots` is its result (BoC decoding is C03/C05's business);
  * of the TL-B parsing `ShardStateUnsplit.deserialize(...)`, `.accounts[0][key]`, `.cell[0]` (Model/Locate.lean,
    `locateAccount`: state header fields, `load_hashmap_aug_e` over the whole dictionary, `DepthBalanceInfo`,
    `ShardAccount`, the `^[…]` reference group, `custom`) two sub-parsers remain Boolean parameters (`Opaque`):
    `Account.deserialize` on an account cell whose first bit is 1 and `McStateExtra.deserialize` on an ordinary cell;
  * `Block.deserialize(...).info` comparison and the `ShardHashes` lookup of `check_shard_proof` — Boolean
    parameters/functions of the same kind.
-/
import TonVerif.Model.Cell
import TonVerif.Model.PCell
import TonVerif.Model.Locate
namespace TonVerif.Model

mutual
  /-- build the objects of a tree bottom-up (`none` = some constructor raises) -/
  def PCell.ofCell (H : Bytes → Bytes) : Cell → Option PCell
    | .mk kind bits refs => do
      let rs ← PCell.ofCells H refs
      let i ← construct H kind bits (rs.map PCell.info)
      pure (.mk i rs)
  def PCell.ofCells (H : Bytes → Bytes) : List Cell → Option (List PCell)
    | [] => some []
    | c :: cs => do
      let p ← PCell.ofCell H c
      let ps ← PCell.ofCells H cs
      pure (p :: ps)
end

/-- `check_proof(cell, hash_)`: `true` = returns, `false` = raises. -/
def checkProof (c : PCell) (h : Bytes) : Bool :=
  if c.info.kind != kMerkleProof then false                 -- 'Expected Merkle proof Cell'
  else if pySlice c.data 1 33 != h then false               -- 'Provided invalid hash'
  else match c.refs[0]? with
    | none => false                                         -- cell[0]: IndexError
    | some r =>
      if r.info.getHash 0 != some h then false              -- 'Merkle proof is invalid'
      else match (r.info.getDepth 0).bind (toBytesBE? 2) with
        | none => false
        | some db =>
          -- 'Malformed Merkle proof cell'
          if c.refs.length != 1 || c.info.bits.length != 280 || c.data != [3] ++ h ++ db then false
          else true

/-- `check_block_header_proof(root_cell, block_hash, False)` -/
def checkBlockHeaderProof (root : PCell) (blockHash : Bytes) : Bool :=
  root.info.getHash 0 == some blockHash

/-- `check_block_header_proof(root_cell, block_hash, True)`: the returned `root_cell[2][1].get_hash(0)`; `none` = raises -/
def checkBlockHeaderProofState (root : PCell) (blockHash : Bytes) : Option Bytes :=
  if checkBlockHeaderProof root blockHash then do
    let su ← root.refs[2]?                                  -- state_update = root_cell[2]
    let r21 ← su.refs[1]?
    let sh ← r21.info.getHash 0
    -- 'state update does not commit to the state hash' (fix 67bd38d)
    if su.info.kind != kMerkleUpdate || pySlice su.data 33 65 != sh then none else some sh
  else none

/-- `check_account_proof(proof, shrd_blk, address, account_state_root)`.
`roots = Cell.from_boc(proof)`, `blkRootHash = shrd_blk.root_hash`, `addr = address.hash_part`,
`locateAccount O st addr` (Model/Locate.lean) = `ShardStateUnsplit.deserialize(st.begin_parse()).accounts[0][int(addr)].cell[0]`;
`O` = the verdicts of the two sub-parsers that are not modelled. -/
def checkAccountProof (O : Opaque) (roots : List PCell) (blkRootHash : Bytes)
    (addr : Bytes) (state : PCell) : Bool :=
  match roots with
  | [p0, p1] =>                                             -- 'expected 2 root cells'
    if !checkProof p0 blkRootHash then false else
    match p0.refs[0]? with
    | none => false
    | some hdr =>
    match checkBlockHeaderProofState hdr blkRootHash with
    | none => false
    | some stateHash =>
    match p1.refs[0]? with
    | none => false
    | some st =>
    if st.info.getHash 0 != some stateHash then false else  -- 'state hashes mismatch'
    if !checkProof p1 stateHash then false else
    match locateAccount O st addr with
    | none => false
    | some acc => acc.info.getHash 0 == some state.info.hash  -- 'account state proof invalid'
  | _ => false

/-- `check_shard_proof(shard_proof, blk, shrd_blk)`; `same` = `blk == shrd_blk`, `masterchain` = `blk.workchain == -1`,
`blockInfoOk hdr` = the seqno/workchain comparison on `Block.deserialize(hdr).info`,
`findShard st` = the shard descriptor with `shrd_blk.root_hash` is found in `ShardStateUnsplit.deserialize(st).custom.shard_hashes`. -/
def checkShardProof (blockInfoOk : PCell → Bool) (findShard : PCell → Bool) (same masterchain : Bool)
    (roots : List PCell) (blkRootHash : Bytes) : Bool :=
  if same then true
  else if !masterchain then false
  else match roots with
  | [b, s] =>
    match b.refs[0]?, s.refs[0]? with
    | some hdr, some st =>
      if !blockInfoOk hdr then false else
      match st.info.getHash 0 with
      | none => false
      | some mcStateHash =>
        if !checkProof b blkRootHash then false else
        match checkBlockHeaderProofState hdr blkRootHash with
        | none => false
        | some stateHash =>
          if mcStateHash != stateHash then false else
          if !checkProof s stateHash then false else findShard st
    | _, _ => false
  | _ => false

/-! ### the two Boolean parameters of `checkShardProof`, read from the source (`check_shard_proof`; the TL-B deserialisers stay
parameters: `deserBlock c` = `Block.deserialize(c.begin_parse()).info`, `deserShard c` = `ShardStateUnsplit.deserialize(c.begin_parse())`,
`shardHashes s` = `s.custom.shard_hashes` (`none` = raises), `shardGet d wc` = `d.get(wc)`, `descrList` = `.list` (an element is `None`
for a pruned leaf), `entryRootHash` = `.root_hash`) -/

/-- `block_info.seqno == blk.seqno and block_info.shard.workchain_id == blk.workchain` on the deserialised header -/
def shardBlockInfoOk {BlockInfo : Type} (deserBlock : PCell → Option BlockInfo) (infoSeqno infoWorkchain : BlockInfo → Int)
    (seqno workchain : Int) (hdr : PCell) : Bool :=
  match deserBlock hdr with
  | some i => infoSeqno i == seqno && infoWorkchain i == workchain
  | none => false

/-- `s is not None and s.root_hash == shrd_blk.root_hash` on one leaf of the BinTree (`None` = a pruned leaf) -/
def entryMatches {ShardEntry : Type} (entryRootHash : ShardEntry → Bytes) (rootHash : Bytes) : Option ShardEntry → Bool
  | some e => entryRootHash e == rootHash
  | none => false

/-- the tail of `check_shard_proof`: deserialise the masterchain state cell, take `custom.shard_hashes.get(shrd_blk.workchain)` and return
that descriptor iff one of its (unpruned) leaves carries `shrd_blk.root_hash`; `none` = raises -/
def findShardDescr {Shard ShardDict ShardDescr ShardEntry : Type} (deserShard : PCell → Option Shard)
    (shardHashes : Shard → Option ShardDict) (shardGet : ShardDict → Int → Option ShardDescr)
    (descrList : ShardDescr → List (Option ShardEntry)) (entryRootHash : ShardEntry → Bytes)
    (workchain : Int) (rootHash : Bytes) (st : PCell) : Option ShardDescr :=
  (deserShard st).bind fun sh => (shardHashes sh).bind fun d => (shardGet d workchain).bind fun descr =>
    if (descrList descr).any (entryMatches entryRootHash rootHash) then some descr else none

end TonVerif.Model
