/-
Model of the BoC PARSER of `pytoniq_core/boc/deserialize.py`
(`Boc.deserialize_boc_header`, `Boc.deserialize_cell`, `Boc.deserialize`) and of
`Cell.from_boc` (`boc/cell.py`), mirroring the code as it is: same fields, same order of
checks, `none` for every raised exception (BocError, IndexError, ValueError, AttributeError,
CellError, OverflowError are not distinguished).

What the code does NOT check is not checked here either (flag bits 3-4, `size <= 4`,
`off_bytes <= 8`, `absent`, the index contents, the cache bit, `refs <= 4`, slack bytes inside the
cell data, the level bits of d1 unless hashes are stored).

Python integer idioms are written arithmetically (identical on every natural number):
`x >> 5 = x / 32`, `x & 7 = x % 8`, `x & 16 != 0  <->  x / 16 % 2 = 1`; the flag byte tests `flags_byte & 2^k` are
`Nat.testBit flags_byte k`.
A length test `data_len - i < k` (Python ints, `data_len - i` may be negative) is `data_len < i + k`.

The cell constructor called on every record (`cls(bits, refs, type)`) is a parameter `mk`;
`fromBoc H` instantiates it with the constructor model `Model.construct H` (Model/Cell.lean).
-/
import TonVerif.Basic
import TonVerif.Model.Cell
import TonVerif.Model.Crc

namespace TonVerif.Model.BocParse
open TonVerif TonVerif.Model

/-- `SERIALIZED_BOC_PREFIX` -/
def magicGeneric : Bytes := [0xb5, 0xee, 0x9c, 0x72]
/-- `SERIALIZED_BOC_IDX_PREFIX` -/
def magicIdx : Bytes := [0x68, 0xff, 0x65, 0xf3]
/-- `SERIALIZED_BOC_IDX_CRC32C` -/
def magicIdxCrc : Bytes := [0xac, 0xc3, 0xa7, 0x28]

/-- `bytes_to_uint(data[a: a + w])` -/
def uintAt (data : Bytes) (a w : Nat) : Nat := natOfBE (pySlice data a (a + w))

/-- `[bytes_to_uint(data[j: j + w]) for j in range(a, a + k * w, w)]` for `w > 0`. -/
def uintsAt (data : Bytes) (a w k : Nat) : List Nat :=
  (List.range k).map (fun t => uintAt data (a + t * w) w)

/-- the part of the header dict decided by the magic and the flag / size byte. -/
structure Flags where
  generic : Bool          -- `data[:4] == SERIALIZED_BOC_PREFIX`
  hasIdx : Bool
  hasCrc : Bool
  hasCacheBits : Bool
  flags : Nat
  sizeBytes : Nat
  deriving Repr, DecidableEq

/-- first `if/elif/else` of `deserialize_boc_header`; `none` = too short, unknown prefix or `data[4]` IndexError. -/
def readFlags (data : Bytes) : Option Flags :=
  if data.length < 4 then none
  else if pySlice data 0 4 == magicGeneric then
    (data[4]?).map fun fb =>
      { generic := true, hasIdx := fb.testBit 7, hasCrc := fb.testBit 6, hasCacheBits := fb.testBit 5,
        flags := (if fb.testBit 4 then 16 else 0) * 2 + (if fb.testBit 3 then 8 else 0), sizeBytes := fb % 8 }
  else if pySlice data 0 4 == magicIdx then
    (data[4]?).map fun s =>
      { generic := false, hasIdx := true, hasCrc := false, hasCacheBits := false, flags := 0, sizeBytes := s }
  else if pySlice data 0 4 == magicIdxCrc then
    (data[4]?).map fun s =>
      { generic := false, hasIdx := true, hasCrc := true, hasCacheBits := false, flags := 0, sizeBytes := s }
  else none

/-- the dict returned by `deserialize_boc_header`. -/
structure Header where
  fl : Flags
  offsetBytes : Nat
  cellsNum : Nat
  rootsNum : Nat
  absentNum : Nat
  totCellsSize : Nat
  rootList : List Nat
  index : List Nat            -- read when `has_idx`, never used afterwards
  cellsData : Bytes
  deriving Repr, DecidableEq

/-- the fixed-position header fields (everything that decides the expected total length). -/
structure Fields where
  fl : Flags
  off : Nat
  cells : Nat
  roots : Nat
  absent : Nat
  tot : Nat
  deriving Repr, DecidableEq

/-- position where the root list starts = `6 + 3*size + off_bytes`. -/
def Fields.hdrEnd (f : Fields) : Nat := 6 + 3 * f.fl.sizeBytes + f.off
def Fields.rootsLen (f : Fields) : Nat := if f.fl.generic then f.roots * f.fl.sizeBytes else 0
def Fields.indexLen (f : Fields) : Nat := if f.fl.hasIdx then f.cells * f.off else 0
def Fields.cellsStart (f : Fields) : Nat := f.hdrEnd + f.rootsLen + f.indexLen
def Fields.crcLen (f : Fields) : Nat := if f.fl.hasCrc then 4 else 0
/-- the only total length the parser accepts for these header fields. -/
def Fields.expectedLen (f : Fields) : Nat := f.cellsStart + f.tot + f.crcLen

/-- reads flags, `offset_bytes`, `cells_num`, `roots_num`, `absent_num`, `tot_cells_size`.
`none` : the first length check fails, or `size_bytes = 0` (`range(6, 6, 0)` raises ValueError). -/
def readFields (data : Bytes) : Option Fields :=
  (readFlags data).bind fun fl =>
  let size := fl.sizeBytes
  if data.length < 5 + (1 + 3 * size) then none        -- `data_len - 5 < 1 + 3 * size_bytes`
  else (data[5]?).bind fun off =>
  if size = 0 then none
  else
    let e := 6 + 3 * size
    some { fl := fl, off := off, cells := uintAt data 6 size, roots := uintAt data (6 + size) size,
           absent := uintAt data (6 + 2 * size) size, tot := natOfBE (pySlice data e (e + off)) }

/-- `Boc.deserialize_boc_header(data)`. -/
def deserializeBocHeader (data : Bytes) : Option Header :=
  (readFields data).bind fun f =>
  let size := f.fl.sizeBytes
  let i := f.hdrEnd
  -- root list
  (if f.fl.generic then
      (if data.length < i + f.roots * size then none                 -- "Not enough bytes for encoding root cells hashes"
       else some (uintsAt data i size f.roots))
    else (if f.roots != 1 then none else some [0])).bind fun rootList =>
  let i := i + f.rootsLen
  -- index
  (if f.fl.hasIdx then
      (if data.length < i + f.off * f.cells then none                -- "Not enough bytes for index encoding"
       else if f.off = 0 then none                                   -- `range(i, end, 0)` raises ValueError
       else some (uintsAt data i f.off f.cells))
    else some []).bind fun index =>
  let i := i + f.indexLen
  if data.length < i + f.tot then none                               -- "Not enough bytes for cells data"
  else
    let cellsData := pySlice data i (i + f.tot)
    let i := i + f.tot
    (if f.fl.hasCrc then
        (if data.length < i + 4 then none                            -- "Not enough bytes for crc32c hashsum"
         else if Model.crc32c (data.take i) != some (pySlice data i (i + 4)) then none   -- "Crc32c hashsum mismatch"
         else some (i + 4))
      else some i).bind fun i =>
    if data.length != i then none                                    -- "Too many bytes in boc"
    else some { fl := f.fl, offsetBytes := f.off, cellsNum := f.cells, rootsNum := f.roots, absentNum := f.absent,
                totCellsSize := f.tot, rootList := rootList, index := index, cellsData := cellsData }

/-- the dict `{'bits', 'refs', 'type'}` produced by `deserialize_cell`. -/
structure RawCell where
  bits : Bits
  refs : List Nat
  type : Int
  deriving Repr, DecidableEq

/-- the loop `for j in range(-1, -8, -1): if bits[j] == 1: end = j; break` on the REVERSED bits:
looks at the last `n` bits only; `some rest` = tag found, `rest` (reversed) is what `bits[:end]` keeps. -/
def stripTagRev : Nat → Bits → Option Bits
  | 0, _ => none
  | _+1, [] => none
  | n+1, b :: rest => if b then some rest else stripTagRev n rest

/-- `bits[:end]` after that loop (`end = None` keeps everything). -/
def stripTag (bits : Bits) : Bits :=
  match stripTagRev 7 bits.reverse with
  | some r => r.reverse
  | none => bits

/-- `ba2int(bits[:8], signed=True)` for `len(bits) >= 8`. -/
def signed8 (bits : Bits) : Int :=
  let v := natOfBits (bits.take 8)
  if v ≥ 128 then (v : Int) - 256 else (v : Int)

/-- `Boc.deserialize_cell(data, ref_index_size)` : the record and the number of bytes consumed. -/
def deserializeCell (data : Bytes) (refSize : Nat) : Option (RawCell × Nat) :=
  (data[0]?).bind fun d1 =>
  let level := d1 / 32
  let totalRefs := d1 % 8
  let hasHashes := d1 / 16 % 2 == 1
  let isExotic := d1 / 8 % 2 == 1
  if totalRefs == 7 && hasHashes then none                           -- absent cell
  else (data[1]?).bind fun d2 =>
  let aug := d2 % 2
  let dataSize := d2 / 2 + aug
  let hashesCount := popcount level + 1
  let hashesSize := if hasHashes then hashesCount * 32 else 0
  let depthSize := if hashesSize != 0 then hashesCount * 2 else 0
  if data.length < 2 + (hashesSize + depthSize + dataSize + refSize * totalRefs) then none
  else
    let i := 2 + (if hasHashes then hashesSize + depthSize else 0)
    let bits0 := bytesToBits (pySlice data i (i + dataSize))
    let i := i + dataSize
    let bits := if aug == 1 && !bits0.isEmpty then stripTag bits0 else bits0
    (if isExotic then (if bits.length < 8 then none else some (signed8 bits)) else some (-1)).bind fun ty =>
    some ({ bits := bits, refs := uintsAt data i refSize totalRefs, type := ty }, i + totalRefs * refSize)

/-- first loop of `deserialize`: `for ci in range(cells_num): cell, j = deserialize_cell(cells_data[i:], size); i += j`. -/
def readCells : Nat → Bytes → Nat → Option (List RawCell)
  | 0, _, _ => some []
  | n+1, data, size =>
    (deserializeCell data size).bind fun cj =>
    (readCells n (data.drop cj.2) size).map (cj.1 :: ·)

/-- second loop: `for ci in reversed(range(cells_num))`. Iterations `ci+1 … n-1` run BEFORE iteration `ci`, so the
recursive call comes first; `later` = the `'result'` entries of the cells after `ci` (exactly the non-`None` ones at
that moment).  A reference `r < ci` raises ('Topological order is broken'); `r = ci` picks up `None`, on which the
cell constructor raises (AttributeError) for every cell type; `r >= cells_num` is an IndexError. -/
def rebuildFrom {R : Type} (mk : Bits → List R → Int → Option R) : List RawCell → Nat → Option (List R)
  | [], _ => some []
  | c :: cs, ci =>
    (rebuildFrom mk cs (ci + 1)).bind fun later =>
    (c.refs.mapM (fun r => if r < ci then none else if r = ci then none else later[r - ci - 1]?)).bind fun refs =>
    (mk c.bits refs c.type).map (· :: later)

/-- `Boc.deserialize(cls)` on the raw bytes; the third loop picks the roots (`IndexError` = none). -/
def deserialize {R : Type} (mk : Bits → List R → Int → Option R) (data : Bytes) : Option (List R) :=
  (deserializeBocHeader data).bind fun h =>
  (readCells h.cellsNum h.cellsData h.fl.sizeBytes).bind fun recs =>
  (rebuildFrom mk recs 0).bind fun all =>
  h.rootList.mapM (fun ri => all[ri]?)

/-- a parsed cell: the tree it denotes together with what the constructor cached for it. -/
abbrev CellV := Cell × CellInfo

/-- `Cell(bits, refs, type)` on already constructed children. -/
def mkCell (H : Bytes → Bytes) (bits : Bits) (refs : List CellV) (ty : Int) : Option CellV :=
  (construct H ty bits (refs.map (·.2))).map fun i => (Cell.mk ty bits (refs.map (·.1)), i)

/-- `Cell.from_boc(data)` for `data : bytes`. -/
def fromBoc (H : Bytes → Bytes) (data : Bytes) : Option (List CellV) := deserialize (mkCell H) data

/-! ### `Boc.__init__`: input form detection -/

/-- ASCII whitespace as skipped by `bytes.fromhex`. -/
def isAsciiSpace (c : Char) : Bool := c == ' ' || c == '\t' || c == '\n' || c == '\r' || c == '\x0b' || c == '\x0c'

/-- `bytes.fromhex(s)`: whitespace is skipped between byte pairs, never inside one; `none` = ValueError. -/
def fromHex : List Char → Option Bytes
  | [] => some []
  | c :: rest =>
    if isAsciiSpace c then fromHex rest
    else match rest with
      | [] => none
      | d :: rest' => do
        let x ← hexVal? c
        let y ← hexVal? d
        let r ← fromHex rest'
        pure ((x * 16 + y) :: r)

def b64Val? (c : Char) : Option Nat :=
  if 'A' ≤ c ∧ c ≤ 'Z' then some (c.toNat - 65)
  else if 'a' ≤ c ∧ c ≤ 'z' then some (c.toNat - 71)
  else if '0' ≤ c ∧ c ≤ '9' then some (c.toNat + 4)
  else if c == '+' then some 62
  else if c == '/' then some 63
  else none

/-- canonical base64 only (standard alphabet, `=` padding to a multiple of four, nothing else): the fragment of
`base64.b64decode` the framework relies on; other texts are outside the model (`none`). -/
def fromB64 : List Char → Option Bytes
  | [] => some []
  | [a, b, '=', '='] => do
    let x ← b64Val? a; let y ← b64Val? b
    pure [(x * 4 + y / 16) % 256]
  | [a, b, c, '='] => do
    let x ← b64Val? a; let y ← b64Val? b; let z ← b64Val? c
    pure [(x * 4 + y / 16) % 256, (y % 16 * 16 + z / 4) % 256]
  | a :: b :: c :: d :: rest => do
    let x ← b64Val? a; let y ← b64Val? b; let z ← b64Val? c; let w ← b64Val? d
    let r ← fromB64 rest
    pure ((x * 4 + y / 16) % 256 :: (y % 16 * 16 + z / 4) % 256 :: (z % 4 * 64 + w) % 256 :: r)
  | _ => none

/-- what `Cell.from_boc` may be given. -/
inductive BocInput where
  | bytes (b : Bytes)
  | str (s : String)

/-- `Boc.__init__`: bytes are taken as they are; a `str` is tried as hex first, then as base64. -/
def bocInit : BocInput → Option Bytes
  | .bytes b => some b
  | .str s =>
    match fromHex s.toList with
    | some b => some b
    | none => fromB64 s.toList

/-- `Cell.from_boc(data)` for bytes or text. -/
def fromBocInput (H : Bytes → Bytes) (inp : BocInput) : Option (List CellV) :=
  (bocInit inp).bind (fromBoc H)

end TonVerif.Model.BocParse
