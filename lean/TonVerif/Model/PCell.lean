/-
A constructed Python `Cell` object: the cached `CellInfo` of `Cell.__init__` (level mask, `_hashes`, `_depths`, bits)
plus the child objects.  Shared by the Merkle-proof model (Model/Proof.lean) and the BoC emitter model (Model/BocEmit.lean).
-/
import TonVerif.Model.Cell
namespace TonVerif.Model

/-- a constructed `Cell` object: cached values and child objects -/
inductive PCell where
  | mk (info : CellInfo) (refs : List PCell)

def PCell.info : PCell → CellInfo | .mk i _ => i
def PCell.refs : PCell → List PCell | .mk _ r => r

/-- `cell.data` (`self._data_bytes`) -/
def PCell.data (c : PCell) : Bytes := dataBytes c.info.bits

end TonVerif.Model
