/-
Model of `pytoniq_core/proof/check_proof.py :: check_block_signatures` (and
`calculate_node_id_short`) exactly as coded after fix fc4e7dd.

Parameters (never axioms):
  `H      : Bytes → Bytes`                 hashlib.sha256(..).digest()
  `verify : key → msg → signature → Bool`  crypto.signature.verify_sign (Ed25519); every exception
                                           it may raise (bad key length, bad signature length) is a
                                           rejection as well, so `false` stands for "False or raises".
A Python `raise ProofError` is `none` in the loop state and `false` in the final verdict: the
property never distinguishes error kinds.  Weights are `Nat` (`ValidatorDescr.weight` is read with
`load_uint(64)`).

Python                                             model
  node_map = {} ; node_map[id] = node                association list, newest binding first, looked up
                                                     with `List.lookup` (first hit) == last write wins
  seen = set() ; node_id in seen ; seen.add          `List Bytes`, `∈`, cons
  total_weight / signed_weight                       Nat accumulators
-/
import TonVerif.Basic

namespace TonVerif.Model.Sig
open TonVerif

/-- `ValidatorDescr` as far as the check reads it: `.public_key.pubkey`, `.weight`. -/
structure Validator where
  key : Bytes
  weight : Nat
deriving Repr, DecidableEq

/-- one element of `signatures`: `bytes.fromhex(sig['node_id_short'])`, `sig['signature']`. -/
structure SigEntry where
  nodeId : Bytes
  signature : Bytes
deriving Repr, DecidableEq

/-- the two fields of `BlockIdExt` the check reads. -/
structure Blk where
  rootHash : Bytes
  fileHash : Bytes
deriving Repr, DecidableEq

/-- `b'\xc6\xb4\x13H'` (pub.ed25519 TL id, little endian). -/
def nodeIdMagic : Bytes := [0xc6, 0xb4, 0x13, 0x48]

/-- `calculate_node_id_short(pub_key) = sha256(b'\xc6\xb4\x13H' + pub_key)`. -/
def nodeIdShort (H : Bytes → Bytes) (key : Bytes) : Bytes := H (nodeIdMagic ++ key)

/-- `b'pn\x0b\xc5'` (ton.blockId TL id c50b6e70, little endian). -/
def signMagic : Bytes := [0x70, 0x6e, 0x0b, 0xc5]

/-- `to_sign = b'pn\x0b\xc5' + blk.root_hash + blk.file_hash`. -/
def toSign (blk : Blk) : Bytes := signMagic ++ blk.rootHash ++ blk.fileHash

abbrev NodeMap := List (Bytes × Validator)

/-- body of the first loop: `total_weight += node.weight; node_map[id(node)] = node`. -/
def nodeStep (H : Bytes → Bytes) (st : Nat × NodeMap) (node : Validator) : Nat × NodeMap :=
  (st.1 + node.weight, (nodeIdShort H node.key, node) :: st.2)

/-- the first loop: `(total_weight, node_map)`. -/
def buildNodes (H : Bytes → Bytes) (nodes : List Validator) : Nat × NodeMap :=
  nodes.foldl (nodeStep H) (0, [])

/-- state of the second loop: `(seen, signed_weight)`; `none` = a ProofError was raised. -/
abbrev SigState := Option (List Bytes × Nat)

/-- body of the second loop, in the order of the code: unknown id, duplicate, verify, add weight. -/
def sigStep (verify : Bytes → Bytes → Bytes → Bool) (map : NodeMap) (msg : Bytes)
    (st : SigState) (sig : SigEntry) : SigState :=
  match st with
  | none => none
  | some (seen, signed) =>
    match map.lookup sig.nodeId with
    | none => none                                         -- cannot find node_id_short in validator list
    | some node =>
      if sig.nodeId ∈ seen then none                       -- duplicate signature of one validator
      else if verify node.key msg sig.signature then
        some (sig.nodeId :: seen, signed + node.weight)
      else none                                            -- invalid signature!

/-- the second loop. -/
def runSigs (verify : Bytes → Bytes → Bytes → Bool) (map : NodeMap) (msg : Bytes)
    (sigs : List SigEntry) : SigState :=
  sigs.foldl (sigStep verify map msg) (some ([], 0))

/-- `check_block_signatures(nodes, signatures, blk)`: `true` = returns, `false` = raises. -/
def checkBlockSignatures (H : Bytes → Bytes) (verify : Bytes → Bytes → Bytes → Bool)
    (nodes : List Validator) (sigs : List SigEntry) (blk : Blk) : Bool :=
  let (total, map) := buildNodes H nodes
  match runSigs verify map (toSign blk) sigs with
  | none => false
  | some (_, signed) => decide (signed * 3 > total * 2)

end TonVerif.Model.Sig
