/-
No proofs: how the hand model's constructor result (`Model.CellInfo`) is read as the record of attributes that the
REGENERATED `Cell.__init__` (Generated/CellCtor.lean) returns, and back.  Used by Proofs/SrcCellCtor.lean AND by the
failing-input search of harness/translate/cellctor.py (which must work when a proof is broken).
-/
import TonVerif.Model.Cell
import TonVerif.Generated.CellCtor

namespace TonVerif.Generated.CellCtor
open TonVerif TonVerif.Model

/-- the `CellInfo` part of the attributes of a constructed cell -/
def CtorOut.toInfo (o : CtorOut) : CellInfo :=
  { kind := o.kind, bits := o.bits, nrefs := o.nrefs, mask := o.mask, hashes := o.hashes, depths := o.depths }

/-- the attributes the Python constructor leaves behind when the hand model's constructor returns `i`:
`_hash = _hashes[-1]` (`CellInfo.hash`), `_descriptors = get_descriptors(level_mask)`, `_data_bytes = get_data_bytes()`.
(`construct` has checked that the descriptors fit their bytes, so the `getD` default is never used on its results.) -/
def CtorOut.ofModel (i : CellInfo) : CtorOut :=
  { kind := i.kind, bits := i.bits, nrefs := i.nrefs, mask := i.mask, hashes := i.hashes, depths := i.depths, hash := i.hash,
    descriptors := (Model.descriptors i.nrefs (i.kind != kOrdinary) i.bits.length i.mask).getD [], data_bytes := Model.dataBytes i.bits }

end TonVerif.Generated.CellCtor
