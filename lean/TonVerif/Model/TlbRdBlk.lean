/-
C16 source tie, third part (tlb/account.py, block.py, config.py) — READER primitives added to Model/TlbRd.lean / Model/TlbRdTx.lean:
hand-written meaning of what `harness/translate/tlbparsers_blk.py` emits besides the primitives of the first two parts.

  * `Rd.loadHashmap n rd sp`   `Slice.load_hashmap(n, value_deserializer=rd)` = `HashMap.parse(self, n, …)`: an INLINE `Hashmap n X`
                               (`validators#11`): `None` for a non-ordinary slice, else the Patricia walk started on the slice itself —
                               the root label is read from it; a root leaf's value is read from it by `rd`; a root fork takes its two
                               references (each walked by `Rd.dictWalk` of Model/TlbRdTx.lean).  The dict is returned in walk order
                               (= ascending keys); the slice is left after the label and the leaf value / the two references.

Core Lean only (the driver links this file).
-/
import TonVerif.Model.TlbRdTx

namespace TonVerif.Tlb.Rd
open TonVerif TonVerif.Tlb

/-- `parse_hashmap` started on the slice `s` itself (`n` key bits): entries left to right, and what is left of `s` -/
def dictWalkInline (rd : Frag → R) (n : Nat) (s : Frag) : Option (List (Bits × Val) × Frag) :=
  match (hmLabel n).dec s with
  | none => none
  | some (lv, s1) =>
    let l := labelLen lv
    let key := labelBitsOf lv
    if n - l = 0 then
      match rd s1 with
      | some (v, s2) => some ([(key, v)], s2)
      | none => none
    else
      match s1.refs with
      | a :: b :: more =>
        match dictWalk rd n (n - l - 1) (key ++ [false]) a, dictWalk rd n (n - l - 1) (key ++ [true]) b with
        | some x, some y => some (x ++ y, ⟨s1.bits, more⟩)
        | _, _ => none
      | _ => none

/-- `Slice.load_hashmap(n, value_deserializer=rd)` on a slice whose `is_special()` is `sp` -/
def loadHashmap (n : Nat) (rd : Frag → R) (sp : Bool) (s : Frag) : R :=
  if sp then some (.unit, s)
  else match dictWalkInline rd n s with
    | some (kv, s') => some (dict kv, s')
    | none => none

end TonVerif.Tlb.Rd
