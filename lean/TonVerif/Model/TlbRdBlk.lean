/-
C16 source tie, third part (tlb/account.py, block.py, config.py) — READER primitives added to Model/TlbRd.lean / Model/TlbRdTx.lean:
hand-written meaning of what `harness/translate/tlbparsers_blk.py` emits besides the primitives of the first two parts.

  * `Rd.loadHashmap n rd sp`   `Slice.load_hashmap(n, value_deserializer=rd)` = `HashMap.parse(self, n, …)`: an INLINE `Hashmap n X`
                               (`validators#11`): `None` for a non-ordinary slice, else the Patricia walk started on the slice itself —
                               the root label is read from it; a root leaf's value is read from it by `rd`; a root fork takes its two
                               references (each walked by `Rd.dictWalk` of Model/TlbRdTx.lean).  The dict is returned in walk order
                               (= ascending keys); the slice is left after the label and the leaf value / the two references.

  * `Rd.loadHashmapS n rd sp`     the same with `key_deserializer=lambda src: Builder().store_bits(src).to_slice().load_int(n)`: signed keys
  * `Rd.refSlice`                 `lambda src: src.load_ref().begin_parse()`: a Slice value `.con "slice" (.cell c)` over the next reference
  * `Rd.loadDictRaw n`            `Slice.load_dict(n)` without a value_deserializer (`libraries`, `prev_blk_signatures`): the values are raw
                                  Slices — recorded as `.con "slice" .unit` (presence only: the library does not parse them)
  * `Rd.presence`                 a constructor argument kept as an unparsed cell where the schema has a structured value: `None` / "a cell"
  * `Rd.merkleUpdateOrd c`        `MerkleUpdate.deserialize(c, …)` for an ordinary cell `c`: `None`; exotic cells are outside the model
  * `Rd.tuple`                    a Python tuple → `.con "tuple" (.record [("0", a), ("1", b)])`
  * `Rd.augWalk x y`              `parse_aug` of boc/hashmap/parse.py: a non-ordinary cell is skipped (no entries, no extras); else label (HmLabel reader), then a leaf reads `extra:Y` THEN `value:X`
                                  from the same cell (`extras.append(y(cs)); ret[prefix] = x(cs)`), a fork walks its two references and
                                  then reads its own `extra:Y`; result = (entries left to right, extras in that post-order)
  * `Rd.loadHashmapAugE n x y sp` `Slice.load_hashmap_aug_e(n, x, y)`: `self.to_cell()` for a special slice; Maybe bit; root reference
                                  (`None` for a non-ordinary root), then the top-level `extra:Y` is read and dropped; an empty
                                  dictionary gives `({}, [y(self)])`

  * `Rd.loadHashmapAug n x y sp`  `Slice.load_hashmap_aug(n, x, y)`: an INLINE `HashmapAug n X Y` (`AccountBlock.transactions`), `parse_aug`
                                  started on the slice itself
  * `Rd.loadShardHashes leaf`     `deserialize_shard_hashes` of tlb/utils.py (a function with index loops over lists of slices — a HAND
                                  MODEL, its source text is pinned by the translator): `load_dict(32, BinTree.deserialize(ref))`, then
                                  every leaf slice is replaced by `ShardDescr.deserialize(leaf)` / `None` for a pruned cell

Core Lean only (the driver links this file).
-/
import TonVerif.Model.TlbRdTx

namespace TonVerif.Tlb.Rd
open TonVerif TonVerif.Tlb

/-- `parse_hashmap` started on the slice `s` itself (`n` key bits): entries left to right, and what is left of `s` -/
def dictWalkInline (rd : Frag → R) (n : Nat) (s : Frag) : Option (List (Bits × Val) × Frag) :=
  match (hmLabel n).dec s with
  | none => none
  | some (lv, s1) =>
    let l := labelLen lv
    let key := labelBitsOf lv
    if n - l = 0 then
      match rd s1 with
      | some (v, s2) => some ([(key, v)], s2)
      | none => none
    else
      match s1.refs with
      | a :: b :: more =>
        match dictWalk rd n (n - l - 1) (key ++ [false]) a, dictWalk rd n (n - l - 1) (key ++ [true]) b with
        | some x, some y => some (x ++ y, ⟨s1.bits, more⟩)
        | _, _ => none
      | _ => none

/-- `Slice.load_hashmap(n, value_deserializer=rd)` on a slice whose `is_special()` is `sp` -/
def loadHashmap (n : Nat) (rd : Frag → R) (sp : Bool) (s : Frag) : R :=
  if sp then some (.unit, s)
  else match dictWalkInline rd n s with
    | some (kv, s') => some (dict kv, s')
    | none => none

/-- a dict whose keys were converted by `Builder().store_bits(src).to_slice().load_int(n)` (signed), in insertion order -/
def dictS (kv : List (Bits × Val)) : Val := .con "dict" (.record (kv.map fun p => (toString (sintOfBits p.1), p.2)))

/-- `Slice.load_hashmap(n, key_deserializer=<signed n-bit int>, value_deserializer=rd)` -/
def loadHashmapS (n : Nat) (rd : Frag → R) (sp : Bool) (s : Frag) : R :=
  if sp then some (.unit, s)
  else match dictWalkInline rd n s with
    | some (kv, s') => some (dictS kv, s')
    | none => none

/-- the value reader `lambda src: src.load_ref().begin_parse()`: a Slice over the next referenced cell -/
def refSlice (s : Frag) : R :=
  match loadRef s with
  | some (c, s') => some (.con "slice" (.cell c), s')
  | none => none

/-- the value of a dictionary read WITHOUT a value_deserializer: a Slice positioned after the leaf's label.  Declared abstraction:
    only that a Slice is there is recorded (`.con "slice" .unit`), not its content — such leaves are not parsed by the library -/
def rawLeaf (s : Frag) : R := some (.con "slice" .unit, s)

/-- `Slice.load_dict(n)` (no value_deserializer): keys ↦ Slices -/
def loadDictRaw (n : Nat) (s : Frag) : R := loadDict n rawLeaf s

/-- a constructor argument that the parser keeps as an unparsed cell where the schema has a structured value (`McBlockExtra.shard_fees`:
    the root cell of the ShardFees dictionary).  Declared abstraction: only `None` / "a cell" is recorded -/
def presence : Val → Val
  | .unit => .unit
  | _ => .con "cell" .unit

/-- `MerkleUpdate.deserialize(cell, deserializer)` of tlb/utils.py (text pinned) on an ORDINARY cell: `None` (`cell.type_ !=
    CellTypes.merkle_update`).  Exotic cells are OUTSIDE this model (refused): a real Merkle update is parsed into two nested shard
    states, which no theorem here covers -/
def merkleUpdateOrd (c : Cell) : Option Val := if c.exotic then none else some .unit

/-! ### augmented dictionaries -/

/-- a Python tuple -/
def tuple (xs : List Val) : Val := .con "tuple" (.record (enumFrom 0 xs))

def augWalk (x y : Frag → R) : Nat → Nat → Bits → Cell → Option (List (Bits × Val) × List Val)
  | 0, _, _, _ => none
  | fuel+1, n, pfx, c =>
    if c.exotic then some ([], [])     -- `parse_aug`: `if slice.type_ != CellTypes.ordinary: return None` (a pruned branch is skipped)
    else
    match (hmLabel n).dec ⟨c.bits, c.refs⟩ with
    | none => none
    | some (lv, s1) =>
      let l := labelLen lv
      let key := pfx ++ labelBitsOf lv
      if n - l = 0 then
        match y s1 with
        | some (e, s2) =>
          match x s2 with
          | some (v, _) => some ([(key, v)], [e])
          | none => none
        | none => none
      else
        match s1.refs with
        | a :: b :: more =>
          match augWalk x y fuel (n - l - 1) (key ++ [false]) a, augWalk x y fuel (n - l - 1) (key ++ [true]) b with
          | some l1, some l2 =>
            match y ⟨s1.bits, more⟩ with
            | some (e, _) => some (l1.1 ++ l2.1, l1.2 ++ l2.2 ++ [e])
            | none => none
          | _, _ => none
        | _ => none

/-- `Slice.load_hashmap_aug_e(n, x_deserializer=x, y_deserializer=y)` on a slice whose `is_special()` is `sp` -/
def loadHashmapAugE (n : Nat) (x y : Frag → R) (sp : Bool) (s : Frag) : R :=
  if sp then some (toCell sp s, s)
  else
    match loadBit s with
    | some (b, s1) =>
      if truthy b then
        match loadRef s1 with
        | some (c, s2) =>
          let res : Option Val :=
            if c.exotic then some .unit
            else (augWalk x y (n + 1) n [] c).map fun p => tuple [dict p.1, list p.2]
          match res with
          | some r =>
            match y s2 with
            | some (_, s3) => some (r, s3)
            | none => none
          | none => none
        | none => none
      else
        match y s1 with
        | some (e, s2) => some (tuple [dict [], list [e]], s2)
        | none => none
    | none => none

/-- `parse_aug` started on the slice `s` itself (an inline `HashmapAug n X Y`): (entries, extras) and what is left of `s` -/
def augWalkInline (x y : Frag → R) (n : Nat) (s : Frag) : Option ((List (Bits × Val) × List Val) × Frag) :=
  match (hmLabel n).dec s with
  | none => none
  | some (lv, s1) =>
    let l := labelLen lv
    let key := labelBitsOf lv
    if n - l = 0 then
      match y s1 with
      | some (e, s2) =>
        match x s2 with
        | some (v, s3) => some (([(key, v)], [e]), s3)
        | none => none
      | none => none
    else
      match s1.refs with
      | a :: b :: more =>
        match augWalk x y n (n - l - 1) (key ++ [false]) a, augWalk x y n (n - l - 1) (key ++ [true]) b with
        | some l1, some l2 =>
          match y ⟨s1.bits, more⟩ with
          | some (e, s2) => some ((l1.1 ++ l2.1, l1.2 ++ l2.2 ++ [e]), s2)
          | none => none
        | _, _ => none
      | _ => none

/-- `Slice.load_hashmap_aug(n, x_deserializer=x, y_deserializer=y)` (inline `HashmapAug n X Y`: `AccountBlock.transactions`) -/
def loadHashmapAug (n : Nat) (x y : Frag → R) (sp : Bool) (s : Frag) : R :=
  if sp then some (.unit, s)
  else match augWalkInline x y n s with
    | some (p, s') => some (tuple [dict p.1, list p.2], s')
    | none => none

/-! ### `deserialize_shard_hashes` (tlb/utils.py) with `BinTree.deserialize` (tlb/block.py) -/

/-- `BinTree.deserialize` on the cell `c`, followed by the leaf loop of `deserialize_shard_hashes`: the leaves left to right; a
    leaf of an ordinary cell is parsed by `leaf` from the slice after its `bt_leaf$0` bit (what the leaf parser leaves is dropped),
    a special (pruned) cell gives `None`.  `fuel` bounds the depth (the spec's `BinTree` has 64). -/
def binTreeWalk (leaf : Bool → Frag → R) : Nat → Cell → Option (List Val)
  | 0, _ => none
  | fuel+1, c =>
    if c.exotic then some [.unit]
    else
      match loadBit ⟨c.bits, c.refs⟩ with
      | some (b, s1) =>
        if truthy b then
          match s1.refs with
          | l :: r :: _ =>
            match binTreeWalk leaf fuel l, binTreeWalk leaf fuel r with
            | some x, some y => some (x ++ y)
            | _, _ => none
          | _ => none
        else
          match leaf false s1 with
          | some (v, _) => some [v]
          | none => none
      | none => none

/-- the value reader of the shard-hashes dictionary: `BinTree.deserialize(src.load_ref().begin_parse())`, leaves parsed -/
def binTreeRef (leaf : Bool → Frag → R) (s : Frag) : R :=
  match loadRef s with
  | some (c, s') =>
    match binTreeWalk leaf 64 c with
    | some xs => some (obj "BinTree" [("list", list xs)], s')
    | none => none
  | none => none

/-- `deserialize_shard_hashes(slice)`: `load_dict(32, …)` of BinTrees, every leaf parsed by `leaf` (= `ShardDescr.deserialize`);
    `None` for an empty dictionary -/
def loadShardHashes (leaf : Bool → Frag → R) (s : Frag) : R := loadDict 32 (binTreeRef leaf) s

end TonVerif.Tlb.Rd
