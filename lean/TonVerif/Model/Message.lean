/-
Model of `pytoniq_core/tlb/transaction.py` (`MessageAny`, `CommonMsgInfo`, `InternalMsgInfo`,
`ExternalMsgInfo`, `ExternalOutMsgInfo`), `tlb/block.py` (`CurrencyCollection`,
`ExtraCurrencyCollection`), `tlb/account.py` (`StateInit`, `TickTock`), built on the Builder/Slice model
(`BOp` / `SOp`).  The wrappers of `tlb/utils.py` (`HashUpdate`), `tlb/custom/wallet.py`, `tlb/custom/nft.py` are in
`Model/Wrappers.lean`.

Conventions
* `x.serialize()` followed by `builder.store_cell(x)` is `sub (xB …)`: the piece is built in its own
  empty builder (so its own 1023-bit check applies) and its bits/refs are then appended.
* `ops.make` is `Builder.end_cell` / the `Cell` constructor where a cell object is really needed (a piece
  that goes into a reference, the final cell); `ops.view` is `begin_parse` / `.bits`, `.refs`.
* the logical values are the ones of `Spec/Tlb/Message.lean`; the body cell of a message is represented by
  its bits and refs (`store_ref(self.body)` = `make` of that data, `slice.to_cell()` = the remaining data).
* `ExtraCurrencyCollection`: `HashMap(32, …).serialize()` (`None` for `{}`) / `HashMap.parse` of the root are
  outside this model (C09/C10): the dictionary is its optional root cell.
* the model mirrors `MessageAny.serialize` AFTER the fix of F17 (the init placement reserves room for the body).
-/
import TonVerif.Model.Builder
import TonVerif.Spec.Tlb.Message

namespace TonVerif.Model.Message
open TonVerif TonVerif.Model TonVerif.Model.BOp
open TonVerif.Spec.Tlb (CellOps Chunk Currency TickTock StateInit Info Msg)

variable {R : Type}

/-- `builder.store_cell(<piece>.serialize())` -/
def sub (op : BOp R) : BOp R := fun b =>
  let r := op Builder.empty
  if r.2 then storeCell r.1.bits r.1.refs b else (b, false)

/-- `ExtraCurrencyCollection.serialize` + `CurrencyCollection.serialize` -/
def currencyB (c : Currency R) : BOp R := storeCoins c.grams ⊳ sub (storeMaybeRef c.other)

/-- `TickTock.serialize` -/
def tickTockB (t : TickTock) : BOp R := storeBit t.tick ⊳ storeBit t.tock

/-- `StateInit.serialize` -/
def stateInitB (s : StateInit R) : BOp R :=
  ((match s.splitDepth with
    | some d => storeBit true ⊳ storeUint d 5
    | none => storeBit false) : BOp R) ⊳
  ((match s.special with
    | some t => storeBit true ⊳ sub (tickTockB t)
    | none => storeBit false) : BOp R) ⊳
  storeMaybeRef s.code ⊳ storeMaybeRef s.data ⊳ storeMaybeRef s.library

/-- `InternalMsgInfo.serialize`, `ExternalMsgInfo.serialize`, `ExternalOutMsgInfo.serialize` -/
def infoB : Info R → BOp R
  | .int a b c src dest value ihr fwd lt at_ =>
    storeUint 0 1 ⊳ storeBit a ⊳ storeBit b ⊳ storeBit c ⊳ storeAddress src ⊳ storeAddress dest ⊳
    sub (currencyB value) ⊳ storeCoins ihr ⊳ storeCoins fwd ⊳ storeUint lt 64 ⊳ storeUint at_ 32
  | .extIn src dest fee => storeUint 2 2 ⊳ storeAddress src ⊳ storeAddress dest ⊳ storeCoins fee
  | .extOut src dest lt at_ =>
    storeUint 3 2 ⊳ storeAddress src ⊳ storeAddress dest ⊳ storeUint lt 64 ⊳ storeUint at_ 32

/-- run a builder program from an empty builder; `none` = it raised -/
def runB (op : BOp R) : Option (Chunk R) :=
  let r := op Builder.empty
  if r.2 then some (r.1.bits, r.1.refs) else none

/-- `<piece>.serialize()` as a cell object -/
def cellOf (ops : CellOps R) (op : BOp R) : Option R :=
  (runB op).bind (fun c => ops.make c.1 c.2)

/-- the init part of `MessageAny.serialize` (after fix F17), on the builder that holds the info -/
def initB (ops : CellOps R) (init : Option (StateInit R)) (body : Chunk R) (b : Builder R) : Option (Builder R × Bool) :=
  match init with
  | none => some (storeBit false b)
  | some s =>
    let r := storeBit true b
    if !r.2 then some r else
    match cellOf ops (stateInitB s) with        -- self.init.serialize()
    | none => none
    | some ic =>
      let iv := ops.view ic
      let bitsLeft : Int := (1023 - (r.1.bits.length : Int)) - 2 - iv.1.length
      let refsLeft : Int := 4 - (r.1.refs.length : Int) - iv.2.length
      let bodyFits : Bool := decide (refsLeft ≥ 1) || (decide (refsLeft = 0) && body.2.isEmpty && decide ((body.1.length : Int) ≤ bitsLeft))
      if decide (bitsLeft ≥ 0) && bodyFits then some ((storeBit false ⊳ storeCell iv.1 iv.2) r.1)
      else some ((storeBit true ⊳ storeRef ic) r.1)

/-- the body part of `MessageAny.serialize` -/
def bodyB (ops : CellOps R) (body : Chunk R) (b : Builder R) : Option (Builder R × Bool) :=
  if decide ((body.1.length : Int) ≤ (1023 - (b.bits.length : Int)) - 1) && decide (body.2.length + b.refs.length ≤ 4) then
    some ((storeBit false ⊳ storeCell body.1 body.2) b)
  else
    match ops.make body.1 body.2 with           -- the body cell object
    | none => none
    | some bc => some ((storeBit true ⊳ storeRef bc) b)

/-- `MessageAny.serialize`; `none` = raises -/
def serialize (ops : CellOps R) (m : Msg R) : Option R :=
  match cellOf ops (infoB m.info) with          -- self.info.serialize()
  | none => none
  | some icell =>
    let iv := ops.view icell
    let r0 := storeCell iv.1 iv.2 Builder.empty
    if !r0.2 then none else
    match initB ops m.init m.body r0.1 with
    | none => none
    | some r1 =>
      if !r1.2 then none else
      match bodyB ops m.body r1.1 with
      | none => none
      | some r2 => if !r2.2 then none else ops.make r2.1.bits r2.1.refs

/-! ### deserialisers -/
open SOp

/-- `CurrencyCollection.deserialize` (the dictionary root is returned unparsed) -/
def loadCurrency : SOp R (Currency R) := do
  let g ← loadCoins
  let o ← loadMaybeRef
  return ⟨g, o⟩

/-- `TickTock.deserialize` -/
def loadTickTock : SOp R TickTock := do
  let a ← loadBit
  let b ← loadBit
  return ⟨a, b⟩

/-- `x if cell_slice.load_bit() else None` -/
def loadIf {α} (p : SOp R α) : SOp R (Option α) := do
  let b ← loadBit
  if b then do
    let a ← p
    return some a
  else return none

/-- `StateInit.deserialize` -/
def loadStateInit : SOp R (StateInit R) := do
  let sd ← loadIf (loadUint 5)
  let sp ← loadIf loadTickTock
  let code ← loadIf loadRef
  let data ← loadIf loadRef
  let lib ← loadIf loadRef
  return ⟨sd, sp, code, data, lib⟩

/-- `InternalMsgInfo.deserialize` -/
def loadInfoInt : SOp R (Info R) := do
  let tag ← loadBit
  if tag then SOp.fail else do
    let a ← loadBit
    let b ← loadBit
    let c ← loadBit
    let src ← loadAddress
    let dest ← loadAddress
    let value ← loadCurrency
    let ihr ← loadCoins
    let fwd ← loadCoins
    let lt ← loadUint 64
    let at_ ← loadUint 32
    return Info.int a b c src dest value ihr fwd lt at_

/-- `ExternalMsgInfo.deserialize` -/
def loadInfoExtIn : SOp R (Info R) := do
  let tag ← loadBits 2
  if tag != [true, false] then SOp.fail else do
    let src ← loadAddress
    let dest ← loadAddress
    let fee ← loadCoins
    return Info.extIn src dest fee

/-- `ExternalOutMsgInfo.deserialize` -/
def loadInfoExtOut : SOp R (Info R) := do
  let tag ← loadBits 2
  if tag != [true, true] then SOp.fail else do
    let src ← loadAddress
    let dest ← loadAddress
    let lt ← loadUint 64
    let at_ ← loadUint 32
    return Info.extOut src dest lt at_

/-- `CommonMsgInfo.deserialize` -/
def loadInfo : SOp R (Info R) := do
  let tag ← preloadBit
  if !tag then loadInfoInt else do
    let tag2 ← peekBits 2
    if tag2 == [true, false] then loadInfoExtIn else loadInfoExtOut

/-- `MessageAny.deserialize` on a slice -/
def loadMessage (ops : CellOps R) : SOp R (Msg R) := do
  let info ← loadInfo
  let maybe ← loadBit
  let init ← (if maybe then do
      let either ← loadBit
      if either then do
        let r ← loadRef
        let v := ops.view r
        let s ← ofOption ((loadStateInit ⟨v.1, v.2⟩).2)
        return some s
      else do
        let s ← loadStateInit
        return some s
    else return none : SOp R (Option (StateInit R)))
  let either ← loadBit
  if either then do
    let r ← loadRef
    return ⟨info, init, ops.view r⟩
  else fun s => (s, some ⟨info, init, (s.bits, s.refs)⟩)      -- cell_slice.to_cell()

/-- `MessageAny.deserialize(cell.begin_parse())` -/
def deserialize (ops : CellOps R) (c : R) : Option (Msg R) :=
  let v := ops.view c
  (loadMessage ops ⟨v.1, v.2⟩).2

def deserializeStateInit (ops : CellOps R) (c : R) : Option (StateInit R) :=
  let v := ops.view c
  (loadStateInit ⟨v.1, v.2⟩).2

def deserializeCurrency (ops : CellOps R) (c : R) : Option (Currency R) :=
  let v := ops.view c
  (loadCurrency ⟨v.1, v.2⟩).2

/-- `StateInit.serialize`, `CurrencyCollection.serialize` as cells -/
def serializeStateInit (ops : CellOps R) (s : StateInit R) : Option R := cellOf ops (stateInitB s)
def serializeCurrency (ops : CellOps R) (c : Currency R) : Option R := cellOf ops (sub (currencyB c))

end TonVerif.Model.Message
