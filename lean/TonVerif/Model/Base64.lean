/-
Executable model of the part of Python's `base64` / `binascii` modules that pytoniq-core uses:

* `base64.b64encode(bs)` / `base64.urlsafe_b64encode(bs)`   (= `binascii.b2a_base64(bs, newline=False)`,
  then `'+/' -> '-_'` for the url-safe variant),
* `base64.b64decode(s)` / `base64.urlsafe_b64decode(s)` with the default `validate=False`
  (= `binascii.a2b_base64(s, strict_mode=False)` of CPython 3.12: characters outside the alphabet are
  DISCARDED, `=` ends the data only when it completes a quad, leftover sextets are an error).

Texts are `List Char` (the driver converts from/to `String`).  Import-free apart from Basic.
-/
import TonVerif.Basic
namespace TonVerif.Model.Base64
open TonVerif

/-- sextet value -> character of the standard (`url = false`) or url-safe (`url = true`) alphabet. -/
def encChar (url : Bool) (n : Nat) : Char :=
  if n < 26 then Char.ofNat (65 + n)
  else if n < 52 then Char.ofNat (71 + n)
  else if n < 62 then Char.ofNat (n - 4)
  else if n = 62 then (if url then '-' else '+')
  else (if url then '_' else '/')

/-- `binascii`'s `table_a2b_base64`: the value of a character of the STANDARD alphabet, `none` otherwise. -/
def decVal? (c : Char) : Option Nat :=
  let n := c.toNat
  if 65 ≤ n ∧ n ≤ 90 then some (n - 65)
  else if 97 ≤ n ∧ n ≤ 122 then some (n - 71)
  else if 48 ≤ n ∧ n ≤ 57 then some (n + 4)
  else if n = 43 then some 62
  else if n = 47 then some 63
  else none

/-- `bytes.translate(_urlsafe_decode_translation)`: `-` -> `+`, `_` -> `/`, everything else unchanged. -/
def urlTranslate (c : Char) : Char :=
  if c = '-' then '+' else if c = '_' then '/' else c

/-- `b64encode` (`url = false`) / `urlsafe_b64encode` (`url = true`): 3 bytes -> 4 characters, `=` padding. -/
def encode (url : Bool) : Bytes → List Char
  | a :: b :: c :: rest =>
      encChar url (a / 4) :: encChar url ((a % 4) * 16 + b / 16) ::
      encChar url ((b % 16) * 4 + c / 64) :: encChar url (c % 64) :: encode url rest
  | [a, b] => [encChar url (a / 4), encChar url ((a % 4) * 16 + b / 16), encChar url ((b % 16) * 4), '=']
  | [a] => [encChar url (a / 4), encChar url ((a % 4) * 16), '=', '=']
  | [] => []

/-- The loop of `binascii.a2b_base64(strict_mode=False)`.
`quad` = `quad_pos`, `left` = `leftchar`, `pads` = `pads`, `acc` = output so far (reversed).
`none` = `binascii.Error` (leftover sextets at the end of the input). -/
def decGo : List Char → (quad left pads : Nat) → (acc : Bytes) → Option Bytes
  | [], quad, _, _, acc => if quad = 0 then some acc.reverse else none
  | c :: rest, quad, left, pads, acc =>
    if c = '=' then
      if 2 ≤ quad ∧ 4 ≤ quad + (pads + 1) then some acc.reverse
      else decGo rest quad left (if 2 ≤ quad then pads + 1 else pads) acc
    else match decVal? c with
      | none => decGo rest quad left pads acc
      | some v =>
        if quad = 0 then decGo rest 1 v 0 acc
        else if quad = 1 then decGo rest 2 (v % 16) 0 ((left * 4 + v / 16) :: acc)
        else if quad = 2 then decGo rest 3 (v % 4) 0 ((left * 16 + v / 4) :: acc)
        else decGo rest 0 0 0 ((left * 64 + v) :: acc)

/-- `base64.b64decode(s)` for an ASCII text `s` (`none` = an exception: non-ASCII input or `binascii.Error`). -/
def decode (s : List Char) : Option Bytes :=
  if s.any (fun c => 128 ≤ c.toNat) then none else decGo s 0 0 0 []

/-- `base64.urlsafe_b64decode(s)`. Note that `+` and `/` stay valid: only `-`/`_` are translated. -/
def decodeUrlsafe (s : List Char) : Option Bytes :=
  if s.any (fun c => 128 ≤ c.toNat) then none else decGo (s.map urlTranslate) 0 0 0 []

end TonVerif.Model.Base64
