/-
Basic executable definitions shared by all models: bit lists, byte lists,
big/little-endian integers.  Import-free (core Lean only) so the driver links.

Conventions: a *bit list* is `List Bool` (first element = most significant /
first on the wire); a *byte list* is `List Nat` whose elements are `< 256`
(`Bytes.WF`).  Python's unbounded `int` is `Nat`/`Int`.
-/
namespace TonVerif

abbrev Bits := List Bool
abbrev Bytes := List Nat

def Bytes.WF (bs : Bytes) : Prop := ∀ b ∈ bs, b < 256

instance (bs : Bytes) : Decidable (Bytes.WF bs) := by unfold Bytes.WF; infer_instance

/-- big-endian digits of `v` in base 256, exactly `w` of them (truncating). -/
def natToBE : Nat → Nat → Bytes
  | 0, _ => []
  | w+1, v => natToBE w (v / 256) ++ [v % 256]

/-- `int.to_bytes(w, 'big')`: `none` = OverflowError. -/
def toBytesBE? (w v : Nat) : Option Bytes :=
  if v < 256 ^ w then some (natToBE w v) else none

def toBytesLE? (w v : Nat) : Option Bytes := (toBytesBE? w v).map List.reverse

/-- `int.from_bytes(bs, 'big')`. -/
def natOfBE (bs : Bytes) : Nat := bs.foldl (fun acc b => acc * 256 + b) 0

/-- bits (MSB first) of `v`, exactly `w` of them (truncating). -/
def natToBits : Nat → Nat → Bits
  | 0, _ => []
  | w+1, v => natToBits w (v / 2) ++ [v % 2 == 1]

def natOfBits (bs : Bits) : Nat := bs.foldl (fun acc b => acc * 2 + (if b then 1 else 0)) 0

def byteToBits (b : Nat) : Bits := natToBits 8 b

def bytesToBits (bs : Bytes) : Bits := bs.flatMap byteToBits

/-- bits to bytes, last byte zero-padded on the right (bitarray.tobytes()). -/
def bitsToBytes : Bits → Bytes
  | [] => []
  | b0 :: rest =>
    let chunk := (b0 :: rest).take 8
    let pad := chunk ++ List.replicate (8 - chunk.length) false
    natOfBits pad :: bitsToBytes ((b0 :: rest).drop 8)
termination_by bs => bs.length
decreasing_by simp; omega

def hexDigit (n : Nat) : Char :=
  if n < 10 then Char.ofNat (48 + n) else Char.ofNat (87 + n)

def hexOfBytes (bs : Bytes) : String :=
  String.ofList (bs.flatMap (fun b => [hexDigit (b / 16), hexDigit (b % 16)]))

def hexVal? (c : Char) : Option Nat :=
  if '0' ≤ c ∧ c ≤ '9' then some (c.toNat - 48)
  else if 'a' ≤ c ∧ c ≤ 'f' then some (c.toNat - 87)
  else if 'A' ≤ c ∧ c ≤ 'F' then some (c.toNat - 55)
  else none

def bytesOfHexChars : List Char → Option Bytes
  | [] => some []
  | [_] => none
  | a :: b :: rest => do
    let x ← hexVal? a
    let y ← hexVal? b
    let r ← bytesOfHexChars rest
    pure ((x * 16 + y) :: r)

def bytesOfHex? (s : String) : Option Bytes := bytesOfHexChars s.toList

def bitsOfString? (s : String) : Option Bits :=
  s.toList.mapM (fun c => if c == '0' then some false else if c == '1' then some true else none)

def stringOfBits (bs : Bits) : String := String.ofList (bs.map (fun b => if b then '1' else '0'))

end TonVerif
