/-
Meaning of the Python `bytes` / `range` operations that the bytes-program translator (harness/translate/pybytes.py)
emits calls to.  Hand-written, core Lean only.  Together with `natOfBE` (Basic.lean, = `int.from_bytes(x, 'big')`),
`List.length` (= `len`) and `xs[i]?` (= `xs[i]` for `i ≥ 0`, `none` = IndexError) this is the translator's trusted
reading of the built-ins; it is validated against CPython on every run (harness/translate/bocheader.py `validate`).
-/
import TonVerif.Basic

namespace TonVerif.Py

/-- `xs[a:b]` for `0 ≤ a`, `0 ≤ b`: clamps to the length, never raises, empty when `b ≤ a`. -/
@[reducible] def slice {α : Type} (xs : List α) (a b : Nat) : List α := (xs.take b).drop a

/-- `len(range(a, b, w))` for `0 ≤ a, b` and `w > 0`: `⌈(b - a) / w⌉`, `0` when `b ≤ a`. -/
def rangeLen (a b w : Nat) : Nat := (b - a + w - 1) / w

/-- `list(range(a, b, w))` for `0 ≤ a, b, w`; `none` = ValueError (`range() arg 3 must not be zero`). -/
def range? (a b w : Nat) : Option (List Nat) :=
  if w = 0 then none else some ((List.range (rangeLen a b w)).map (fun t => a + t * w))

/-- `a, b = xs` : `none` = ValueError (wrong number of values to unpack). -/
def unpack2? {α : Type} : List α → Option (α × α)
  | [a, b] => some (a, b)
  | _ => none

/-- `a, b, c = xs` -/
def unpack3? {α : Type} : List α → Option (α × α × α)
  | [a, b, c] => some (a, b, c)
  | _ => none

/-- `a, b, c, d = xs` -/
def unpack4? {α : Type} : List α → Option (α × α × α × α)
  | [a, b, c, d] => some (a, b, c, d)
  | _ => none

end TonVerif.Py
