/-
Meaning of the Python `bytes` / `range` operations that the bytes-program translator (harness/translate/pybytes.py)
emits calls to.  Hand-written, core Lean only.  Together with `natOfBE` (Basic.lean, = `int.from_bytes(x, 'big')`),
`List.length` (= `len`) and `xs[i]?` (= `xs[i]` for `i ≥ 0`, `none` = IndexError) this is the translator's trusted
reading of the built-ins; it is validated against CPython on every run (harness/translate/bocheader.py `validate`).
-/
import TonVerif.Basic

namespace TonVerif.Py

/-- `xs[a:b]` for `0 ≤ a`, `0 ≤ b`: clamps to the length, never raises, empty when `b ≤ a`. -/
@[reducible] def slice {α : Type} (xs : List α) (a b : Nat) : List α := (xs.take b).drop a

/-- `len(range(a, b, w))` for `0 ≤ a, b` and `w > 0`: `⌈(b - a) / w⌉`, `0` when `b ≤ a`. -/
def rangeLen (a b w : Nat) : Nat := (b - a + w - 1) / w

/-- `list(range(a, b, w))` for `0 ≤ a, b, w`; `none` = ValueError (`range() arg 3 must not be zero`). -/
def range? (a b w : Nat) : Option (List Nat) :=
  if w = 0 then none else some ((List.range (rangeLen a b w)).map (fun t => a + t * w))

/-- `a, b = xs` : `none` = ValueError (wrong number of values to unpack). -/
def unpack2? {α : Type} : List α → Option (α × α)
  | [a, b] => some (a, b)
  | _ => none

/-- `a, b, c = xs` -/
def unpack3? {α : Type} : List α → Option (α × α × α)
  | [a, b, c] => some (a, b, c)
  | _ => none

/-- `a, b, c, d = xs` -/
def unpack4? {α : Type} : List α → Option (α × α × α × α)
  | [a, b, c, d] => some (a, b, c, d)
  | _ => none

/-! ### loops, negative indices, `bitarray` operations (emitted by harness/translate/pyloops.py) -/

/-- `for x in xs: body` with the loop-carried variables as state `s`.  The body returns `none` = it raises,
`some (s', true)` = it executed `break` with the variables at `s'`, `some (s', false)` = it reached its end. -/
def loop? {ι σ : Type} : List ι → σ → (ι → σ → Option (σ × Bool)) → Option σ
  | [], s, _ => some s
  | x :: xs, s, f => (f x s).bind fun r => if r.2 then some r.1 else loop? xs r.1 f

/-- `list(range(a, b, w))` for arbitrary ints; `none` = ValueError (zero step). -/
def rangeI? (a b w : Int) : Option (List Int) :=
  if w = 0 then none
  else
    let n : Nat := if 0 < w then ((b - a + w - 1) / w).toNat else ((a - b + (-w) - 1) / (-w)).toNat
    some ((List.range n).map fun (t : Nat) => a + (t : Int) * w)

/-- `xs[i]` for an arbitrary int `i` (negative = from the end); `none` = IndexError. -/
def getI? {α : Type} (xs : List α) (i : Int) : Option α :=
  if 0 ≤ i then xs[i.toNat]?
  else if (-i).toNat ≤ xs.length then xs[xs.length - (-i).toNat]? else none

/-- `bits[i]` of a bitarray: the bit as the int `0` / `1`. -/
def bitAt? (bits : Bits) (i : Int) : Option Nat := (getI? bits i).map fun b => if b then 1 else 0

/-- a slice bound: `None` = the default, a negative bound counts from the end (not below 0), everything is clamped to the length. -/
def bound (len dflt : Nat) : Option Int → Nat
  | none => dflt
  | some i => if 0 ≤ i then min i.toNat len else len - (-i).toNat

/-- `xs[lo:hi]` with optional / negative bounds (no step); never raises. -/
def sliceI {α : Type} (xs : List α) (lo hi : Option Int) : List α :=
  (xs.take (bound xs.length xs.length hi)).drop (bound xs.length 0 lo)

/-- `bits.frombytes(x)`: appends the bits of every byte, most significant first (a `bitarray()` is big-endian). -/
def frombytes (bits : Bits) (x : Bytes) : Bits := bits ++ bytesToBits x

/-- `ba2int(bits, signed=s)` of a big-endian bitarray; `none` = ValueError (empty bitarray).  Signed = two's complement over
`len(bits)` bits. -/
def ba2int? (signed : Bool) (bits : Bits) : Option Int :=
  if bits = [] then none
  else
    let v := natOfBits bits
    if signed && decide (2 ^ bits.length ≤ 2 * v) then some ((v : Int) - ((2 ^ bits.length : Nat) : Int)) else some (v : Int)

/-- `TvmBitarray(size, bits)` (boc/tvm_bitarray.py): raises when `size > 1023` (the check of `__init__`, tied by C07's
`sizeTooLarge`), otherwise a bitarray with the given bits (their number is NOT checked there). -/
def tvmBitarray? (size : Nat) (bits : Bits) : Option Bits := if size > 1023 then none else some bits

/-- `xs[i][field] = v` as a functional update of element `i`; `none` = IndexError. -/
def setAt? {α : Type} (xs : List α) (i : Nat) (f : α → α) : Option (List α) :=
  (xs[i]?).map fun x => xs.set i (f x)

end TonVerif.Py
